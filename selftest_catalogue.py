"""Collects the mutation catalogues in selftest.d/*.py.  Each file defines
MUTATIONS and CONTROLS: lists of (property, name, [(file, old, new)]) where
`old` must occur exactly once in `file` (relative to the repository root)."""
import glob
import os
import runpy

MUTATIONS = []
CONTROLS = []
for f in sorted(glob.glob(os.path.join(os.path.dirname(os.path.abspath(__file__)), "selftest.d", "*.py"))):
    ns = runpy.run_path(f)
    MUTATIONS += ns.get("MUTATIONS", [])
    CONTROLS += ns.get("CONTROLS", [])
