"""C13 miss 1: after an unclean stop, a *response* without a partial IV of its own
(the normal kind of response) initialises the lost replay window, so requests seen
before the crash are accepted again without any Echo exchange.

Run with cwd = the tree under test:
    PYTHONPATH=<tree>:/verif/harness/shims /venv/bin/python /tmp/adv/C13/miss1_demo.py
exit 0: every replayed request was rejected; exit 1: a request from before the crash was accepted again.
"""

import json
import os
import shutil
import sys
import tempfile

import aiocoap
import aiocoap.oscore as oscore
from aiocoap import Message, GET, POST, CONTENT

print("aiocoap from", aiocoap.__file__)

SECRET = "0102030405060708090a0b0c0d0e0f10"
SALT = "9e7ca92223786340"


class Peer(oscore.CanProtect, oscore.CanUnprotect, oscore.SecurityContextUtils):
    """In-memory peer context (as tests/test_oscore.py's NonsavingSecurityContext)."""

    echo_recovery = None

    def __init__(self):
        self.alg_aead = oscore.algorithms[oscore.DEFAULT_ALGORITHM]
        self.hashfun = oscore.hashfunctions[oscore.DEFAULT_HASHFUNCTION]
        self.sender_id = b""
        self.recipient_id = b"\x01"
        self.id_context = None
        self.derive_keys(bytes.fromhex(SALT), bytes.fromhex(SECRET))
        self.sender_sequence_number = 0
        self.recipient_replay_window = oscore.ReplayWindow(32, lambda: None)
        self.recipient_replay_window.initialize_empty()

    def post_seqnoincrease(self):
        pass


def over_the_wire(msg, mid):
    msg.mtype, msg.mid, msg.token = aiocoap.NON, mid, b""
    return msg.encode()


def kill(ctx):
    """Process death: no __del__/_destroy; the kernel drops the lock."""
    lock, ctx.lockfile = ctx.lockfile, None
    lock.release()


def main():
    d = tempfile.mkdtemp(prefix="c13-miss1-")
    try:
        with open(os.path.join(d, "settings.json"), "w") as f:
            json.dump({"sender-id_hex": "01", "recipient-id_hex": "", "secret_hex": SECRET, "salt_hex": SALT}, f)
        peer = Peer()

        # lifetime 1: three requests of the peer are accepted, then the process dies
        ctx = oscore.FilesystemSecurityContext(d)
        wires = []
        for n in range(3):
            outer, _ = peer.protect(Message(code=POST, uri_path=("r",), payload=b"%d" % n))
            wires.append(over_the_wire(outer, n))
            ctx.unprotect(Message.decode(wires[-1]))
        print("lifetime 1: requests 0, 1, 2 accepted; sequence.json:", open(os.path.join(d, "sequence.json")).read())
        kill(ctx)

        # lifetime 2: replay state is unknown
        ctx = oscore.FilesystemSecurityContext(d)
        assert not ctx.recipient_replay_window.is_initialized()
        # ... the context is used as a client once: request out, ordinary response (no PIV of its own) in
        req, req_id = ctx.protect(Message(code=GET, uri_path=("x",)))
        _, peer_req_id = peer.unprotect(Message.decode(over_the_wire(req, 100)))
        resp, _ = peer.protect(Message(code=CONTENT, payload=b"hello"), request_id=peer_req_id)
        assert len(resp.opt.oscore) == 0 or resp.opt.oscore[0] & 7 == 0, "response was expected to reuse the request's nonce"
        resp.mtype, resp.mid, resp.token = aiocoap.NON, 101, b""
        plain, _ = ctx.unprotect(Message.decode(resp.encode()), request_id=req_id)
        assert plain.payload == b"hello"
        print("lifetime 2: one response unprotected; replay window initialised:", ctx.recipient_replay_window.is_initialized(), ctx.recipient_replay_window.persist())

        # ... and the requests from before the crash are replayed (unchanged, no Echo exchange ever took place)
        again = []
        for n, w in enumerate(wires):
            try:
                ctx.unprotect(Message.decode(w))
            except oscore.ProtectionInvalid as e:
                print("replayed request %d after the unclean stop: rejected (%s)" % (n, type(e).__name__))
            else:
                print("replayed request %d after the unclean stop: ACCEPTED" % n)
                again.append(n)
        kill(ctx)
        if again:
            print("C13 violated: request(s) %s, accepted before the crash, were accepted AGAIN after the restart without a fresh Echo exchange" % again)
            return 1
        print("OK")
        return 0
    finally:
        shutil.rmtree(d, ignore_errors=True)


if __name__ == "__main__":
    sys.exit(main())
