"""C19 miss 1: containment decided by a *string* prefix test.

Run with cwd = the tree under test:  cd <tree> && python /tmp/adv/C19/miss1_demo.py
exit 0: every request stayed inside the root; exit 1: the file server read,
created or deleted an object in a SIBLING of its root whose name merely
starts with the root's name (root "srv", sibling "srv-private").
"""

import asyncio
import logging
import os
import shutil
import sys
import tempfile
from pathlib import Path

sys.path.insert(0, os.getcwd())
import aiocoap  # noqa: E402
from aiocoap.cli.fileserver import FileServer  # noqa: E402
from aiocoap.message import Direction  # noqa: E402

print("aiocoap from", aiocoap.__file__)

T = os.path.realpath(tempfile.mkdtemp(prefix="c19-miss1-"))
ROOT = T + "/srv"
SIB = T + "/srv-private"
os.makedirs(ROOT)
os.makedirs(SIB)
open(ROOT + "/a", "w").write("inside")
open(SIB + "/secret", "w").write("OUTSIDE THE ROOT")

log = logging.getLogger("demo")
log.addHandler(logging.NullHandler())
log.propagate = False


def req(code, path, **kw):
    m = aiocoap.Message(code=code, uri_path=path, **kw)
    m.direction = Direction.INCOMING
    return m


async def ask(fs, code, path, **kw):
    try:
        r = await fs.render(req(code, path, **kw))
    except aiocoap.error.RenderableError as e:
        r = e.to_message()
    except Exception as e:  # what the library turns into 5.00
        print("  (%s %r raised %r)" % (code, path, e))
        r = aiocoap.Message(code=aiocoap.INTERNAL_SERVER_ERROR)
    print("  %s %r -> %s %r" % (code, path, r.code, r.payload[:40]))
    return r


async def main():
    bad = []
    ro = FileServer(Path(ROOT), log, write=False)
    rw = FileServer(Path(ROOT), log, write=True)

    # reads outside the root
    r = await ask(ro, aiocoap.GET, ("..", "srv-private", "secret"))
    if r.code.is_successful() or b"OUTSIDE" in r.payload:
        bad.append("GET read %s/secret: %r" % (SIB, r.payload))
    # lists outside the root
    r = await ask(ro, aiocoap.GET, ("..", "srv-private", ""))
    if r.code.is_successful():
        bad.append("GET listed %s: %r" % (SIB, r.payload))
    # creates outside the root
    r = await ask(rw, aiocoap.PUT, ("..", "srv-private", "planted"), payload=b"x")
    if os.path.exists(SIB + "/planted") or r.code.is_successful():
        bad.append("PUT created %s/planted" % SIB)
    # creates a new sibling of the root
    r = await ask(rw, aiocoap.PUT, ("..", "srv.bak"), payload=b"x")
    if os.path.exists(T + "/srv.bak") or r.code.is_successful():
        bad.append("PUT created %s/srv.bak" % T)
    # deletes outside the root
    r = await ask(rw, aiocoap.DELETE, ("..", "srv-private", "secret"))
    if not os.path.exists(SIB + "/secret") or r.code.is_successful():
        bad.append("DELETE removed %s/secret" % SIB)
    # sanity: the ordinary cases behave
    r = await ask(ro, aiocoap.GET, ("a",))
    assert r.payload == b"inside", r.payload
    r = await ask(ro, aiocoap.GET, ("..", "a"))
    assert not r.code.is_successful()
    return bad


try:
    bad = asyncio.run(main())
finally:
    shutil.rmtree(T, ignore_errors=True)
if bad:
    print("C19 VIOLATED (objects outside the root touched):")
    for b in bad:
        print("  -", b)
    sys.exit(1)
print("ok: nothing outside the root was touched")
