"""C12 miss 3: a security context whose replay window is uninitialised (state lost) and that
has no Echo recovery configured (echo_recovery = None) silently starts over with an empty
window, so requests -- including replays of requests accepted before the state was lost --
are accepted without any Echo round trip.

Run with cwd = the tree under test:
    cd <tree> && PYTHONPATH=<tree>:/verif/harness/shims python /tmp/adv/C12/miss3_demo.py
exit 0: nothing is accepted while the window is uninitialised; exit 1: a request is."""
import os
import sys

sys.path.insert(0, os.getcwd())
try:
    import cbor2  # noqa: F401
    import cryptography  # noqa: F401
    import filelock  # noqa: F401
except ImportError:
    sys.path.append("/verif/harness/shims")

import aiocoap
import aiocoap.oscore as oscore

print("aiocoap from", aiocoap.__file__)
h = bytes.fromhex


class Ctx(oscore.CanProtect, oscore.CanUnprotect, oscore.SecurityContextUtils):
    echo_recovery = None  # as in tests/test_oscore.py: no Echo recovery

    def post_seqnoincrease(self):
        pass


def ctx(sid, rid, initialized):
    c = Ctx()
    c.alg_aead = oscore.algorithms[oscore.DEFAULT_ALGORITHM]
    c.hashfun = oscore.hashfunctions[oscore.DEFAULT_HASHFUNCTION]
    c.sender_id, c.recipient_id, c.id_context = sid, rid, None
    c.derive_keys(h("9e7ca92223786340"), h("0102030405060708090a0b0c0d0e0f10"))
    c.sender_sequence_number = 0
    c.recipient_replay_window = oscore.ReplayWindow(32, lambda: None)
    if initialized:
        c.recipient_replay_window.initialize_empty()
    return c


def try_unprotect(server, data):
    try:
        server.unprotect(aiocoap.Message.decode(data))
        return "accepted"
    except oscore.ProtectionInvalid as e:
        return "rejected (%s)" % type(e).__name__


client = ctx(b"\x01", b"", True)
client.sender_sequence_number = 5
outer, _ = client.protect(aiocoap.Message(code=aiocoap.POST, uri_path=("act",), payload=b"open the door"))
outer.mtype, outer.mid, outer.token = aiocoap.NON, 1, b""
recorded = outer.encode()

# first lifetime of the server: the request is accepted once, its replay is refused
server = ctx(b"", b"\x01", True)
r1 = try_unprotect(server, recorded)
r2 = try_unprotect(server, recorded)
print("lifetime 1:", r1, "/ replay:", r2)
assert r1 == "accepted" and r2.startswith("rejected")

# the server loses its window (restart): same keys, window uninitialised, no Echo recovery
server = ctx(b"", b"\x01", False)
assert not server.recipient_replay_window.is_initialized()
r3 = try_unprotect(server, recorded)
print("lifetime 2 (window uninitialised, echo_recovery=None): replay of request 5:", r3)
if r3 == "accepted":
    print("VIOLATED: accepted while the window is uninitialised, without any Echo; sequence number 5 accepted twice")
    sys.exit(1)
print("ok: nothing accepted while uninitialised")
sys.exit(0)
