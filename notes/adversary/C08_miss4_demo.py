
# ---- minimal in-process CoAP-over-UDP server stack (real TokenManager / MessageManager /
# ---- Context.render_to_pipe / resource.Site of aiocoap; only the socket is replaced) ----
import asyncio
import logging
import os
import sys

sys.path.insert(0, os.getcwd())  # run with cwd = the aiocoap tree under test

import aiocoap
from aiocoap import Message, resource
from aiocoap.numbers.codes import Code
from aiocoap.numbers.types import CON, NON, ACK, RST
from aiocoap.messagemanager import MessageManager
from aiocoap.tokenmanager import TokenManager
from aiocoap.protocol import Context

print("aiocoap from", aiocoap.__file__)


class Remote:
    """An endpoint address: hashable, compares by name"""

    is_multicast = False
    is_multicast_locally = False
    scheme = "coap"
    maximum_block_size_exp = 6
    maximum_payload_size = 1124
    blockwise_key = None

    def __init__(self, name):
        self.name = name
        self.blockwise_key = name
        self.hostinfo = name
        self.hostinfo_local = "server"
        self.uri_base = "coap://" + name
        self.uri_base_local = "coap://server"

    def as_response_address(self):
        return self

    def __eq__(self, other):
        return isinstance(other, Remote) and other.name == self.name

    def __hash__(self):
        return hash(self.name)

    def __repr__(self):
        return "<Remote %s>" % self.name


class Wire:
    """Stands in for the UDP message interface: records what the server sends"""

    def __init__(self):
        self.sent = []  # (remote, decoded copy of the datagram)

    def send(self, message):
        raw = message.encode()
        self.sent.append((message.remote, Message.decode(raw, message.remote)))

    async def shutdown(self):
        pass


class FakeContext:
    """Just enough of protocol.Context for TokenManager: the real render_to_pipe code is borrowed"""

    client_credentials = None
    render_to_pipe = Context.render_to_pipe
    _render_to_pipe = Context._render_to_pipe

    def __init__(self, site):
        self.serversite = site
        self.log = logging.getLogger("demo")
        self.log.setLevel(logging.CRITICAL)
        self.loop = asyncio.get_running_loop()


class Server:
    def __init__(self, site):
        self.wire = Wire()
        self.ctx = FakeContext(site)
        self.tm = TokenManager(self.ctx)
        self.mm = MessageManager(self.tm)
        self.tm.token_interface = self.mm
        self.mm.message_interface = self.wire
        self.mm.message_id = 100

    def rx(self, remote, mtype, code, mid, token=b"", **opts):
        m = Message(code=code, **opts)
        m.mtype, m.mid, m.token = mtype, mid, token
        raw = m.encode()
        self.mm.dispatch_message(Message.decode(raw, remote))

    def register(self, remote, token, mid, mtype=CON, path=("obs",)):
        self.rx(remote, mtype, Code.GET, mid, token, uri_path=path, observe=0)

    def sent_to(self, remote, token):
        return [m for (r, m) in self.wire.sent if r == remote and m.token == token and m.code.is_response()]


async def settle(n=20):
    for _ in range(n):
        await asyncio.sleep(0)


# ---- the situation: a long-lived registration (more notifications than the check ever produces) ----
class Counter(resource.ObservableResource):
    def __init__(self):
        super().__init__()
        self.state = 0

    async def render_get(self, request):
        return Message(code=Code.CONTENT, payload=b"%d" % self.state)


async def main():
    res = Counter()
    site = resource.Site()
    site.add_resource(["obs"], res)
    srv = Server(site)
    r1 = Remote("observer-1")
    srv.register(r1, b"\xa1", 1000, NON)
    await settle()
    N = 66000
    for i in range(N):
        res.state += 1
        res.updated_state()
        await settle(4)
    nums = [m.opt.observe for m in srv.sent_to(r1, b"\xa1")]
    print("%d notifications within one registration, Observe values %s ... %s" % (len(nums), nums[:3], nums[-3:]))
    assert len(nums) == N + 1, len(nums)
    for a, b in zip(nums, nums[1:]):
        if not b > a:
            print("VIOLATED: within one registration Observe value %d is followed by %d (not strictly increasing)" % (a, b))
            return 1
    print("ok: strictly increasing")
    return 0


sys.exit(asyncio.run(main()))
