"""C01 miss 3: Options.decode() rejects a Location-Path option whose value is
"." or "..".  Sentence 2 of the property: every datagram that is well-formed
under RFC 7252 section 3 is parsed into the fields the RFC assigns to it
(section 3 knows no per-option value restrictions; C01 deliberately leaves the
restrictions of section 5.10 to the application).
Run with cwd = the tree under test."""
import os
import sys

sys.path.insert(0, os.getcwd())  # the tree under test, not site-packages
import aiocoap
from aiocoap import Message
from aiocoap.error import UnparsableMessage

print(aiocoap.__file__)
bad = 0
for seg in (b"..", b"."):
    # ACK 2.01 Created, mid 0x1234, token 't', Location-Path "a", Location-Path seg, Location-Path "b"
    d = bytes.fromhex("61411234") + b"t" + b"\x81a" + bytes([len(seg)]) + seg + b"\x01b"
    try:
        m = Message.decode(d)
    except UnparsableMessage as e:
        print("well-formed datagram %s rejected: %r" % (d.hex(), e))
        bad = 1
        continue
    got = [(int(o.number), o.encode()) for o in m.opt.option_list()]
    if got != [(8, b"a"), (8, seg), (8, b"b")] or m.payload != b"" or m.mid != 0x1234 or m.token != b"t":
        print("datagram %s parsed into %r" % (d.hex(), got))
        bad = 1
    m.direction = aiocoap.message.Direction.OUTGOING
    if m.encode() != d:
        print("encode(decode(d)) differs from d = %s" % d.hex())
        bad = 1
print("VIOLATED" if bad else "ok")
sys.exit(bad)
