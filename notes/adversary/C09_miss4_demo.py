"""C09 miss 4: a renderable error whose renderer produces no message leaves the request unanswered.

Statement sentences violated: "Every request that reaches a server context is
answered by exactly one final response" and "... a failing error renderer
produce[s] a bare 5.00".  A to_message() that falls off its end (returns None)
is a failing renderer -- the unchanged tree says so itself and answers 5.00.

Run with cwd = the tree to be examined.  Exit 0: every request got exactly one
response with its token (5.00 without payload for the failing renderers).
Exit 1 otherwise.

Path exercised: real TokenManager.process_request -> Context.render_to_pipe ->
error_to_message / run_driving_pipe -> Site -> Resource.render; only the message
layer below the token manager is replaced by a recorder (no sockets needed).
"""

import asyncio
import logging
import os
import struct
import sys

sys.path.insert(0, os.getcwd())  # the tree in the current directory, not an installed copy

import aiocoap
from aiocoap import Message, error, resource
from aiocoap.numbers.codes import Code
from aiocoap.tokenmanager import TokenManager

print("aiocoap from", aiocoap.__file__)
logging.disable(logging.CRITICAL)


class Remote:
    """Minimal stand-in for a transport's endpoint address"""

    is_multicast = False
    is_multicast_locally = False
    maximum_payload_size = 1024
    maximum_block_size_exp = 6
    scheme = "coap"
    hostinfo = "peer"
    hostinfo_local = "me"
    uri_base = "coap://peer"
    uri_base_local = "coap://me"
    authenticated_claims = ()

    @property
    def blockwise_key(self):
        return ("peer",)

    def as_response_address(self):
        return self


class Recorder:
    """Stands where the MessageManager would: records what the token manager hands down"""

    def __init__(self):
        self.sent = []

    def send_message(self, message, messageerror_monitor):
        self.sent.append(message)


def raw_request(code, token, path, con=True):
    data = struct.pack("!BBH", 0x40 | (0 if con else 0x10) | len(token), code, 0x1234) + token
    prev = 0
    for seg in path:
        seg = seg.encode()
        assert len(seg) < 13
        data += bytes([((11 - prev) << 4) | len(seg)]) + seg
        prev = 11
    return data



class QuotaExceeded(error.RenderableError):
    """A hand-written renderable error with a code path that forgets to return"""

    def __init__(self, retry_after=None):
        self.retry_after = retry_after

    def to_message(self):
        if self.retry_after is not None:
            return Message(code=Code.TOO_MANY_REQUESTS, max_age=self.retry_after)
        # (no return: "can't happen", until it does)


class RaisingRenderer(error.RenderableError):
    def to_message(self):
        raise RuntimeError("s3cr3t")


class Res(resource.Resource):
    def __init__(self, exc):
        super().__init__()
        self.exc = exc

    async def render_get(self, request):
        if self.exc is None:
            return Message(payload=b"fine")
        raise self.exc


async def main():
    site = resource.Site()
    plan = [
        ("quota-10", QuotaExceeded(10), Code.TOO_MANY_REQUESTS),
        ("quota", QuotaExceeded(), Code.INTERNAL_SERVER_ERROR),        # renderer returns None
        ("raising", RaisingRenderer(), Code.INTERNAL_SERVER_ERROR),   # renderer raises (the case C09 drives)
        ("fine", None, Code.CONTENT),                                  # a later request
    ]
    for name, exc, _ in plan:
        site.add_resource([name], Res(exc))
    ctx = aiocoap.Context(serversite=site)
    tm = TokenManager(ctx)
    rec = Recorder()
    tm.token_interface = rec

    failures = 0
    for i, (name, exc, want) in enumerate(plan):
        for con in (True, False):
            token = bytes([0xD0 + i, int(con)])
            before = len(rec.sent)
            tm.process_request(Message.decode(raw_request(1, token, [name], con=con), Remote()))
            for _ in range(20):
                await asyncio.sleep(0)
            got = rec.sent[before:]
            ok = len(got) == 1 and got[0].code == want and got[0].token == token
            if want == Code.INTERNAL_SERVER_ERROR:
                ok = ok and got[0].payload == b""
            print("%-4s %s GET /%-8s want one %s, got %s; still pending in the token manager: %d"
                  % ("ok" if ok else "BAD", "CON" if con else "NON", name, want,
                     ["%s token=%s payload=%r" % (m.code, m.token.hex(), m.payload) for m in got],
                     len(tm.incoming_requests)))
            failures += not ok
    return failures


failures = asyncio.run(main())
if failures:
    print("VIOLATED: %d request(s) did not get their one final response" % failures)
    sys.exit(1)
print("every request got exactly one final response")
