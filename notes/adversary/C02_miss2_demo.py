"""miss2 demo -- "The result of every request completes exactly once, either with such a matching
response or with an error ..., under every pattern of ... Resets and of other requests running concurrently."

Run with cwd = the aiocoap tree under test:   python /tmp/adv/C02/miss2_demo.py
exit 0: property holds in this situation; exit 1: violated.

Situation: the application starts two confirmable requests to the same peer at the same time.  NSTART = 1,
so the second waits in the message layer until the exchange of the first is over.  Every copy of the first
request is lost (the peer never reacts to it), so it runs into the retransmission timeout (shortened here:
ACK_TIMEOUT 0.1 s, MAX_RETRANSMIT 1); the peer would answer the second request at once (piggy-backed).
"""

import asyncio
import logging
import os
import socket
import sys

sys.path.insert(0, os.getcwd())  # the tree under test is the current directory

import aiocoap
from aiocoap import Message, GET

print("aiocoap from", aiocoap.__file__)
logging.disable(logging.CRITICAL)


class Peer(asyncio.DatagramProtocol):
    def __init__(self):
        self.requests = []

    def connection_made(self, transport):
        self.transport = transport

    def datagram_received(self, data, addr):
        tkl = data[0] & 0x0F
        code = data[1]
        mid = data[2:4]
        token = data[4 : 4 + tkl]
        if not (1 <= code < 32):
            return
        self.requests.append(data)
        if b"first" in data:
            pass  # lost
        else:
            # piggy-backed 2.05 (type 2 = ACK)
            self.transport.sendto(bytes([0x60 | tkl, 0x45]) + mid + token + b"\xffanswer", addr)


class Quick(aiocoap.Reliable):
    ACK_TIMEOUT = 0.1
    MAX_RETRANSMIT = 1


async def outcome(req, timeout):
    try:
        r = await asyncio.wait_for(asyncio.shield(req.response), timeout)
        return "response %r" % r.payload
    except asyncio.TimeoutError:
        return None
    except Exception as e:
        return "error %s (library error: %s)" % (type(e).__name__, isinstance(e, aiocoap.error.Error))


async def main():
    loop = asyncio.get_running_loop()
    transport, peer = await loop.create_datagram_endpoint(Peer, local_addr=("::1", 0), family=socket.AF_INET6)
    port = transport.get_extra_info("sockname")[1]
    ctx = await aiocoap.Context.create_client_context()
    try:
        def req(path):
            m = Message(code=GET, uri="coap://[::1]:%d/%s" % (port, path), transport_tuning=Quick())
            return ctx.request(m, handle_blockwise=False)

        first = req("first")
        second = req("second")
        o1 = await outcome(first, 5)
        o2 = await outcome(second, 5)
        print("first request :", o1)
        print("second request:", o2)
        if o1 is not None and o2 is not None:
            print("ok: both requests completed")
            return 0
        # is there anything left in the library that could still complete the pending request?
        tman = ctx.request_interfaces[0]
        mman = tman.token_interface
        print("VIOLATED: a request has not completed 5 s after the first one timed out; "
              "datagrams the peer saw: %d; still registered as outstanding: %d; exchanges with a running timer: %d; "
              "messages waiting in the backlog: %d -- nothing is left that would ever complete it"
              % (len(peer.requests), len(tman.outgoing_requests), len(mman._active_exchanges),
                 sum(len(v) for v in mman._backlogs.values())))
        return 1
    finally:
        await ctx.shutdown()
        transport.close()


sys.exit(asyncio.run(main()))
