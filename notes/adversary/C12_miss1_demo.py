"""C12 miss 1: a late response/notification carrying its own Partial IV re-initialises an
already initialised replay window, so that a request accepted before is accepted again.

Run with cwd = the tree under test:
    cd <tree> && PYTHONPATH=<tree>:/verif/harness/shims python /tmp/adv/C12/miss1_demo.py
exit 0: every request accepted at most once; exit 1: a replay was accepted a second time."""
import os
import sys

sys.path.insert(0, os.getcwd())
try:
    import cbor2  # noqa: F401
    import cryptography  # noqa: F401
    import filelock  # noqa: F401
except ImportError:
    sys.path.append("/verif/harness/shims")

import aiocoap
import aiocoap.oscore as oscore

print("aiocoap from", aiocoap.__file__)
h = bytes.fromhex


class Ctx(oscore.CanProtect, oscore.CanUnprotect, oscore.SecurityContextUtils):
    echo_recovery = None

    def post_seqnoincrease(self):
        pass


def ctx(sid, rid, echo=None):
    c = Ctx()
    c.alg_aead = oscore.algorithms[oscore.DEFAULT_ALGORITHM]
    c.hashfun = oscore.hashfunctions[oscore.DEFAULT_HASHFUNCTION]
    c.sender_id, c.recipient_id, c.id_context = sid, rid, None
    c.derive_keys(h("9e7ca92223786340"), h("0102030405060708090a0b0c0d0e0f10"))
    c.sender_sequence_number = 0
    c.recipient_replay_window = oscore.ReplayWindow(32, lambda: None)
    c.recipient_replay_window.initialize_empty()
    c.echo_recovery = echo
    return c


def wire(msg, mid):
    msg.mtype, msg.mid, msg.token = aiocoap.NON, mid, b""
    return msg.encode()


def accepted(context, data, request_id=None):
    try:
        plain, _ = context.unprotect(aiocoap.Message.decode(data), request_id)
        return plain
    except oscore.ProtectionInvalid as e:
        return None


# S is the context under test; it is both server for P's requests and client of P (role
# reversal as in any peer that also observes a resource of the other side).  Echo recovery
# is configured (as FilesystemSecurityContext always does), the window is initialised.
S = ctx(b"", b"\x01", echo=b"\x11" * 8)
P = ctx(b"\x01", b"")

# S observes a resource at P
req, s_rid = S.protect(aiocoap.Message(code=aiocoap.GET, uri_path=("obs",), observe=0))
plain, p_rid = P.unprotect(aiocoap.Message.decode(wire(req, 1)))
P.sender_sequence_number = 5
first, _ = P.protect(aiocoap.Message(code=aiocoap.CONTENT, payload=b"v0", observe=0), p_rid)  # reuses the request nonce
assert accepted(S, wire(first, 2), s_rid) is not None
notif, _ = P.protect(aiocoap.Message(code=aiocoap.CONTENT, payload=b"v1", observe=1), p_rid)  # own Partial IV 5
notif_wire = wire(notif, 3)  # ... delayed in the network

# P sends two requests to S (sender sequence numbers 6 and 7); S accepts them
reqs = []
for i in range(2):
    m, _ = P.protect(aiocoap.Message(code=aiocoap.POST, uri_path=("act",), payload=b"fire %d" % i))
    reqs.append(wire(m, 10 + i))
first_round = [accepted(S, r) is not None for r in reqs]
print("requests 6, 7 accepted:", first_round, "window", S.recipient_replay_window.persist())
assert first_round == [True, True]

# the delayed notification (Partial IV 5) arrives at S
n = accepted(S, notif_wire, s_rid)
print("late notification accepted:", n is not None, "window", S.recipient_replay_window.persist())
assert n is not None

# an attacker replays the two requests
second_round = [accepted(S, r) is not None for r in reqs]
print("replayed requests 6, 7 accepted again:", second_round)
if any(second_round):
    print("VIOLATED: unprotection succeeded twice for the same sender sequence number")
    sys.exit(1)
print("ok: replays rejected")
sys.exit(0)
