"""miss1 demo -- "Tokens of requests that are outstanding at the same time towards one endpoint
are pairwise different" / "a response reaches exactly the request it answers".

Run with cwd = the aiocoap tree under test:   python /tmp/adv/C02/miss1_demo.py
exit 0: property holds in this situation; exit 1: violated.

Situation: one request to a peer stays unanswered (slow resource, NON request), while the application
runs 300 further requests to the same peer one after the other, each answered at once.  A scripted UDP
peer on ::1 records the tokens of the requests it has not answered yet and finally answers the first one.
"""

import asyncio
import logging
import os
import socket
import sys

sys.path.insert(0, os.getcwd())  # the tree under test is the current directory

import aiocoap
from aiocoap import Message, GET

print("aiocoap from", aiocoap.__file__)
logging.disable(logging.CRITICAL)


def parse(data):
    tkl = data[0] & 0x0F
    ty = (data[0] >> 4) & 3
    code = data[1]
    mid = int.from_bytes(data[2:4], "big")
    token = data[4 : 4 + tkl]
    rest = data[4 + tkl :]
    return ty, code, mid, token, rest


class Peer(asyncio.DatagramProtocol):
    """Answers every request at once (NON 2.05, payload = the request's Uri-Path bytes as seen on the
    wire), except requests whose options contain b"hold": those stay outstanding until release()."""

    def __init__(self):
        self.held = {}  # token -> (addr)
        self.clashes = []
        self.mid = 0x4000
        self.seen = 0

    def connection_made(self, transport):
        self.transport = transport

    def reply(self, token, addr, payload):
        self.mid = (self.mid + 1) & 0xFFFF
        # NON (type 1), 2.05 Content
        self.transport.sendto(bytes([0x50 | len(token), 0x45]) + self.mid.to_bytes(2, "big") + token + b"\xff" + payload, addr)

    def datagram_received(self, data, addr):
        ty, code, mid, token, rest = parse(data)
        if not (1 <= code < 32):
            return
        self.seen += 1
        if token in self.held:
            self.clashes.append((self.seen, token.hex()))
        if b"hold" in rest:
            self.held[token] = addr
        else:
            self.reply(token, addr, b"quick")

    def release(self):
        for token, addr in self.held.items():
            self.reply(token, addr, b"held")
        self.held.clear()


async def main():
    loop = asyncio.get_running_loop()
    transport, peer = await loop.create_datagram_endpoint(Peer, local_addr=("::1", 0), family=socket.AF_INET6)
    port = transport.get_extra_info("sockname")[1]
    ctx = await aiocoap.Context.create_client_context()
    try:
        def req(path):
            m = Message(code=GET, uri="coap://[::1]:%d/%s" % (port, path), transport_tuning=aiocoap.Unreliable)
            return ctx.request(m, handle_blockwise=False)

        first = req("hold")
        await asyncio.sleep(0.05)
        wrong = 0
        for i in range(300):
            r = await asyncio.wait_for(req("q").response, 5)
            if r.payload != b"quick":
                wrong += 1
        peer.release()
        try:
            r = await asyncio.wait_for(first.response, 2)
            first_result = r.payload
        except asyncio.TimeoutError:
            first_result = None
        bad = False
        if peer.clashes:
            bad = True
            print("VIOLATED: request number(s) %s went out with the token of the first request while that was still outstanding (same endpoint): %s"
                  % ([c[0] for c in peer.clashes], peer.clashes[:3]))
        if first_result != b"held":
            bad = True
            print("VIOLATED: the first request never received the response that answers it (result: %r)" % (first_result,))
        if wrong:
            bad = True
            print("VIOLATED: %d quick request(s) completed with a response that was not theirs" % wrong)
        if not bad:
            print("ok: 301 requests, all tokens of simultaneously outstanding requests distinct, every response reached its request")
        return 1 if bad else 0
    finally:
        await ctx.shutdown()
        transport.close()


sys.exit(asyncio.run(main()))
