"""C04: "Within EXCHANGE_LIFETIME of its first arrival, a request datagram identified by source
endpoint and message ID is passed to the application at most once, no matter how often and when
copies of it arrive".

A peer sends a confirmable request (message ID 0); within the next seconds 600 other requests
arrive (other message IDs, several peers); then a retransmitted copy of the first datagram
arrives -- well inside EXCHANGE_LIFETIME (247 s).  It must not be passed up a second time, and
must be answered with the stored acknowledgement.

Run with cwd = the aiocoap tree.  Exit 0: copy recognised; exit 1: copy processed as new.
"""
import asyncio
import logging
import socket
import struct
import os
import sys

sys.path.insert(0, os.getcwd())   # cwd = the tree under test
import aiocoap
from aiocoap import Message, GET, CONTENT
from aiocoap.numbers.types import CON
from aiocoap.messagemanager import MessageManager
from aiocoap.transports.udp6 import UDP6EndpointAddress

print("aiocoap from", aiocoap.__file__)


class Iface:
    def __init__(self):
        self.sent = []

    def send(self, message):
        self.sent.append((message.remote.sockaddr, message.encode()))


class TokenLayer:
    """Stands in for TokenManager + application: answers every request at once (piggy-backed)."""

    def __init__(self, loop):
        self.log = logging.getLogger("demo")
        self.loop = loop
        self.client_credentials = None
        self.calls = {}
        self.mm = None

    def process_request(self, request):
        k = (request.remote.sockaddr, request.mid)
        self.calls[k] = self.calls.get(k, 0) + 1
        resp = Message(code=CONTENT, payload=b"execution #%d" % self.calls[k])
        resp.token = request.token
        resp.remote = request.remote.as_response_address()
        resp.request = request
        self.mm.send_message(resp, lambda: None)


PKTINFO = struct.pack("16sI", socket.inet_pton(socket.AF_INET6, "2001:db8::100"), 1)


def incoming(iface, sockaddr, mid, token):
    raw = Message(code=GET, _mtype=CON, _mid=mid, _token=token, uri_path=["x"]).encode()
    return Message.decode(raw, UDP6EndpointAddress(sockaddr, iface, pktinfo=PKTINFO))


async def main():
    loop = asyncio.get_running_loop()
    iface = Iface()
    tl = TokenLayer(loop)
    mm = MessageManager(tl)
    mm.message_interface = iface
    tl.mm = mm

    peer = ("2001:db8::1", 5683, 0, 0)
    mm.dispatch_message(incoming(iface, peer, 0, b"\x01"))
    first_ack = iface.sent[-1][1]
    n = 0
    for i in range(600):
        other = ("2001:db8::%x" % (2 + i % 5), 5683, 0, 0)
        mm.dispatch_message(incoming(iface, other, 1000 + i, b"\x02"))
        n += 1
        if i % 100 == 0:
            await asyncio.sleep(0.01)   # a few ms of real time: far below EXCHANGE_LIFETIME
    before = len(iface.sent)
    mm.dispatch_message(incoming(iface, peer, 0, b"\x01"))      # the retransmitted copy
    repeated = [raw for to, raw in iface.sent[before:]]
    calls = tl.calls[(peer, 0)]
    print("other requests in between:", n, " executions of (peer, mid 0):", calls)
    print("first acknowledgement:", first_ack.hex(), " answer to the copy:", [r.hex() for r in repeated])
    for h in list(getattr(loop, "_scheduled", [])):
        h.cancel()
    if calls != 1:
        print("FAIL: the copy was passed to the application again (executed %d times)" % calls)
        return 1
    if repeated != [first_ack]:
        print("FAIL: the copy was not answered with a byte-identical repetition of the acknowledgement")
        return 1
    print("ok: executed once, acknowledgement repeated byte-identically")
    return 0


sys.exit(asyncio.run(main()))
