"""C01 miss 1: Options.encode() leaves out a Max-Age option whose value is the
default (60).  Sentence 1 of the property: serialising any representable
message gives exactly the RFC 7252 section 3 bytes, and parsing them gives back
a message with the same options.  Run with cwd = the tree under test."""
import os
import sys

sys.path.insert(0, os.getcwd())  # the tree under test, not site-packages
import aiocoap
from aiocoap import Message
from aiocoap.numbers.optionnumbers import OptionNumber

print(aiocoap.__file__)

m = Message(code=69, _mtype=2, _mid=0x1234, _token=b"t", payload=b"x")
m.opt.add_option(OptionNumber.MAX_AGE.create_option(value=60))
wire = m.encode()
# ver 1, ACK, TKL 1 | 2.05 | mid | token | opt 14 (delta 13+1, len 1) value 0x3c | marker | payload
rfc = bytes.fromhex("61451234" "74" "d1013c" "ff78")
bad = 0
if wire != rfc:
    print("encode() = %s, RFC 7252 section 3 bytes = %s" % (wire.hex(), rfc.hex()))
    bad = 1
back = Message.decode(wire)
opts = [(int(o.number), o.encode()) for o in back.opt.option_list()]
if opts != [(14, b"\x3c")]:
    print("decode(encode(m)) has options %r, m has [(14, b'<')]" % (opts,))
    bad = 1
# the neighbours 59 and 61 are fine either way
for v in (59, 61):
    m2 = Message(code=69, _mtype=2, _mid=1, payload=b"")
    m2.opt.max_age = v
    assert Message.decode(m2.encode()).opt.max_age == v
print("VIOLATED" if bad else "ok")
sys.exit(bad)
