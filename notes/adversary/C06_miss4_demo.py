"""C06 miss 4: the block-wise state is shared by all resources of a server, but the block key a
resource computes does not contain the path (Site strips it before the resource sees the request):
Block1 blocks sent to two resources are assembled into one body, and a later Block2 block of one
resource is cut from the rendering of another.

Run with cwd = the tree under test (network namespace with lo up):
    unshare -rn sh -c "ip link set lo up; cd <tree> && /venv/bin/python /tmp/adv/C06/miss4_demo.py"
exit 0: property holds in this situation; exit 1: violated.

Statement sentences: "a resource handler is invoked only with a body that is the in-order
concatenation of blocks 0..n received from one endpoint for one method and one set of cache-key
options [Uri-Path is one]; ... a continuation that does not extend an existing assembly (... unknown
... transfer) is answered 4.08"; "Every Block2 response is exactly the slice ... of the single
rendering made for the latest block-0 request ... (a later block without such a rendering 4.08)";
quantifier "interleaved across resources".
"""

import asyncio
import os
import socket
import struct
import sys

sys.path.insert(0, os.getcwd())
import aiocoap  # noqa: E402
import aiocoap.resource as resource  # noqa: E402

print("aiocoap from", aiocoap.__file__)

PORT = 56830
URI_PATH, URI_QUERY, BLOCK2, BLOCK1, REQUEST_TAG = 11, 15, 23, 27, 292


def uint(v):
    out = b""
    while v:
        out = bytes([v & 0xFF]) + out
        v >>= 8
    return out


def block(num, more, szx):
    return uint((num << 4) | (int(more) << 3) | szx)


def encode(ty, code, mid, token, options, payload=b""):
    out = bytes([0x40 | (ty << 4) | len(token), code]) + struct.pack("!H", mid) + token
    last = 0
    for num, val in sorted(options, key=lambda o: o[0]):
        delta = num - last
        last = num

        def nib(x):
            if x < 13:
                return x, b""
            if x < 269:
                return 13, bytes([x - 13])
            return 14, struct.pack("!H", x - 269)

        dn, de = nib(delta)
        ln, le = nib(len(val))
        out += bytes([(dn << 4) | ln]) + de + le + val
    if payload:
        out += b"\xff" + payload
    return out


def decode(data):
    tkl = data[0] & 0x0F
    code = data[1]
    token = data[4 : 4 + tkl]
    i = 4 + tkl
    opts = []
    num = 0
    payload = b""
    while i < len(data):
        if data[i] == 0xFF:
            payload = data[i + 1 :]
            break
        d, ln = data[i] >> 4, data[i] & 0x0F
        i += 1
        if d == 13:
            d = data[i] + 13
            i += 1
        elif d == 14:
            d = struct.unpack("!H", data[i : i + 2])[0] + 269
            i += 2
        if ln == 13:
            ln = data[i] + 13
            i += 1
        elif ln == 14:
            ln = struct.unpack("!H", data[i : i + 2])[0] + 269
            i += 2
        num += d
        opts.append((num, data[i : i + ln]))
        i += ln
    return {"code": code, "token": token, "opts": opts, "payload": payload, "type": (data[0] >> 4) & 3}


def code_str(c):
    return "%d.%02d" % (c >> 5, c & 31)


class Client:
    """A raw CoAP endpoint on its own UDP port of ::1."""

    def __init__(self):
        self.sock = socket.socket(socket.AF_INET6, socket.SOCK_DGRAM)
        self.sock.bind(("::1", 0))
        self.sock.setblocking(False)
        self.mid = 1000 + (self.sock.getsockname()[1] % 1000)

    async def request(self, code, options, payload=b"", timeout=2.0):
        loop = asyncio.get_running_loop()
        self.mid += 1
        token = struct.pack("!H", self.mid)
        await loop.sock_sendto(self.sock, encode(1, code, self.mid, token, options, payload), ("::1", PORT))
        while True:
            data = await asyncio.wait_for(loop.sock_recv(self.sock, 4096), timeout)
            m = decode(data)
            if m["token"] == token and m["code"] != 0:
                return m


class Res(resource.Resource):
    def __init__(self, name):
        super().__init__()
        self.name = name
        self.bodies = []

    async def render_put(self, request):
        self.bodies.append(bytes(request.payload))
        return aiocoap.Message(code=aiocoap.CHANGED)

    async def render_get(self, request):
        return aiocoap.Message(code=aiocoap.CONTENT, payload=(self.name.encode() * 40)[:40])


async def main():
    ra, rb = Res("a"), Res("b")
    site = resource.Site()
    site.add_resource(["a"], ra)
    site.add_resource(["b"], rb)
    ctx = await aiocoap.Context.create_server_context(site, bind=("::1", PORT))
    bad = []
    try:
        c = Client()
        # Block1: block 0 goes to /a, a "block 1" goes to /b (which never saw a block 0)
        r1 = await c.request(3, [(URI_PATH, b"a"), (BLOCK1, block(0, 1, 0))], b"A" * 16)
        r2 = await c.request(3, [(URI_PATH, b"b"), (BLOCK1, block(1, 0, 0))], b"B" * 4)
        print("PUT /a 0/M/16 ->", code_str(r1["code"]), "; PUT /b 1/-/16 ->", code_str(r2["code"]),
              " handler of /b saw:", rb.bodies)
        if r2["code"] != 0x88:
            bad.append("continuation of an unknown transfer on /b answered %s, not 4.08" % code_str(r2["code"]))
        if rb.bodies:
            bad.append("handler of /b invoked with a body assembled across resources: %r" % rb.bodies)
        # Block2: block 0 of /a is rendered (40 bytes), then block 1 of /b is asked for
        r3 = await c.request(1, [(URI_PATH, b"a"), (BLOCK2, block(0, 0, 0))])
        r4 = await c.request(1, [(URI_PATH, b"b"), (BLOCK2, block(1, 0, 0))])
        print("GET /a 0/16 ->", code_str(r3["code"]), r3["payload"], "; GET /b 1/16 ->", code_str(r4["code"]), r4["payload"])
        if r4["code"] != 0x88:
            bad.append("later block of /b without a rendering of /b answered %s %r, not 4.08" % (code_str(r4["code"]), r4["payload"]))
    finally:
        await ctx.shutdown()
    for x in bad:
        print("VIOLATED:", x)
    return 1 if bad else 0


if __name__ == "__main__":
    sys.exit(asyncio.run(main()))
