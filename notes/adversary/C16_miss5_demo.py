"""C16 miss 5: ';' in the last path segment.  Run with cwd = the tree under test.
Exit 0: "/a;b" decomposes to the segment "a;b"; exit 1: everything behind the ';' is lost
and distinct resources collapse."""
import os
import sys

sys.path.insert(0, os.getcwd())  # the tree under test, not an installed aiocoap
import aiocoap
from aiocoap import Message, GET

print(aiocoap.__file__)
bad = []
for uri, path in [
    ("coap://host/a;b", ("a;b",)),
    ("coap://host/x/;", ("x", ";")),
    ("coap://host/matrix;k=v;l=w?q=1", ("matrix;k=v;l=w",)),
    ("coap://host/a;b/c", ("a;b", "c")),
]:
    m = Message(code=GET, uri=uri)
    if m.opt.uri_path != path:
        bad.append(("decompose", uri, m.opt.uri_path))
    if m.get_request_uri() != uri:
        bad.append(("compose", uri, m.get_request_uri()))
if Message(code=GET, uri="coap://host/a;b").get_request_uri() == Message(code=GET, uri="coap://host/a;c").get_request_uri():
    bad.append(("collapse", "coap://host/a;b", "coap://host/a;c"))
# options -> URI -> options
m = Message(code=GET, uri="coap://host/")
m.opt.uri_path = ("a;b",)
back = Message(code=GET, uri=m.get_request_uri()).opt.uri_path
if back != ("a;b",):
    bad.append(("options->URI->options", m.get_request_uri(), back))
for x in bad:
    print("VIOLATED:", x)
sys.exit(1 if bad else 0)
