"""C11 miss 1: a Proxy-Uri request leaks Uri-Path / Uri-Query in the OUTER message.

Run with cwd = the tree under test:
    cd <tree> && PYTHONPATH=<tree>:/verif/harness/shims /venv/bin/python /tmp/adv/C11/miss1_demo.py
exit 0: no protected message reveals the end-to-end options (unchanged tree: protect()
        refuses Proxy-Uri requests altogether, so nothing is revealed)
exit 1: the outer message carries the path / query of the inner request in clear
"""

import os
import sys

sys.path.insert(0, os.getcwd())
if "/verif/harness/shims" not in sys.path:
    sys.path.append("/verif/harness/shims")  # cbor2 / cryptography / filelock stand-ins (only used if the real ones are missing)

import aiocoap
import aiocoap.oscore as oscore
from aiocoap.message import Direction

print("aiocoap from", aiocoap.__file__)
assert os.path.realpath(aiocoap.__file__).startswith(os.path.realpath(os.getcwd())), "run me with cwd = the tree under test"


class Ctx(oscore.CanProtect, oscore.CanUnprotect, oscore.SecurityContextUtils):
    echo_recovery = None

    def post_seqnoincrease(self):
        pass


def mk(sender, recipient):
    c = Ctx()
    c.alg_aead = oscore.algorithms[oscore.DEFAULT_ALGORITHM]
    c.hashfun = oscore.hashfunctions[oscore.DEFAULT_HASHFUNCTION]
    c.sender_id, c.recipient_id, c.id_context = sender, recipient, None
    c.derive_keys(bytes.fromhex("9e7ca92223786340"), bytes.fromhex("0102030405060708090a0b0c0d0e0f10"))
    c.sender_sequence_number = 0
    c.recipient_replay_window = oscore.ReplayWindow(32, lambda: None)
    c.recipient_replay_window.initialize_empty()
    return c


client, server = mk(b"\x01", b""), mk(b"", b"\x01")

SECRET_PATH = ("patients", "alice-4711", "diagnosis")
SECRET_QUERY = ("apikey=s3cr3t-t0ken",)

failures = []

# control: the same resource addressed with Uri-Host + Proxy-Scheme: path and query must be hidden
plain = aiocoap.Message(code=aiocoap.GET, uri_host="example.com", proxy_scheme="coap", uri_path=SECRET_PATH, uri_query=SECRET_QUERY)
outer, _ = client.protect(plain)
outer.mtype, outer.mid, outer.token = aiocoap.NON, 1, b"t"
wire = outer.encode()
for s in SECRET_PATH + SECRET_QUERY:
    if s.encode() in wire:
        failures.append("Proxy-Scheme form: %r visible in the outer message" % s)
incoming = aiocoap.Message.decode(wire)
back, _ = server.unprotect(incoming)
assert back.code == aiocoap.GET and back.opt.uri_path == SECRET_PATH and back.opt.uri_query == SECRET_QUERY, "round trip broken"

# the situation: the same request written with Proxy-Uri
plain = aiocoap.Message(code=aiocoap.GET)
plain.opt.proxy_uri = "coap://example.com/" + "/".join(SECRET_PATH) + "?" + "&".join(SECRET_QUERY)
try:
    outer, _ = client.protect(plain)
except Exception as e:
    print("protect() refuses the Proxy-Uri request (%s: %s): no protected message, nothing revealed" % (type(e).__name__, e))
else:
    outer.mtype, outer.mid, outer.token = aiocoap.NON, 2, b"t"
    wire = outer.encode()
    print("outer message:", outer, [(int(o.number), o.value) for o in outer.opt.option_list() if int(o.number) != 9])
    for s in SECRET_PATH + SECRET_QUERY:
        if s.encode() in wire:
            failures.append("Proxy-Uri form: inner Uri-Path/Uri-Query value %r is readable in the outer message (%r)" % (s, outer.opt.proxy_uri))
    # and it really is an inner option as well (the receiver gets it from the ciphertext)
    incoming = aiocoap.Message.decode(wire)
    back, _ = server.unprotect(incoming)
    print("unprotected:", back.code, back.opt.uri_path, back.opt.uri_query)

if failures:
    print("C11 VIOLATED (the outer message reveals end-to-end options):")
    for f in failures:
        print("  -", f)
    sys.exit(1)
print("OK: no outer message reveals Uri-Path / Uri-Query")
sys.exit(0)
