"""miss3 demo -- "for every sequence of messages and every way of cutting the
resulting byte stream into chunks, the receiver dispatches exactly the sent
messages" is false for a chunk that holds many complete messages (a peer that
pipelines): only a bounded number per data_received call is handled, the rest
stays in the spool until more bytes happen to arrive.

Run with cwd = the aiocoap tree under test (needs a loopback interface):

    cd <tree> && /venv/bin/python /tmp/adv/C15/miss3_demo.py

Situation: an aiocoap CoAP-over-TCP server with one small resource.  The peer
(raw asyncio stream, no aiocoap) sends its CSM and then 100 GET requests with
distinct tokens in a single write (700 bytes, one TCP segment on loopback) and
then just waits for the answers.

exit 0: 100 responses, tokens 0..99 in order
exit 1: fewer responses (requests left undispatched in the spool)
"""

import os
import sys

sys.path.insert(0, os.getcwd())
os.environ["AIOCOAP_SERVER_TRANSPORT"] = "tcpserver"

import asyncio
import socket

import aiocoap
import aiocoap.resource as resource

print("aiocoap from", aiocoap.__file__)

N = 100


class Small(resource.Resource):
    async def render_get(self, request):
        return aiocoap.Message(payload=b"ok")


async def main():
    site = resource.Site()
    site.add_resource(["r"], Small())
    s = socket.socket()
    s.bind(("127.0.0.1", 0))
    port = s.getsockname()[1]
    s.close()
    ctx = await aiocoap.Context.create_server_context(site, bind=("127.0.0.1", port))

    reader, writer = await asyncio.open_connection("127.0.0.1", port)
    sock = writer.get_extra_info("socket")
    sock.setsockopt(socket.IPPROTO_TCP, socket.TCP_NODELAY, 1)
    writer.write(bytes([0x00, 0xE1]))  # CSM
    await writer.drain()
    await asyncio.sleep(0.3)
    # N times GET /r with a one-byte token: Len=2, TKL=1 | 0.01 | token | Uri-Path "r"
    writer.write(b"".join(bytes([0x21, 0x01, i, 0xB1]) + b"r" for i in range(N)))
    await writer.drain()

    got = bytearray()
    tokens = []

    def parse():
        pos = 0
        out = []
        while pos < len(got):
            nib, tkl = got[pos] >> 4, got[pos] & 15
            assert nib < 13
            total = 2 + tkl + nib
            if pos + total > len(got):
                break
            code = got[pos + 1]
            if 64 <= code < 192:
                out.append(got[pos + 2])
            pos += total
        return out

    try:
        while len(tokens) < N:
            data = await asyncio.wait_for(reader.read(65536), 3)
            if not data:
                break
            got += data
            tokens = parse()
    except asyncio.TimeoutError:
        pass
    print("peer sent %d requests in one segment and received %d responses (tokens %s...%s)"
          % (N, len(tokens), tokens[:3], tokens[-2:]))
    writer.close()
    try:
        await asyncio.wait_for(ctx.shutdown(), 3)
    except Exception:
        pass
    ok = tokens == list(range(N))
    print("OK: every request in the segment was dispatched, in order" if ok
          else "VIOLATED: %d complete requests were received but not dispatched" % (N - len(tokens)))
    return 0 if ok else 1


sys.exit(asyncio.run(main()))
