"""C03 demo: with ACK_TIMEOUT=20 s every later retransmission gap must still be exactly twice the previous one."""
# --- minimal deterministic bench: real TokenManager + MessageManager, fake timers and wire ------------
import heapq, logging, os, sys
sys.path.insert(0, os.getcwd())
import aiocoap
print("aiocoap from", aiocoap.__file__)
from aiocoap import Message, GET, CONTENT
from aiocoap.numbers.codes import EMPTY
from aiocoap.numbers.types import CON, NON, ACK, RST
from aiocoap.numbers.constants import TransportTuning
from aiocoap.messagemanager import MessageManager
from aiocoap.tokenmanager import TokenManager
from aiocoap.pipe import Pipe
from aiocoap import error


class Handle:
    def __init__(self, when, cb, args):
        self.when, self.cb, self.args, self.cancelled_ = when, cb, args, False
    def cancel(self):
        self.cancelled_ = True
    def cancelled(self):
        return self.cancelled_
    def __lt__(self, other):
        return self.when < other.when


class FakeLoop:
    """Only what MessageManager uses: call_later / time; timers are run by run()."""
    def __init__(self):
        self.now, self.timers, self.n = 0.0, [], 0
    def time(self):
        return self.now
    def call_later(self, delay, cb, *args):
        h = Handle(self.now + delay, cb, args)
        self.n += 1
        heapq.heappush(self.timers, (h.when, self.n, h))
        return h
    def run(self, until=None):
        while self.timers and (until is None or self.timers[0][0] <= until):
            when, _, h = heapq.heappop(self.timers)
            if h.cancelled_:
                continue
            self.now = max(self.now, when)
            h.cb(*h.args)
        if until is not None:
            self.now = max(self.now, until)


class Remote:
    """A UDP peer (host, port)."""
    is_multicast = False
    is_multicast_locally = False
    def __init__(self, host, port=5683):
        self.key = (host, port)
    def __eq__(self, other):
        return isinstance(other, Remote) and self.key == other.key
    def __hash__(self):
        return hash(self.key)
    def __repr__(self):
        return "<Remote %s:%d>" % self.key
    def as_response_address(self):
        return self


class Wire:
    """Message interface: records (time, remote, type, mid, token, bytes) of everything sent."""
    def __init__(self, loop):
        self.loop, self.sent = loop, []
    def send(self, message):
        self.sent.append((self.loop.now, message.remote, message.mtype, message.mid, message.token, message.encode()))
    async def shutdown(self):
        pass


class Ctx:
    def __init__(self, loop):
        self.loop = loop
        self.log = logging.getLogger("demo")
        self.client_credentials = None
    def render_to_pipe(self, pipe):
        pass


class Bench:
    def __init__(self):
        self.loop = FakeLoop()
        self.tman = TokenManager(Ctx(self.loop))
        self.mman = MessageManager(self.tman)
        self.tman.token_interface = self.mman
        self.wire = Wire(self.loop)
        self.mman.message_interface = self.wire
        self.outcome = {}
    def request(self, name, remote, tuning):
        """Application submits a request; outcome[name] becomes ('resp', msg) or ('err', exc)."""
        m = Message(code=GET, uri_path=[name], transport_tuning=tuning)
        m.remote = remote
        pipe = Pipe(m, self.tman.log)
        def on_event(ev, name=name):
            self.outcome[name] = ("err", ev.exception) if ev.exception is not None else ("resp", ev.message)
            return not ev.is_last
        pipe.on_event(on_event)
        self.tman.request(pipe)
        return m
    def deliver(self, remote, mtype, mid, code=EMPTY, token=b"", payload=b""):
        m = Message(code=code, payload=payload)
        m.mtype, m.mid, m.token = mtype, mid, token
        m.remote = remote
        self.mman.dispatch_message(m)
    def copies(self, msg):
        return [s for s in self.wire.sent if s[1] == msg.remote and s[3] == msg.mid and s[2] is CON]
# --- end of bench ----------------------------------------------------------------------------------------

class Slow(TransportTuning):
    """An admissible tuning for a long-latency link (e.g. satellite / delay-tolerant network)."""
    ACK_TIMEOUT = 20.0
    ACK_RANDOM_FACTOR = 1.0
    MAX_RETRANSMIT = 4
    reliability = True

b = Bench()
peer = Remote("2001:db8::1")
m = b.request("slow", peer, Slow())
b.loop.run()                      # nobody ever answers
times = [s[0] for s in b.copies(m)]
gaps = [y - x for x, y in zip(times, times[1:])]
print("copies at", times, "gaps", gaps, "outcome", b.outcome.get("slow"), "at", b.loop.now)
bad = []
if len(times) != 5:
    bad.append("expected 1+MAX_RETRANSMIT = 5 copies, saw %d" % len(times))
if gaps and gaps[0] != 20.0:
    bad.append("first gap %r is not the initial timeout" % gaps[0])
for g0, g1 in zip(gaps, gaps[1:]):
    if g1 != 2 * g0:
        bad.append("gap %r follows gap %r: not exactly twice the previous one" % (g1, g0))
kind, exc = b.outcome.get("slow", (None, None))
if not (kind == "err" and isinstance(exc, error.TimeoutError) and isinstance(exc, error.NetworkError)):
    bad.append("request did not fail with a timeout-class network error")
elif gaps and b.loop.now != times[-1] + 2 * gaps[-1]:
    bad.append("gave up at %r, not one more doubled interval (%r) after the last copy" % (b.loop.now, times[-1] + 2 * gaps[-1]))
if bad:
    print("C03 VIOLATED:", *bad, sep="\n  ")
    sys.exit(1)
print("ok")
