"""C04: "requests with the same ID from different endpoints are treated as distinct".

Two CoAP endpoints on the same host (same IP address, different UDP ports -- two client
processes on one machine, or two clients behind one NAT) each send a confirmable GET that
happens to carry the same message ID.  Both must reach the application.

Run with cwd = the aiocoap tree.  Exit 0: both requests processed; exit 1: the second one
was swallowed as a "duplicate" of the first.
"""
import asyncio
import logging
import socket
import struct
import os
import sys

sys.path.insert(0, os.getcwd())   # cwd = the tree under test
import aiocoap
from aiocoap import Message, GET
from aiocoap.numbers.types import CON
from aiocoap.messagemanager import MessageManager
from aiocoap.transports.udp6 import UDP6EndpointAddress

print("aiocoap from", aiocoap.__file__)


class Iface:
    """Stands in for MessageInterfaceUDP6: records what would go on the wire."""

    def __init__(self):
        self.sent = []

    def send(self, message):
        self.sent.append((message.remote.sockaddr, message.encode()))


class TokenLayer:
    """Stands in for TokenManager: counts what is passed up towards the application."""

    def __init__(self, loop):
        self.log = logging.getLogger("demo")
        self.loop = loop
        self.requests = []
        self.client_credentials = None

    def process_request(self, request):
        self.requests.append((request.remote.sockaddr, request.mid, request.token))


PKTINFO = struct.pack("16sI", socket.inet_pton(socket.AF_INET6, "2001:db8::100"), 1)


def incoming(iface, sockaddr, mid, token):
    m = Message(code=GET, uri_path=["x"])
    m = Message.decode(Message(code=GET, _mtype=CON, _mid=mid, _token=token, uri_path=["x"]).encode(),
                       UDP6EndpointAddress(sockaddr, iface, pktinfo=PKTINFO))
    return m


async def main():
    loop = asyncio.get_running_loop()
    iface = Iface()
    tl = TokenLayer(loop)
    mm = MessageManager(tl)
    mm.message_interface = iface

    a = ("2001:db8::1", 40001, 0, 0)
    b = ("2001:db8::1", 40002, 0, 0)   # same host, other port: a different CoAP endpoint
    mm.dispatch_message(incoming(iface, a, 0x1234, b"\xa1"))
    mm.dispatch_message(incoming(iface, b, 0x1234, b"\xb2"))
    print("requests passed up:", tl.requests)
    for h in list(getattr(loop, "_scheduled", [])):
        h.cancel()
    if len(tl.requests) != 2:
        print("FAIL: the request of endpoint %r (message ID 0x1234) was dropped as a duplicate of the one from %r" % (b, a))
        return 1
    print("ok: same message ID from two endpoints -> two requests")
    return 0


sys.exit(asyncio.run(main()))
