"""C10: "A confirmable request is acknowledged exactly once under its message ID: by the piggybacked
response if it is ready within EMPTY_ACK_DELAY, otherwise by an empty ACK followed by a separate
response with a fresh message ID and the request's token".

A peer has two slow confirmable requests A and B outstanding; both got their empty ACK.  A's separate
(CON) response is on the wire, B's is ready and waits behind it (NSTART = 1).  The peer rejects A's
response with RST (it has lost interest in A).  B's request was acknowledged with an empty ACK and is
still owed its separate response.

Run with cwd = the aiocoap tree.  Exit 0: B's response is sent; exit 1: it is silently dropped.
"""
import asyncio
import logging
import os
import socket
import struct
import sys

sys.path.insert(0, os.getcwd())   # cwd = the tree under test
import aiocoap
from aiocoap import Message, GET, CONTENT
from aiocoap.numbers.types import CON, RST
from aiocoap.numbers.codes import EMPTY
from aiocoap.messagemanager import MessageManager
from aiocoap.transports.udp6 import UDP6EndpointAddress

print("aiocoap from", aiocoap.__file__)


class Iface:
    def __init__(self):
        self.sent = []

    def send(self, message):
        self.sent.append(message.encode())


class TokenLayer:
    def __init__(self, loop):
        self.log = logging.getLogger("demo")
        self.loop = loop
        self.client_credentials = None
        self.requests = {}

    def process_request(self, request):
        self.requests[request.token] = request      # slow handler: answers later

    def dispatch_error(self, *a):
        pass


PKTINFO = struct.pack("16sI", socket.inet_pton(socket.AF_INET6, "2001:db8::100"), 1)
PEER = ("2001:db8::1", 5683, 0, 0)


def incoming(iface, raw):
    return Message.decode(raw, UDP6EndpointAddress(PEER, iface, pktinfo=PKTINFO))


def describe(raw):
    ty = ["CON", "NON", "ACK", "RST"][(raw[0] >> 4) & 3]
    tkl = raw[0] & 15
    return "%s code=%d.%02d mid=%d token=%s" % (ty, raw[1] >> 5, raw[1] & 31, int.from_bytes(raw[2:4], "big"), raw[4:4 + tkl].hex())


async def main():
    loop = asyncio.get_running_loop()
    iface = Iface()
    tl = TokenLayer(loop)
    mm = MessageManager(tl)
    mm.message_interface = iface

    mm.dispatch_message(incoming(iface, Message(code=GET, _mtype=CON, _mid=1, _token=b"\xaa", uri_path=["a"]).encode()))
    mm.dispatch_message(incoming(iface, Message(code=GET, _mtype=CON, _mid=2, _token=b"\xbb", uri_path=["b"]).encode()))
    await asyncio.sleep(0.2)          # > EMPTY_ACK_DELAY: both requests get their empty ACK
    assert [describe(r) for r in iface.sent] == ["ACK code=0.00 mid=1 token=", "ACK code=0.00 mid=2 token="], iface.sent

    dropped = []
    for tok, body in ((b"\xaa", b"answer A"), (b"\xbb", b"answer B")):
        req = tl.requests[tok]
        resp = Message(code=CONTENT, payload=body)
        resp.token = tok
        resp.remote = req.remote.as_response_address()
        resp.request = req
        mm.send_message(resp, lambda tok=tok: dropped.append(tok))
    sep = [r for r in iface.sent[2:]]
    assert len(sep) == 1 and describe(sep[0]).startswith("CON code=2.05") and sep[0][5:6] != b"", sep   # A on the wire, B waits
    mid_a = int.from_bytes(sep[0][2:4], "big")
    mm.dispatch_message(incoming(iface, Message(code=EMPTY, _mtype=RST, _mid=mid_a).encode()))   # the peer rejects A's response
    await asyncio.sleep(0.05)
    print("sent by the endpoint:")
    for r in iface.sent:
        print("   ", describe(r))
    answers_b = [r for r in iface.sent if (r[1] >> 5) == 2 and r[4:5] == b"\xbb"]
    for key, (mon, handle) in list(mm._active_exchanges.items()):
        handle.cancel()
    for h in list(getattr(loop, "_scheduled", [])):
        h.cancel()
    if not answers_b:
        print("FAIL: request B (mid 2, token bb) got its empty ACK but its separate response was never sent")
        return 1
    print("ok: B's separate response followed its empty ACK")
    return 0


sys.exit(asyncio.run(main()))
