"""C19 miss 3: a method outside the generator's list (iPATCH / PATCH) modifies
files although the server was started without write permission.

Run with cwd = the tree under test:  cd <tree> && python /tmp/adv/C19/miss3_demo.py
exit 0: a server without --write left the tree unchanged for every CoAP
request method; exit 1: some method changed a file.
"""

import asyncio
import logging
import os
import shutil
import sys
import tempfile
from pathlib import Path

sys.path.insert(0, os.getcwd())
import aiocoap  # noqa: E402
from aiocoap.cli.fileserver import FileServer  # noqa: E402
from aiocoap.message import Direction  # noqa: E402

print("aiocoap from", aiocoap.__file__)

T = os.path.realpath(tempfile.mkdtemp(prefix="c19-miss3-"))
ROOT = T + "/srv"
os.makedirs(ROOT + "/d")
open(ROOT + "/a", "wb").write(b"inside")
open(ROOT + "/d/f", "wb").write(b"nested")

log = logging.getLogger("demo")
log.addHandler(logging.NullHandler())
log.propagate = False


def snapshot():
    out = {}
    for d, _, files in os.walk(T):
        out[d] = None
        for f in files:
            out[os.path.join(d, f)] = open(os.path.join(d, f), "rb").read()
    return out


async def ask(fs, code, path, **kw):
    m = aiocoap.Message(code=code, uri_path=path, **kw)
    m.direction = Direction.INCOMING
    try:
        r = await fs.render(m)
    except aiocoap.error.RenderableError as e:
        r = e.to_message()
    except Exception as e:  # what the library turns into 5.00
        r = aiocoap.Message(code=aiocoap.INTERNAL_SERVER_ERROR)
    print("  %s %r -> %s" % (code, path, r.code))
    return r


async def main():
    bad = []
    ro = FileServer(Path(ROOT), log, write=False)  # no write permission
    methods = [c for c in aiocoap.Code if c.is_request()]
    print("request methods:", ", ".join(str(c) for c in methods))
    for code in methods:
        for path in (("a",), ("d", "f"), ("new",)):
            before = snapshot()
            await ask(ro, code, path, payload=b"+appended")
            after = snapshot()
            if before != after:
                changed = sorted(k for k in set(before) | set(after) if before.get(k) != after.get(k))
                bad.append("%s %r on a read-only server changed %s" % (code, path, changed))
    return bad


try:
    bad = asyncio.run(main())
finally:
    shutil.rmtree(T, ignore_errors=True)
if bad:
    print("C19 VIOLATED (\"Without write permission no request modifies the file system\"):")
    for b in bad:
        print("  -", b)
    sys.exit(1)
print("ok: the read-only server changed nothing")
