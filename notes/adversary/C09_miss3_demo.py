"""C09 miss 3: a handler that completes long after the empty ACK is answered 5.00 instead of
with what it returns.

Statement sentences violated: "a returned message is sent ..." for the quantifier
case "slow completion after the empty ACK" -- the one final response no longer
reflects the handler outcome once the handler takes longer than EXCHANGE_LIFETIME
(247 s): the rendering is abandoned and a 5.00 goes out (the exception is a
TimeoutError nobody raised in the handler).

Run with cwd = the tree to be examined.  Exit 0: every request got exactly one
response, the handler's 2.05 with its payload.  Exit 1 otherwise.

Time is virtual (an event loop whose clock jumps to the next timer), so the script
runs in well under a second.  Path exercised: real TokenManager.process_request ->
Context.render_to_pipe -> error_to_message / run_driving_pipe -> Site ->
Resource._render_to_pipe -> Resource.render; only the message layer below the token
manager is replaced by a recorder (no sockets needed).
"""

import asyncio
import logging
import os
import struct
import sys

sys.path.insert(0, os.getcwd())  # the tree in the current directory, not an installed copy

import aiocoap
from aiocoap import Message, error, resource
from aiocoap.numbers.codes import Code
from aiocoap.tokenmanager import TokenManager

print("aiocoap from", aiocoap.__file__)
logging.disable(logging.CRITICAL)


class Remote:
    """Minimal stand-in for a transport's endpoint address"""

    is_multicast = False
    is_multicast_locally = False
    maximum_payload_size = 1024
    maximum_block_size_exp = 6
    scheme = "coap"
    hostinfo = "peer"
    hostinfo_local = "me"
    uri_base = "coap://peer"
    uri_base_local = "coap://me"
    authenticated_claims = ()

    @property
    def blockwise_key(self):
        return ("peer",)

    def as_response_address(self):
        return self


class Recorder:
    """Stands where the MessageManager would: records what the token manager hands down"""

    def __init__(self):
        self.sent = []

    def send_message(self, message, messageerror_monitor):
        self.sent.append(message)


def raw_request(code, token, path, con=True):
    data = struct.pack("!BBH", 0x40 | (0 if con else 0x10) | len(token), code, 0x1234) + token
    prev = 0
    for seg in path:
        seg = seg.encode()
        assert len(seg) < 13
        data += bytes([((11 - prev) << 4) | len(seg)]) + seg
        prev = 11
    return data



class VirtualTimeLoop(asyncio.SelectorEventLoop):
    """Event loop whose clock jumps to the next timer whenever nothing else is runnable"""

    def __init__(self):
        super().__init__()
        self._vt = 0.0

    def time(self):
        return self._vt

    def _run_once(self):
        if not self._ready and self._scheduled:
            self._vt = max(self._vt, self._scheduled[0].when())
        super()._run_once()


class Slow(resource.Resource):
    """eg. a firmware update trigger, a slow sensor sweep, a request forwarded over a sleepy link"""

    def __init__(self, seconds):
        super().__init__()
        self.seconds = seconds

    async def render_post(self, request):
        await asyncio.sleep(self.seconds)
        return Message(code=Code.CHANGED, payload=b"done after %d s" % self.seconds)


DELAYS = [1, 100, 240, 250, 300, 3600]


async def main():
    site = resource.Site()
    for d in DELAYS:
        site.add_resource(["slow", str(d)], Slow(d))
    ctx = aiocoap.Context(serversite=site)
    tm = TokenManager(ctx)
    rec = Recorder()
    tm.token_interface = rec
    loop = asyncio.get_running_loop()

    for i, d in enumerate(DELAYS):
        tm.process_request(Message.decode(raw_request(2, bytes([0xC0 + i]), ["slow", str(d)]), Remote()))
    stamps = {}
    t0 = loop.time()
    while loop.time() - t0 < 4000:
        await asyncio.sleep(1)
        for m in rec.sent:
            stamps.setdefault(id(m), loop.time() - t0)

    failures = 0
    for i, d in enumerate(DELAYS):
        token = bytes([0xC0 + i])
        got = [m for m in rec.sent if m.token == token]
        ok = len(got) == 1 and got[0].code == Code.CHANGED and got[0].payload == b"done after %d s" % d
        print("%-4s POST /slow/%-4d (handler returns 2.04 after %4d s): %s"
              % ("ok" if ok else "BAD", d, d,
                 ["%s payload=%r at t=%d s" % (m.code, m.payload, stamps[id(m)]) for m in got]))
        failures += not ok
    return failures


loop = VirtualTimeLoop()
try:
    failures = loop.run_until_complete(main())
finally:
    loop.close()
if failures:
    print("VIOLATED: %d slow request(s) were answered with something else than their handler's outcome" % failures)
    sys.exit(1)
print("every slow handler's own response was sent, exactly once")
