import asyncio, os, socket, sys, threading

sys.path.insert(0, os.getcwd())    # run with cwd = the tree under test
import aiocoap

print("aiocoap from", aiocoap.__file__)

# ---- minimal independent CoAP codec (RFC 7252) for the raw UDP peer
def parse(data):
    tkl = data[0] & 15
    typ = (data[0] >> 4) & 3
    code, mid, token = data[1], data[2:4], data[4:4 + tkl]
    i, num, opts = 4 + tkl, 0, []
    while i < len(data):
        if data[i] == 0xFF:
            i += 1
            break
        d, l = data[i] >> 4, data[i] & 15
        i += 1
        if d == 13:
            d = data[i] + 13; i += 1
        elif d == 14:
            d = int.from_bytes(data[i:i + 2], "big") + 269; i += 2
        if l == 13:
            l = data[i] + 13; i += 1
        elif l == 14:
            l = int.from_bytes(data[i:i + 2], "big") + 269; i += 2
        num += d
        opts.append((num, data[i:i + l]))
        i += l
    return typ, code, mid, token, opts, data[i:]


def build(typ, code, mid, token, opts, payload):
    def nib(x):
        return (x, b"") if x < 13 else (13, bytes([x - 13])) if x < 269 else (14, (x - 269).to_bytes(2, "big"))
    out = bytes([0x40 | (typ << 4) | len(token), code]) + mid + token
    prev = 0
    for num, val in sorted(opts):
        (dn, de), (ln, le) = nib(num - prev), nib(len(val))
        prev = num
        out += bytes([dn << 4 | ln]) + de + le + val
    return out + (b"\xff" + payload if payload else b"")


def blockval(num, more, szx):
    v = (num << 4) | (8 if more else 0) | szx
    return v.to_bytes((v.bit_length() + 7) // 8, "big")


def unblock(val):
    v = int.from_bytes(val, "big")
    return v >> 4, bool(v & 8), v & 7


ETAG, BLOCK2, BLOCK1 = 4, 23, 27
GET, POST, CONTENT, CHANGED = 1, 2, 0x45, 0x44
log = []


def serve(sock, handler):
    """piggy-backed answers to every CON request; message-ID de-duplication (RFC 7252 4.5)"""
    cache = {}
    sock.settimeout(0.2)
    while not stop:
        try:
            data, addr = sock.recvfrom(4096)
        except socket.timeout:
            continue
        typ, code, mid, token, opts, payload = parse(data)
        if not (1 <= code < 32):
            continue
        key = (addr, mid)
        if key not in cache:
            rcode, ropts, rpayload = handler(code, dict(opts), payload)
            cache[key] = build(2 if typ == 0 else 1, rcode, mid, token, ropts, rpayload)
        sock.sendto(cache[key], addr)


stop = []
# ---- the peer: a conforming, stateless RFC 7959 server whose representation depends on the query
SIZE = 16
URI_QUERY = 15
REPS = {None: b"0" * 40, b"v=2": b"2" * 40}


def handler(code, opts, payload):
    num = unblock(opts[BLOCK2])[0] if BLOCK2 in opts else 0
    rep = REPS[opts.get(URI_QUERY)]
    off = num * SIZE
    more = off + SIZE < len(rep)
    log.append("req query=%s Block2 num=%s -> 2.05 Block2 %d/%d/0 %r" % (opts.get(URI_QUERY), num if BLOCK2 in opts else None, num, more, rep[off:off + SIZE]))
    return CONTENT, [(BLOCK2, blockval(num, more, 0))], rep[off:off + SIZE]


async def main():
    sock = socket.socket(socket.AF_INET6, socket.SOCK_DGRAM)
    sock.bind(("::1", 0))
    threading.Thread(target=serve, args=(sock, handler), daemon=True).start()
    ctx = await aiocoap.Context.create_client_context()
    try:
        r = await asyncio.wait_for(
            ctx.request(aiocoap.Message(code=aiocoap.GET, uri="coap://[::1]:%d/data?v=2" % sock.getsockname()[1])).response, 30)
    except Exception as e:
        print("\n".join(log))
        print("request ended with an error:", type(e).__name__, e)
        return 0
    finally:
        stop.append(1)
        await ctx.shutdown()
    print("\n".join(log))
    print("request returned", r.code, bytes(r.payload))
    if bytes(r.payload) == REPS[b"v=2"]:
        return 0
    print("VIOLATED: the body returned to the caller is not byte-identical to the server's representation of "
          "/data?v=2: it is mixed from two representations, and no error was raised")
    return 1


sys.exit(asyncio.run(main()))
