"""C20 miss 3: lookups list exactly the endpoints whose latest successful
registration or update is younger than its lifetime (plus the grace period).
The lifetime of a registration without `lt` is 90000 s (RFC 9176); lifetimes of
more than a day are ordinary.

Run with cwd = the tree under test.  Exit 0: property holds; exit 1: violated.
The resource directory site is rendered directly (no sockets) on an event loop
whose clock is moved by hand (virtual time).
"""

import asyncio
import os
import sys

sys.path.insert(0, os.getcwd())  # the tree under test, not an installed aiocoap

import aiocoap  # noqa: E402
from aiocoap import Message, error
from aiocoap.numbers import codes

print("aiocoap from", aiocoap.__file__)

from aiocoap.cli.rd import StandaloneResourceDirectory  # noqa: E402


class Peer:
    """Stand-in for the registrant's network address."""

    def __init__(self, n):
        self.uri = "coap://[2001:db8::%d]" % n
        self.uri_base = self.uri
        self.hostinfo = "[2001:db8::%d]" % n
        self.is_multicast = False
        self.is_multicast_locally = False
        self.scheme = "coap"
        self.maximum_block_size_exp = 6
        self.maximum_payload_size = 1124
        self.blockwise_key = ("peer", n)


async def call(site, code, path, query=(), remote=None, **kw):
    req = Message(code=code, uri_path=path, uri_query=query, **kw)
    req.remote = remote or Peer(9)
    req.direction = aiocoap.message.Direction.INCOMING
    try:
        resp = await site.render(req)
    except error.RenderableError as e:
        resp = e.to_message()
    if resp.code is None:
        resp.code = codes.CONTENT if code == codes.GET else codes.CHANGED
    return resp


async def lookups(site):
    ep = await call(site, codes.GET, site.ep_lookup_path)
    res = await call(site, codes.GET, site.res_lookup_path)
    return ep.payload.decode(), res.payload.decode()


class Clock:
    def __init__(self, loop):
        self.loop, self.offset, self.t0 = loop, 0.0, loop.time()
        real = loop.time
        loop.time = lambda: real() + self.offset

    def now(self):
        return round(self.loop.time() - self.t0)

    async def advance_to(self, t):
        await asyncio.sleep(0.01)  # let tasks created at this instant start (they read the clock when they start)
        self.offset += t - (self.loop.time() - self.t0)
        for _ in range(10):
            await asyncio.sleep(0.001)


async def main():
    clock = Clock(asyncio.get_running_loop())
    site = StandaloneResourceDirectory(context=None)
    grace = site.common_rd.Registration.grace_period
    bad = []

    payload = b'</sensors/temp>;rt="temperature-c"'
    r = await call(site, codes.POST, site.rd_path, ("ep=node1",), Peer(1), payload=payload, content_format=40)
    assert r.code == codes.CREATED, r.code
    r = await call(site, codes.POST, site.rd_path, ("ep=node2", "lt=172800"), Peer(2), payload=payload, content_format=40)
    assert r.code == codes.CREATED, r.code
    print("t=0       registered node1 (no lt: 90000 s) and node2 (lt=172800 s, two days)")

    async def look(t, expect):
        await clock.advance_to(t)
        ep, _ = await lookups(site)
        listed = sorted(n for n in ("node1", "node2") if 'ep="%s"' % n in ep)
        ok = listed == sorted(expect)
        print("t=%-7d endpoint lookup lists %s, expected %s%s" % (clock.now(), listed, sorted(expect), "" if ok else "   <-- WRONG"))
        if not ok:
            bad.append((t, listed, sorted(expect)))

    await look(60, ["node1", "node2"])
    await look(88000, ["node1", "node2"])  # a bit more than a day: both far from their deadlines
    await look(90000 + grace - 1, ["node1", "node2"])
    await look(90000 + grace + 1, ["node2"])  # node1: 90000 s + grace are over
    await look(172800 + grace - 1, ["node2"])
    await look(172800 + grace + 1, [])

    for reg in list(site.common_rd.get_endpoints()):
        reg.delete()
    if bad:
        print("VIOLATED (C20: lookups list exactly the endpoints whose latest successful registration is younger than lifetime + grace)")
        return 1
    return 0


sys.exit(asyncio.run(main()))
