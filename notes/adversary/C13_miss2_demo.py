"""C13 miss 2: an AEAD nonce is used twice under the sender key of a file-backed context across an
unclean restart: the 4.01 + Echo answer to a request replayed after the crash is encrypted with the
nonce of that request -- the very nonce the previous process used for its regular response.

Run with cwd = the tree under test:
    PYTHONPATH=<tree>:/verif/harness/shims /venv/bin/python /tmp/adv/C13/miss2_demo.py
exit 0: every (key, nonce) pair the file-backed context encrypted with is unique; exit 1: one was used twice.
"""

import json
import os
import shutil
import sys
import tempfile

import aiocoap
import aiocoap.oscore as oscore
from aiocoap import Message, POST, CONTENT

print("aiocoap from", aiocoap.__file__)

SECRET = "0102030405060708090a0b0c0d0e0f10"
SALT = "9e7ca92223786340"


class Peer(oscore.CanProtect, oscore.CanUnprotect, oscore.SecurityContextUtils):
    echo_recovery = None

    def __init__(self):
        self.alg_aead = oscore.algorithms[oscore.DEFAULT_ALGORITHM]
        self.hashfun = oscore.hashfunctions[oscore.DEFAULT_HASHFUNCTION]
        self.sender_id = b""
        self.recipient_id = b"\x01"
        self.id_context = None
        self.derive_keys(bytes.fromhex(SALT), bytes.fromhex(SECRET))
        self.sender_sequence_number = 0
        self.recipient_replay_window = oscore.ReplayWindow(32, lambda: None)
        self.recipient_replay_window.initialize_empty()

    def post_seqnoincrease(self):
        pass


def kill(ctx):
    lock, ctx.lockfile = ctx.lockfile, None
    lock.release()


USED = []  # (what, key, nonce) of every encryption done with the file-backed context's sender key
WATCH = {"key": None, "what": None}


def watch_encryptions():
    alg = type(oscore.algorithms[oscore.DEFAULT_ALGORITHM])
    real = alg.encrypt.__func__

    def encrypt(cls, plaintext, aad, key, iv):
        if key == WATCH["key"]:
            USED.append((WATCH["what"], bytes(key), bytes(iv)))
        return real(cls, plaintext, aad, key, iv)

    alg.encrypt = classmethod(encrypt)


def main():
    watch_encryptions()
    d = tempfile.mkdtemp(prefix="c13-miss2-")
    try:
        with open(os.path.join(d, "settings.json"), "w") as f:
            json.dump({"sender-id_hex": "01", "recipient-id_hex": "", "secret_hex": SECRET, "salt_hex": SALT}, f)
        peer = Peer()

        # lifetime 1: request 0 of the peer is accepted and answered, then the process dies
        ctx = oscore.FilesystemSecurityContext(d)
        WATCH["key"] = ctx.sender_key
        outer, _ = peer.protect(Message(code=POST, uri_path=("r",), payload=b"0"))
        outer.mtype, outer.mid, outer.token = aiocoap.NON, 1, b""
        wire = outer.encode()
        _, rid = ctx.unprotect(Message.decode(wire))
        WATCH["what"] = "lifetime 1: 2.05 response to request 0"
        ctx.protect(Message(code=CONTENT, payload=b"the answer"), request_id=rid)
        kill(ctx)

        # lifetime 2: the same request is replayed; the replay window is unknown -> 4.01 with Echo
        ctx = oscore.FilesystemSecurityContext(d)
        assert ctx.sender_key == WATCH["key"]
        try:
            ctx.unprotect(Message.decode(wire))
        except oscore.ReplayErrorWithEcho as e:
            WATCH["what"] = "lifetime 2: 4.01 Echo response to the replayed request 0"
            e.to_message()
        else:
            print("replayed request accepted?!")
            return 2
        kill(ctx)

        for what, key, nonce in USED:
            print("%-60s nonce %s" % (what, nonce.hex()))
        seen = {}
        for what, key, nonce in USED:
            if (key, nonce) in seen:
                print("C13 violated: AEAD nonce %s used twice under the same sender key:\n   %s\n   %s" % (nonce.hex(), seen[(key, nonce)], what))
                return 1
            seen[(key, nonce)] = what
        print("OK: %d encryptions, all nonces distinct" % len(USED))
        return 0
    finally:
        shutil.rmtree(d, ignore_errors=True)


if __name__ == "__main__":
    sys.exit(main())
