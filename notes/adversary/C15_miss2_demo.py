"""miss2 demo -- "... a token length above 8 ... make the endpoint send Abort and
close" is false when the endpoint still has output queued: the Abort message
is handed to the transport and then thrown away with the rest of the write
buffer (transport.abort()), so it is never sent.

Run with cwd = the aiocoap tree under test (needs a loopback interface):

    cd <tree> && /venv/bin/python /tmp/adv/C15/miss2_demo.py

Situation: an aiocoap CoAP-over-TCP server; the peer (raw asyncio stream, no
aiocoap) announces a large Max-Message-Size + block-wise transfer in its CSM,
asks several times for a 4 MiB resource without reading the answers (so the
server's transport has a write backlog -- ordinary TCP back-pressure), then
sends a frame with TKL = 9.  After that the peer reads everything the server
sent until the connection ends and looks for the Abort (7.05) message.

exit 0: the stream received from the endpoint ends with an Abort message
exit 1: the connection ended without the peer ever receiving an Abort
"""

import os
import sys

sys.path.insert(0, os.getcwd())
os.environ["AIOCOAP_SERVER_TRANSPORT"] = "tcpserver"

import asyncio
import socket

import aiocoap
import aiocoap.resource as resource

print("aiocoap from", aiocoap.__file__)

BIG = 4 * 1024 * 1024
NREQ = 8


class Big(resource.Resource):
    async def render_get(self, request):
        return aiocoap.Message(payload=b"x" * BIG)


def frames(data):
    """Complete RFC 8323 frames at the start of data -> [(code, total length)], rest"""
    out = []
    pos = 0
    while pos < len(data):
        nib, tkl = data[pos] >> 4, data[pos] & 15
        ext = 0 if nib < 13 else 1 if nib == 13 else 2 if nib == 14 else 4
        if pos + 1 + ext + 1 > len(data):
            break
        ln = nib if nib < 13 else int.from_bytes(data[pos + 1 : pos + 1 + ext], "big") + {1: 13, 2: 269, 4: 65805}[ext]
        total = 1 + ext + 1 + tkl + ln
        if pos + total > len(data):
            break
        out.append((data[pos + 1 + ext], total))
        pos += total
    return out, len(data) - pos


async def main():
    site = resource.Site()
    site.add_resource(["big"], Big())
    s = socket.socket()
    s.bind(("127.0.0.1", 0))
    port = s.getsockname()[1]
    s.close()
    ctx = await aiocoap.Context.create_server_context(site, bind=("127.0.0.1", port))

    reader, writer = await asyncio.open_connection("127.0.0.1", port, limit=1 << 16)
    # CSM: Max-Message-Size (2) = 16 MiB, Block-Wise-Transfer (4)
    csm = bytes([0x60, 0xE1, 0x24, 0x01, 0x00, 0x00, 0x00, 0x20])
    writer.write(csm)
    for i in range(NREQ):
        # GET /big, token i
        writer.write(bytes([0x41, 0x01, i, 0xB3]) + b"big")
    await writer.drain()
    await asyncio.sleep(2.0)  # the answers pile up in the server's transport, nobody reads
    writer.write(bytes([0x09, 0x01]) + bytes(9))  # TKL = 9: must be answered with Abort
    await writer.drain()
    await asyncio.sleep(0.5)

    got = bytearray()
    ended = "EOF"
    try:
        while True:
            data = await asyncio.wait_for(reader.read(1 << 20), 10)
            if not data:
                break
            got += data
    except (ConnectionError, OSError) as e:
        ended = type(e).__name__
    except asyncio.TimeoutError:
        ended = "timeout (connection not closed)"
    fr, rest = frames(bytes(got))
    codes = [c for c, n in fr]
    print("peer received %d bytes, %d complete frames (codes %s), %d trailing bytes of a cut-off frame; connection ended with %s"
          % (len(got), len(fr), ["%d.%02d" % (c >> 5, c & 31) for c in codes], rest, ended))
    writer.close()
    try:
        await asyncio.wait_for(ctx.shutdown(), 3)
    except Exception:
        pass
    ok = 0xE5 in codes and ended != "timeout (connection not closed)"
    print("OK: the endpoint sent Abort and closed" if ok else "VIOLATED: the reserved token length was not answered with an Abort that reached the peer")
    return 0 if ok else 1


sys.exit(asyncio.run(main()))
