"""C06 miss 2: the block key ignores a cache-key option (Request-Tag): blocks of two different
sets of cache-key options of one endpoint are assembled into one body.

Run with cwd = the tree under test (network namespace with lo up):
    unshare -rn sh -c "ip link set lo up; cd <tree> && /venv/bin/python /tmp/adv/C06/miss2_demo.py"
exit 0: property holds in this situation; exit 1: violated.

Statement sentence: "a resource handler is invoked only with a body that is the in-order
concatenation of blocks 0..n received from one endpoint for one method and ONE SET OF CACHE-KEY
OPTIONS; ... a continuation that does not extend an existing assembly (... unknown ... transfer) is
answered 4.08".  Request-Tag (292, RFC 9175) is elective, safe-to-forward and part of the cache key;
the check only ever varies Uri-Query.
"""

import asyncio
import os
import socket
import struct
import sys

sys.path.insert(0, os.getcwd())
import aiocoap  # noqa: E402
import aiocoap.resource as resource  # noqa: E402

print("aiocoap from", aiocoap.__file__)

PORT = 56830
URI_PATH, URI_QUERY, BLOCK2, BLOCK1, REQUEST_TAG = 11, 15, 23, 27, 292


def uint(v):
    out = b""
    while v:
        out = bytes([v & 0xFF]) + out
        v >>= 8
    return out


def block(num, more, szx):
    return uint((num << 4) | (int(more) << 3) | szx)


def encode(ty, code, mid, token, options, payload=b""):
    out = bytes([0x40 | (ty << 4) | len(token), code]) + struct.pack("!H", mid) + token
    last = 0
    for num, val in sorted(options, key=lambda o: o[0]):
        delta = num - last
        last = num

        def nib(x):
            if x < 13:
                return x, b""
            if x < 269:
                return 13, bytes([x - 13])
            return 14, struct.pack("!H", x - 269)

        dn, de = nib(delta)
        ln, le = nib(len(val))
        out += bytes([(dn << 4) | ln]) + de + le + val
    if payload:
        out += b"\xff" + payload
    return out


def decode(data):
    tkl = data[0] & 0x0F
    code = data[1]
    token = data[4 : 4 + tkl]
    i = 4 + tkl
    opts = []
    num = 0
    payload = b""
    while i < len(data):
        if data[i] == 0xFF:
            payload = data[i + 1 :]
            break
        d, ln = data[i] >> 4, data[i] & 0x0F
        i += 1
        if d == 13:
            d = data[i] + 13
            i += 1
        elif d == 14:
            d = struct.unpack("!H", data[i : i + 2])[0] + 269
            i += 2
        if ln == 13:
            ln = data[i] + 13
            i += 1
        elif ln == 14:
            ln = struct.unpack("!H", data[i : i + 2])[0] + 269
            i += 2
        num += d
        opts.append((num, data[i : i + ln]))
        i += ln
    return {"code": code, "token": token, "opts": opts, "payload": payload, "type": (data[0] >> 4) & 3}


def code_str(c):
    return "%d.%02d" % (c >> 5, c & 31)


class Client:
    """A raw CoAP endpoint on its own UDP port of ::1."""

    def __init__(self):
        self.sock = socket.socket(socket.AF_INET6, socket.SOCK_DGRAM)
        self.sock.bind(("::1", 0))
        self.sock.setblocking(False)
        self.mid = 1000 + (self.sock.getsockname()[1] % 1000)

    async def request(self, code, options, payload=b"", timeout=2.0):
        loop = asyncio.get_running_loop()
        self.mid += 1
        token = struct.pack("!H", self.mid)
        await loop.sock_sendto(self.sock, encode(1, code, self.mid, token, options, payload), ("::1", PORT))
        while True:
            data = await asyncio.wait_for(loop.sock_recv(self.sock, 4096), timeout)
            m = decode(data)
            if m["token"] == token and m["code"] != 0:
                return m


class Upload(resource.Resource):
    def __init__(self):
        super().__init__()
        self.bodies = []

    async def render_put(self, request):
        self.bodies.append(bytes(request.payload))
        return aiocoap.Message(code=aiocoap.CHANGED)


async def main():
    up = Upload()
    site = resource.Site()
    site.add_resource(["up"], up)
    ctx = await aiocoap.Context.create_server_context(site, bind=("::1", PORT))
    bad = []
    try:
        a = Client()
        path = [(URI_PATH, b"up")]
        r1 = await a.request(3, path + [(BLOCK1, block(0, 1, 0)), (REQUEST_TAG, b"\x01")], b"A" * 16)
        print("PUT block 0 (more), Request-Tag 01  ->", code_str(r1["code"]))
        # a block 1 of the operation tagged 02, of which no block 0 was ever sent
        r2 = await a.request(3, path + [(BLOCK1, block(1, 0, 0)), (REQUEST_TAG, b"\x02")], b"B" * 4)
        print("PUT block 1 (last), Request-Tag 02  ->", code_str(r2["code"]), " handler saw:", up.bodies)
        if r2["code"] != 0x88:
            bad.append("continuation of an unknown transfer (other cache key) answered %s, not 4.08" % code_str(r2["code"]))
        if up.bodies:
            bad.append("handler invoked with a body mixed from two sets of cache-key options: %r" % up.bodies)
        # the transfer tagged 01 must still be intact
        r3 = await a.request(3, path + [(BLOCK1, block(1, 0, 0)), (REQUEST_TAG, b"\x01")], b"a" * 4)
        print("PUT block 1 (last), Request-Tag 01  ->", code_str(r3["code"]), " handler saw:", up.bodies)
        if r3["code"] != 0x44 or up.bodies[-1:] != [b"A" * 16 + b"a" * 4]:
            bad.append("the in-order transfer tagged 01 did not reach the handler intact")
    finally:
        await ctx.shutdown()
    for x in bad:
        print("VIOLATED:", x)
    return 1 if bad else 0


if __name__ == "__main__":
    sys.exit(asyncio.run(main()))
