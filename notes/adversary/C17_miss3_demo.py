"""miss3: the handler behind a nested site "can still reconstruct the original
request URI" -- including its authority.  A request that carries Uri-Host
(name based virtual hosting, RFC 7252 6.4/6.5) for a resource inside a nested
site must give the same get_request_uri() as the same request for a resource
registered directly at the root.

Run with cwd = the aiocoap tree.  Exit 0: URI reconstructed.  Exit 1: the
host of the URI is lost below a nested site."""

import asyncio
import os
import sys

sys.path.insert(0, os.getcwd())  # cwd = the tree under test

import aiocoap
from aiocoap import resource, Message, GET
from aiocoap.message import Direction

print(aiocoap.__file__)


class Echo(resource.Resource):
    async def render_get(self, request):
        return Message(payload=request.get_request_uri().encode())


class Remote:
    is_multicast = False
    is_multicast_locally = False
    scheme = "coap"
    hostinfo = "[2001:db8::2]:40000"
    hostinfo_local = "[2001:db8::1]"


async def get(site, uri_host, path, query=()):
    m = Message(code=GET, uri_host=uri_host, uri_path=path, uri_query=query)
    m.direction = Direction.INCOMING
    m.remote = Remote()
    return (await site.render(m)).payload.decode()


async def main():
    root, sub, subsub = resource.Site(), resource.Site(), resource.Site()
    root.add_resource(["top"], Echo())
    root.add_resource(["sub"], sub)
    sub.add_resource(["res"], Echo())
    sub.add_resource(["deeper"], subsub)
    subsub.add_resource([], Echo())
    bad = 0
    for path, query, want in [
        (["top"], [], "coap://virt.example/top"),
        (["sub", "res"], ["k=1"], "coap://virt.example/sub/res?k=1"),
        (["sub", "deeper", ""], [], "coap://virt.example/sub/deeper/"),
    ]:
        got = await get(root, "virt.example", path, query)
        ok = got == want
        print("%-22s -> %-40s %s" % ("/" + "/".join(path), got, "ok" if ok else "WRONG, original request URI is " + want))
        bad += not ok
    return 1 if bad else 0


sys.exit(asyncio.run(main()))
