"""miss3 demo -- "The result of every request completes exactly once, either with such a matching
response or with an error ..., under every pattern of datagram loss ... [and of] injected forged
[datagrams with a] wrong source address".

Run with cwd = the aiocoap tree under test:   python /tmp/adv/C02/miss3_demo.py
exit 0: property holds in this situation; exit 1: violated.

Situation: a confirmable request to server S is lost on every transmission (S never sees it).  A third
party T (other port, so another endpoint) sends the client one empty ACK carrying the request's message ID
(message IDs are a running counter, easy to guess; here T is simply told the number).  An acknowledgement
from an endpoint the request was not sent to must not count: the request has to keep retransmitting and to
end with a timeout error (ACK_TIMEOUT 0.1 s, MAX_RETRANSMIT 2 set through the per-message tuning, so that
happens within a second).
"""

import asyncio
import logging
import os
import socket
import sys

sys.path.insert(0, os.getcwd())  # the tree under test is the current directory

import aiocoap
from aiocoap import Message, GET

print("aiocoap from", aiocoap.__file__)
logging.disable(logging.CRITICAL)


class Quick(aiocoap.Reliable):
    ACK_TIMEOUT = 0.1
    MAX_RETRANSMIT = 2


class Server(asyncio.DatagramProtocol):
    """Loses everything, remembers what it saw."""

    def __init__(self):
        self.seen = []

    def connection_made(self, transport):
        self.transport = transport

    def datagram_received(self, data, addr):
        self.seen.append((data, addr))


async def main():
    loop = asyncio.get_running_loop()
    st, server = await loop.create_datagram_endpoint(Server, local_addr=("::1", 0), family=socket.AF_INET6)
    tt, third = await loop.create_datagram_endpoint(asyncio.DatagramProtocol, local_addr=("::1", 0), family=socket.AF_INET6)
    port = st.get_extra_info("sockname")[1]
    ctx = await aiocoap.Context.create_client_context()
    try:
        m = Message(code=GET, uri="coap://[::1]:%d/x" % port, transport_tuning=Quick())
        req = ctx.request(m, handle_blockwise=False)
        while not server.seen:
            await asyncio.sleep(0.005)
        data, client_addr = server.seen[0]
        mid = data[2:4]
        # the third party's empty ACK (type 2, code 0.00) with that message ID, from ITS address
        tt.sendto(bytes([0x60, 0x00]) + mid, client_addr)
        try:
            r = await asyncio.wait_for(asyncio.shield(req.response), 4)
            outcome = "response %r" % r.payload
        except asyncio.TimeoutError:
            outcome = None
        except Exception as e:
            outcome = "error %s (library error: %s)" % (type(e).__name__, isinstance(e, aiocoap.error.Error))
        mman = ctx.request_interfaces[0].token_interface
        print("copies of the request the server saw:", len(server.seen), "(1 + MAX_RETRANSMIT = 3 expected)")
        print("result of the request after 4 s:", outcome)
        if outcome is not None:
            print("ok: the forged acknowledgement was ignored, the request ended with a timeout")
            return 0
        print("VIOLATED: the request has not completed; exchanges with a running timer: %d, still registered as "
              "outstanding: %d -- an empty ACK from an endpoint the request was never sent to stopped the "
              "retransmissions, nothing is left that would ever complete the request"
              % (len(mman._active_exchanges), len(ctx.request_interfaces[0].outgoing_requests)))
        return 1
    finally:
        await ctx.shutdown()
        st.close()
        tt.close()


sys.exit(asyncio.run(main()))
