"""C18 miss 1 -- Context.shutdown() no longer bounded by SHUTDOWN_TIMEOUT.

Run with cwd = the aiocoap tree under test.  Exit 0: shutdown() returned within
SHUTDOWN_TIMEOUT (+ slack) although one request interface's shutdown stalls, and the
request pending on the udp6 interface failed with LibraryShutdown.  Exit 1: shutdown()
hangs ("shutdown itself completes" is false).

The stalling interface stands in for any transport whose orderly shutdown depends on
the peer (coap+ws close handshake, TLS close_notify, a TCP peer that does not read):
that is what SHUTDOWN_TIMEOUT exists for.  Everything else is the real stack (udp6 on
a real socket bound to [::]:0)."""

import sys
import os

sys.path.insert(0, os.getcwd())

import asyncio
import time

import aiocoap
from aiocoap import Context, Message, GET, error, interfaces
from aiocoap.numbers.constants import SHUTDOWN_TIMEOUT

print("aiocoap from", aiocoap.__file__)


class StallingInterface(interfaces.RequestInterface):
    """A request interface whose peer never completes the closing handshake."""

    def __init__(self):
        self.shutdown_started = False

    async def recognize_remote(self, message):
        return False

    async def determine_remote(self, message):
        return None

    def request(self, request):
        raise NotImplementedError

    async def shutdown(self):
        self.shutdown_started = True
        await asyncio.get_running_loop().create_future()  # never resolved


async def main():
    ctx = await Context.create_client_context(transports=["udp6"])
    stalling = StallingInterface()
    ctx.request_interfaces.append(stalling)

    # one request awaiting its ACK on the udp6 interface (the peer is a bound socket that never reads)
    import socket

    mute = socket.socket(socket.AF_INET6, socket.SOCK_DGRAM)
    mute.bind(("::1", 0))
    req = ctx.request(Message(code=GET, uri="coap://[::1]:%d/x" % mute.getsockname()[1]), handle_blockwise=False)
    await asyncio.sleep(0.2)

    t0 = time.monotonic()
    sd = asyncio.ensure_future(ctx.shutdown())
    done, pending = await asyncio.wait([sd], timeout=SHUTDOWN_TIMEOUT + 2.0)
    took = time.monotonic() - t0

    try:
        await asyncio.wait_for(asyncio.shield(req.response), 0.1)
        outcome = "response"
    except error.LibraryShutdown:
        outcome = "LibraryShutdown"
    except Exception as e:
        outcome = type(e).__name__
    print("pending udp6 request ended with:", outcome)

    if pending:
        print("FAIL: shutdown() still running %.1f s after it was called (SHUTDOWN_TIMEOUT = %s s)" % (took, SHUTDOWN_TIMEOUT))
        sd.cancel()
        return 1
    if sd.exception() is not None:
        print("FAIL: shutdown() raised %r" % sd.exception())
        return 1
    print("ok: shutdown() returned after %.2f s" % took)
    return 0


rc = asyncio.run(main())
sys.exit(rc)
