"""C12 miss 2: the Echo value of a FilesystemSecurityContext is no longer issued freshly by
the running process; a request recorded in an earlier lifetime (carrying that lifetime's
Echo value) is accepted again after the replay window was lost once more.

Run with cwd = the tree under test:
    cd <tree> && PYTHONPATH=<tree>:/verif/harness/shims python /tmp/adv/C12/miss2_demo.py
exit 0: the recorded request is refused (4.01 + new Echo) in the next lifetime;
exit 1: it is accepted a second time."""
import json
import os
import shutil
import sys
import tempfile

sys.path.insert(0, os.getcwd())
try:
    import cbor2  # noqa: F401
    import cryptography  # noqa: F401
    import filelock  # noqa: F401
except ImportError:
    sys.path.append("/verif/harness/shims")

import aiocoap
import aiocoap.oscore as oscore

print("aiocoap from", aiocoap.__file__)
h = bytes.fromhex


class Ctx(oscore.CanProtect, oscore.CanUnprotect, oscore.SecurityContextUtils):
    echo_recovery = None

    def post_seqnoincrease(self):
        pass


def client_ctx():
    c = Ctx()
    c.alg_aead = oscore.algorithms[oscore.DEFAULT_ALGORITHM]
    c.hashfun = oscore.hashfunctions[oscore.DEFAULT_HASHFUNCTION]
    c.sender_id, c.recipient_id, c.id_context = b"\x01", b"", None
    c.derive_keys(h("9e7ca92223786340"), h("0102030405060708090a0b0c0d0e0f10"))
    c.sender_sequence_number = 0
    c.recipient_replay_window = oscore.ReplayWindow(32, lambda: None)
    c.recipient_replay_window.initialize_empty()
    return c


def wire(msg, mid):
    msg.mtype, msg.mid, msg.token = aiocoap.NON, mid, b""
    return msg.encode()


def crash(ctx):
    """The process dies: nothing is written back, the lock is gone."""
    lock = ctx.lockfile
    ctx.lockfile = None  # keeps __del__ from performing the clean shutdown
    lock.release()


base = tempfile.mkdtemp(prefix="c12miss2-")
try:
    with open(os.path.join(base, "settings.json"), "w") as f:
        json.dump({"sender-id_hex": "", "recipient-id_hex": "01", "secret_hex": "0102030405060708090a0b0c0d0e0f10", "salt_hex": "9e7ca92223786340"}, f)
    client = client_ctx()
    mid = 0

    def send(server, **kw):
        global mid
        mid += 1
        outer, rid = client.protect(aiocoap.Message(code=aiocoap.POST, uri_path=("act",), **kw))
        data = wire(outer, mid)
        try:
            plain, _ = server.unprotect(aiocoap.Message.decode(data))
            return data, "accepted", None
        except oscore.ReplayErrorWithEcho as e:
            resp = e.to_message()
            rplain, _ = client.unprotect(aiocoap.Message.decode(wire(resp, 0x7000 + mid)), rid)
            return data, "4.01", rplain.opt.echo
        except oscore.ProtectionInvalid as e:
            return data, "rejected (%s)" % type(e).__name__, None

    # lifetime 1: new context, one request accepted -> sequence.json says the window is "unknown"
    s1 = oscore.FilesystemSecurityContext(base)
    _, res, _ = send(s1, payload=b"one")
    print("lifetime 1: request 0", res)
    assert res == "accepted"
    crash(s1)
    del s1

    # lifetime 2: window lost; Echo round trip; the request carrying the Echo is accepted -- and recorded
    s2 = oscore.FilesystemSecurityContext(base)
    assert not s2.recipient_replay_window.is_initialized()
    _, res, echo = send(s2, payload=b"two")
    print("lifetime 2: request 1", res)
    assert res == "4.01" and echo is not None
    recorded, res, _ = send(s2, payload=b"open the door", echo=echo)
    print("lifetime 2: request 2 (with Echo)", res)
    assert res == "accepted"
    again = None
    try:
        s2.unprotect(aiocoap.Message.decode(recorded))
        again = "accepted"
    except oscore.ProtectionInvalid as e:
        again = "rejected"
    print("lifetime 2: immediate replay of request 2", again)
    assert again == "rejected"
    crash(s2)
    del s2

    # lifetime 3: window lost again; the attacker replays the recorded request 2
    s3 = oscore.FilesystemSecurityContext(base)
    assert not s3.recipient_replay_window.is_initialized()
    try:
        plain, _ = s3.unprotect(aiocoap.Message.decode(recorded))
        outcome = "accepted"
    except oscore.ReplayErrorWithEcho:
        outcome = "4.01"
    except oscore.ProtectionInvalid as e:
        outcome = "rejected"
    print("lifetime 3: replay of request 2 recorded in lifetime 2:", outcome)
    crash(s3)
    del s3
finally:
    shutil.rmtree(base, ignore_errors=True)

if outcome == "accepted":
    print("VIOLATED: request with sender sequence number 2 accepted twice; the echoed value was not issued by this process")
    sys.exit(1)
print("ok: replay refused")
sys.exit(0)
