"""C11 miss 2: the ID context in the OSCORE option is changed to the EMPTY byte string
(h flag set, s = 0) and the message is still unprotected.

Run with cwd = the tree under test:
    cd <tree> && PYTHONPATH=<tree>:/verif/harness/shims /venv/bin/python /tmp/adv/C11/miss2_demo.py
exit 0: every such message is refused with a protection error
exit 1: some of them yield a message
"""

import os
import sys

sys.path.insert(0, os.getcwd())
if "/verif/harness/shims" not in sys.path:
    sys.path.append("/verif/harness/shims")

import aiocoap
import aiocoap.oscore as oscore

print("aiocoap from", aiocoap.__file__)
assert os.path.realpath(aiocoap.__file__).startswith(os.path.realpath(os.getcwd())), "run me with cwd = the tree under test"


class Ctx(oscore.CanProtect, oscore.CanUnprotect, oscore.SecurityContextUtils):
    echo_recovery = None

    def post_seqnoincrease(self):
        pass


def mk(sender, recipient, idctx):
    c = Ctx()
    c.alg_aead = oscore.algorithms[oscore.DEFAULT_ALGORITHM]
    c.hashfun = oscore.hashfunctions[oscore.DEFAULT_HASHFUNCTION]
    c.sender_id, c.recipient_id, c.id_context = sender, recipient, idctx
    c.derive_keys(bytes.fromhex("9e7ca92223786340"), bytes.fromhex("0102030405060708090a0b0c0d0e0f10"))
    c.sender_sequence_number = 0
    c.recipient_replay_window = oscore.ReplayWindow(32, lambda: None)
    c.recipient_replay_window.initialize_empty()
    return c


def parse(opt):
    """(n, piv, kidctx or None, kid or None) of a well-formed OSCORE option value"""
    first, tail = opt[0], opt[1:]
    n = first & 7
    piv, tail = tail[:n], tail[n:]
    kidctx = None
    if first & 0x10:
        s = tail[0]
        kidctx, tail = tail[1 : 1 + s], tail[1 + s :]
    kid = tail if first & 8 else None
    return piv, kidctx, kid


def build(piv, kidctx, kid):
    first = len(piv) | (8 if kid is not None else 0) | (0x10 if kidctx is not None else 0)
    return bytes([first]) + piv + (bytes([len(kidctx)]) + kidctx if kidctx is not None else b"") + (kid or b"")


def fresh_window(c):
    c.recipient_replay_window = oscore.ReplayWindow(32, lambda: None)
    c.recipient_replay_window.initialize_empty()


def deliver(ctx, outer, option, rid=None):
    m = aiocoap.Message(code=outer.code, payload=outer.payload)
    if outer.opt.observe is not None:
        m.opt.observe = outer.opt.observe
    m.opt.oscore = option
    m.mtype, m.mid, m.token = aiocoap.NON, 7, b"\x70"
    fresh_window(ctx)
    try:
        plain, _ = ctx.unprotect(aiocoap.Message.decode(m.encode()), rid)
    except oscore.ProtectionInvalid as e:
        return "rejected (%s: %s)" % (type(e).__name__, e)
    return plain


failures = []
checked = 0
for idctx in (None, bytes.fromhex("37cbf3210017a2d3")):
    for cid, sid in ((b"\x01", b""), (b"\x05", b"\x0a\x0b"), (b"", b"\x01")):
        for seq in (0, 20, 300, 2**32 + 5):
            client, server = mk(cid, sid, idctx), mk(sid, cid, idctx)
            client.sender_sequence_number = seq
            req = aiocoap.Message(code=aiocoap.PUT, uri_path=("door", "lock"), payload=b"state=open")
            outer, client_rid = client.protect(req, kid_context=True)
            genuine = bytes(outer.opt.oscore)
            piv, kidctx, kid = parse(genuine)
            assert kidctx == idctx
            # sanity: the genuine message is accepted
            got = deliver(server, outer, genuine)
            assert not isinstance(got, str) and got.payload == b"state=open", got
            # the attack: ID context in the option := b"" (present, zero length)
            tampered = build(piv, b"", kid)
            assert tampered != genuine and parse(tampered) == (piv, b"", kid)
            got = deliver(server, outer, tampered)
            checked += 1
            if not isinstance(got, str):
                failures.append(
                    "request: recipient with ID context %s unprotected option %s (genuine: %s; ID context field changed to the empty string) into %s %s %r"
                    % (idctx.hex() if idctx else idctx, tampered.hex(), genuine.hex(), got.code, "/".join(got.opt.uri_path), got.payload)
                )
            # a wrong non-empty ID context is (still) refused
            got = deliver(server, outer, build(piv, b"\x55\xaa", kid))
            assert isinstance(got, str), "wrong non-empty ID context accepted"
            # the same on a response (own partial IV): an ID context the client does not have is added
            outer.mtype, outer.mid, outer.token = aiocoap.NON, 9, b"\x70"
            fresh_window(server)
            _, srid = server.unprotect(aiocoap.Message.decode(outer.encode()))
            srid.get_reusable_kid_and_piv()  # force an own partial IV
            resp = aiocoap.Message(code=aiocoap.CHANGED, payload=b"door is now open")
            router, _ = server.protect(resp, srid)
            rpiv, rkidctx, rkid = parse(bytes(router.opt.oscore))
            assert rkidctx is None
            got = deliver(client, router, build(rpiv, b"", rkid), client_rid)
            checked += 1
            if not isinstance(got, str):
                failures.append(
                    "response: recipient with ID context %s unprotected option %s (genuine: %s; an empty ID context was added) into %s %r"
                    % (idctx.hex() if idctx else idctx, build(rpiv, b"", rkid).hex(), bytes(router.opt.oscore).hex(), got.code, got.payload)
                )

if failures:
    print("C11 VIOLATED (a change to the ID context in the OSCORE option still yields a message): %d of %d" % (len(failures), checked))
    for f in failures[:8]:
        print("  -", f)
    sys.exit(1)
print("OK: all %d messages whose ID context was changed to the empty string were refused" % checked)
sys.exit(0)
