"""miss1 demo -- "Release or Abort from the peer fail the pending requests with a
network error" is false for a connection that is not (any more) filed in the
client pool.

Run with cwd = the aiocoap tree under test (needs a loopback interface):

    cd <tree> && /venv/bin/python /tmp/adv/C15/miss1_demo.py

Situation: two requests to the same, not yet connected, coap+tcp host are
started concurrently.  TCPClient._spawn_protocol opens one TCP connection per
request (both see an empty pool), the second overwrites the pool entry of the
first.  Both connections carry one pending request.  The peer (a plain asyncio
TCP server, no aiocoap) answers each connection with CSM and, once it has the
request, with Release (7.04).  Both requests must fail with a NetworkError.

exit 0: both requests failed with error.NetworkError
exit 1: a request was still pending 3 s after the peer's Release
"""

import os
import sys

sys.path.insert(0, os.getcwd())
os.environ["AIOCOAP_CLIENT_TRANSPORT"] = "tcpclient"

import asyncio

import aiocoap
from aiocoap import error

print("aiocoap from", aiocoap.__file__)

CSM = bytes([0x00, 0xE1])
RELEASE = bytes([0x00, 0xE4])


PEERS = []


async def peer(reader, writer):
    PEERS.append(asyncio.current_task())
    writer.write(CSM)
    got = b""
    # our CSM (8 bytes with both options) + a request: wait until a frame with a
    # request code (0.01 GET) has been seen, then release the connection
    while True:
        data = await reader.read(4096)
        if not data:
            return
        got += data
        pos = 0
        seen_request = False
        while pos < len(got):
            ln, tkl = got[pos] >> 4, got[pos] & 15
            assert ln < 13
            if pos + 2 + tkl + ln > len(got):
                break
            if got[pos + 1] == 0x01:
                seen_request = True
            pos += 2 + tkl + ln
        if seen_request:
            break
    writer.write(RELEASE)
    await writer.drain()
    # keep the socket open a little, then close it like a released peer would
    await asyncio.sleep(0.2)
    writer.close()


async def main():
    server = await asyncio.start_server(peer, "127.0.0.1", 0)
    port = server.sockets[0].getsockname()[1]
    ctx = await aiocoap.Context.create_client_context()

    async def one(path):
        msg = aiocoap.Message(code=aiocoap.GET, uri="coap+tcp://127.0.0.1:%d/%s" % (port, path))
        try:
            r = await asyncio.wait_for(ctx.request(msg, handle_blockwise=False).response, 3)
            return "response %s" % r.code
        except error.NetworkError as e:
            return "NetworkError(%s)" % type(e).__name__
        except asyncio.TimeoutError:
            return "STILL PENDING"
        except Exception as e:
            return "other error %r" % e

    results = await asyncio.gather(one("a"), one("b"))
    print("outcome of the two pending requests after the peer's Release:", results)
    server.close()
    await asyncio.gather(*PEERS, return_exceptions=True)
    try:
        await asyncio.wait_for(ctx.shutdown(), 2)
    except Exception:
        pass
    ok = all(r.startswith("NetworkError") for r in results)
    print("OK: Release failed every pending request with a network error" if ok
          else "VIOLATED: Release from the peer left a pending request pending")
    return 0 if ok else 1


sys.exit(asyncio.run(main()))
