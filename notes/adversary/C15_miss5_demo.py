"""miss5 demo -- "Ping is answered by Pong with the same token" is false for a
Ping that carries a (diagnostic) payload, which RFC 8323 section 5.1 allows
for every signalling message.

Run with cwd = the aiocoap tree under test (needs a loopback interface):

    cd <tree> && /venv/bin/python /tmp/adv/C15/miss5_demo.py

Situation: aiocoap CoAP-over-TCP server; the peer (raw asyncio stream) sends
CSM, then Ping (7.02) with token a1b2 and the payload "keepalive #1".

exit 0: the endpoint answers with Pong (7.03), token a1b2, connection stays open
exit 1: anything else (Abort, close)
"""

import os
import sys

sys.path.insert(0, os.getcwd())
os.environ["AIOCOAP_SERVER_TRANSPORT"] = "tcpserver"

import asyncio
import socket

import aiocoap
import aiocoap.resource as resource

print("aiocoap from", aiocoap.__file__)


async def main():
    s = socket.socket()
    s.bind(("127.0.0.1", 0))
    port = s.getsockname()[1]
    s.close()
    ctx = await aiocoap.Context.create_server_context(resource.Site(), bind=("127.0.0.1", port))
    reader, writer = await asyncio.open_connection("127.0.0.1", port)
    pay = b"keepalive #1"
    body = b"\xff" + pay  # 13 bytes: Len nibble 13, extended length 0
    writer.write(bytes([0x00, 0xE1]) + bytes([0xD2, 0x00, 0xE2, 0xA1, 0xB2]) + body)
    await writer.drain()
    got = bytearray()
    eof = False
    try:
        while True:
            data = await asyncio.wait_for(reader.read(4096), 1.5)
            if not data:
                eof = True
                break
            got += data
    except asyncio.TimeoutError:
        pass
    # parse the frames the endpoint sent (all short)
    msgs = []
    pos = 0
    while pos < len(got):
        nib, tkl = got[pos] >> 4, got[pos] & 15
        ext = 1 if nib == 13 else 0
        ln = nib if nib < 13 else got[pos + 1] + 13
        code = got[pos + 1 + ext]
        tok = bytes(got[pos + 2 + ext : pos + 2 + ext + tkl])
        msgs.append(("%d.%02d" % (code >> 5, code & 31), tok.hex()))
        pos += 2 + ext + tkl + ln
    print("endpoint sent", msgs, "and", "closed the connection" if eof else "kept the connection open")
    writer.close()
    try:
        await asyncio.wait_for(ctx.shutdown(), 3)
    except Exception:
        pass
    ok = ("7.03", "a1b2") in msgs and not eof and not any(c == "7.05" for c, _ in msgs)
    print("OK: Ping answered by Pong with the same token" if ok else "VIOLATED: Ping not answered by Pong")
    return 0 if ok else 1


sys.exit(asyncio.run(main()))
