"""C07 miss 1 -- a block-wise notification body is handed over AFTER a fresher notification.

Run with cwd = the aiocoap tree under test.  Exit 0: deliveries are in freshness order
(unchanged tree).  Exit 1: a notification was handed over that is not fresher than the one
handed over before it (tree with miss1.diff).

Real aiocoap Context / BlockwiseRequest / Request / ClientObservation / TokenManager; only the
layer below the token manager (message layer + socket) is replaced by a scripted peer."""

import asyncio
import logging
import os
import sys

sys.path.insert(0, os.getcwd())

import aiocoap
from aiocoap import Message
from aiocoap.numbers.codes import Code
from aiocoap.protocol import Context
from aiocoap.tokenmanager import TokenManager

print("aiocoap from", aiocoap.__file__)
logging.getLogger("coap").setLevel(logging.CRITICAL)


class Remote:
    is_multicast = False
    is_multicast_locally = False
    scheme = "coap"
    maximum_block_size_exp = 6
    maximum_payload_size = 1124
    hostinfo = "peer"
    hostinfo_local = "me"
    uri_base = "coap://peer"
    uri_base_local = "coap://me"
    blockwise_key = "peer"

    def as_response_address(self):
        return self


class Below:
    """Stands in for the message layer: records the requests the client sends"""

    def __init__(self):
        self.sent = []

    def send_message(self, message, messageerror_monitor):
        self.sent.append(message)

    async def recognize_remote(self, message):
        return isinstance(message.remote, Remote)

    async def determine_remote(self, message):
        return None

    async def shutdown(self):
        pass


def fresher(v1, t1, v2, t2):
    """RFC 7641 section 3.4"""
    return (v1 < v2 and v2 - v1 < 2**23) or (v1 > v2 and v1 - v2 > 2**23) or t2 > t1 + 128


async def settle():
    for _ in range(20):
        await asyncio.sleep(0)


async def main():
    loop = asyncio.get_running_loop()
    ctx = Context()
    tman = TokenManager(ctx)
    below = Below()
    tman.token_interface = below
    ctx.request_interfaces.append(tman)
    peer = Remote()

    def from_peer(token, **kw):
        m = Message(**kw)
        m.token = token
        m.remote = peer
        assert tman.process_response(m), "response not matched to a request"

    request = Message(code=Code.GET, uri_path=["big"], observe=0)
    request.remote = peer
    req = ctx.request(request)  # the default: BlockwiseRequest
    await settle()
    obs_token = below.sent[0].token

    handed = []  # (Observe value, body length, time)

    async def consume():
        async for n in req.observation:
            handed.append((n.opt.observe, len(n.payload), loop.time()))

    consumer = asyncio.create_task(consume())

    from_peer(obs_token, code=Code.CONTENT, observe=5, payload=b"state-5")
    first = await req.response
    arrivals = [(first.opt.observe, loop.time())]
    await settle()

    # notification 6: a representation of 74 bytes, first block of 64 bytes
    from_peer(obs_token, code=Code.CONTENT, observe=6, block2=(0, True, 2), payload=b"6" * 64)
    arrivals.append((6, loop.time()))
    await settle()
    assert len(below.sent) == 2 and below.sent[1].opt.block2.block_number == 1, "client did not ask for block 1"
    block_token = below.sent[1].token

    # the resource changes again before the client has all of it: notification 7, small
    from_peer(obs_token, code=Code.CONTENT, observe=7, payload=b"state-7")
    arrivals.append((7, loop.time()))
    await settle()

    # the answer to the block request of notification 6 arrives
    from_peer(block_token, code=Code.CONTENT, block2=(1, False, 2), payload=b"6" * 10)
    await settle()

    consumer.cancel()
    print("arrivals on the observation token (Observe):", [v for v, _ in arrivals])
    print("handed to the application (Observe, body length):", [(v, n) for v, n, _ in handed])

    bad = 0
    v1, t1 = arrivals[0]
    for v2, n, t2 in handed:
        if not fresher(v1, t1, v2, t2):
            print("VIOLATED: Observe %d handed over after Observe %d although it is not fresher" % (v2, v1))
            bad = 1
        v1, t1 = v2, t2
    if not handed or handed[-1][0] != 7:
        print("VIOLATED: the freshest notification (7) is not the last one handed over")
        bad = 1
    return bad


sys.exit(asyncio.run(main()))
