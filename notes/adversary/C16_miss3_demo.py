"""C16 miss 3: letter case of an IPv6 zone identifier (and of the destination in general).

RFC 4007 / RFC 6874 zone identifiers are interface names, which are case-sensitive on every
common OS ("Eth0" and "eth0", "WLAN0" ...); RFC 3986 6.2.2.1 makes only scheme, *host name* and
hex digits case-insensitive.  Run with cwd = the tree under test.  Exit 0: the zone survives
decomposition and composition; exit 1: it is lower-cased, two different destinations collapse."""
import os
import sys

sys.path.insert(0, os.getcwd())  # the tree under test, not an installed aiocoap
import aiocoap
from aiocoap import Message, GET
from aiocoap.util import hostportsplit

print(aiocoap.__file__)
bad = []
for uri, zone in [
    ("coap://[fe80::1%25Eth0]/", "Eth0"),
    ("coap://[fe80::1%25WLAN0]:61616/a?b", "WLAN0"),
    ("coap://[ff02::fd%25Tun-A]/", "Tun-A"),
]:
    m = Message(code=GET, uri=uri)
    host, port = hostportsplit(m.remote.hostinfo)
    if not host.endswith(zone):
        bad.append(("decompose: destination", uri, m.remote.hostinfo))
    g = m.get_request_uri()
    if zone not in g:
        bad.append(("compose", uri, g))
a = Message(code=GET, uri="coap://[fe80::1%25Eth0]/x")
b = Message(code=GET, uri="coap://[fe80::1%25eth0]/x")
if a.get_request_uri() == b.get_request_uri() or a.remote == b.remote:
    bad.append(("collapse", a.get_request_uri(), b.get_request_uri()))
for x in bad:
    print("VIOLATED:", x)
sys.exit(1 if bad else 0)
