"""C10: "no confirmable message is ever sent to a multicast destination".

The application asks for a request to the All-CoAP-Nodes multicast group and sets the message
type to CON explicitly (Message(mtype=CON, ...), a documented constructor argument).  The
message layer must not put a CON on the wire to that destination.

Run with cwd = the aiocoap tree.  Exit 0: nothing confirmable went to the group (the request
fails with ConToMulticast); exit 1: a CON datagram was sent to ff02::fd.
"""
import asyncio
import logging
import os
import sys

sys.path.insert(0, os.getcwd())   # cwd = the tree under test
import aiocoap
from aiocoap import Message, GET
from aiocoap.numbers.types import CON
from aiocoap.messagemanager import MessageManager
from aiocoap.tokenmanager import TokenManager
from aiocoap.pipe import Pipe
from aiocoap.transports.udp6 import UDP6EndpointAddress

print("aiocoap from", aiocoap.__file__)


class Iface:
    def __init__(self):
        self.sent = []

    def send(self, message):
        raw = message.encode()
        self.sent.append((message.remote.sockaddr, raw))


class Ctx:
    """The little a TokenManager needs from its Context."""

    def __init__(self, loop):
        self.log = logging.getLogger("demo")
        self.loop = loop
        self.client_credentials = None


async def main():
    loop = asyncio.get_running_loop()
    iface = Iface()
    tm = TokenManager(Ctx(loop))
    mm = MessageManager(tm)
    mm.message_interface = iface
    tm.token_interface = mm

    msg = Message(code=GET, mtype=CON, uri_path=["x"])
    msg.remote = UDP6EndpointAddress(("ff02::fd", 5683, 0, 1), iface)
    assert msg.remote.is_multicast
    pipe = Pipe(msg, logging.getLogger("demo"))
    outcome = []
    pipe.on_event(lambda ev: outcome.append(ev) or False)
    tm.request(pipe)
    await asyncio.sleep(0)

    con_to_mc = [(to, raw) for to, raw in iface.sent if to[0].lower().startswith("ff") and (raw[0] >> 4) & 3 == 0]
    print("datagrams sent:", [(to, raw.hex()) for to, raw in iface.sent])
    print("request outcome:", [getattr(ev, "exception", None) or ev for ev in outcome])
    for key, (mon, handle) in list((mm._active_exchanges or {}).items()):
        handle.cancel()
    if con_to_mc:
        print("FAIL: a confirmable message was sent to the multicast destination %s" % (con_to_mc[0][0],))
        return 1
    print("ok: no CON to multicast")
    return 0


sys.exit(asyncio.run(main()))
