"""miss1: a filter on a single-valued attribute (title, foo, ...) must compare the
whole value; only rt / if / ct are space-separated lists (RFC 6690 section 4.1).

Run with cwd = the aiocoap tree.  Exit 0: filter returns exactly the matching
subset.  Exit 1: `?title=room` / `?title=Liv*`-style item matching on title."""

import asyncio
import os
import sys

sys.path.insert(0, os.getcwd())  # cwd = the tree under test

import aiocoap
from aiocoap import resource, Message, GET
from aiocoap.message import Direction

print(aiocoap.__file__)


class R(resource.Resource):
    def __init__(self, **a):
        super().__init__()
        self.a = a

    def get_link_description(self):
        return dict(self.a)


class Remote:
    is_multicast = False
    is_multicast_locally = False


async def wkc(site, q):
    m = Message(code=GET, uri_path=[".well-known", "core"], uri_query=[q])
    m.direction = Direction.INCOMING
    m.remote = Remote()
    return (await site.render(m)).payload.decode()


async def main():
    s = resource.Site()
    s.add_resource(
        [".well-known", "core"],
        resource.WKCResource(s.get_resources_as_linkheader, impl_info=None),
    )
    s.add_resource(["living"], R(title="Living room", rt="lamp dimmer"))
    s.add_resource(["room"], R(title="room"))
    bad = 0
    for q, want in [
        ("title=room", '</room>;title="room"'),  # exact: only the resource titled "room"
        ("title=ro*", '</room>;title="room"'),  # prefix of the whole title
        ("title=Living*", '</living>;title="Living room";rt="lamp dimmer"'),
        ("title=Living", ""),  # no resource is titled "Living"
        ("rt=dimmer", '</living>;title="Living room";rt="lamp dimmer"'),  # rt is a list
    ]:
        got = await wkc(s, q)
        ok = got == want
        print("%-16s -> %-60r %s" % (q, got, "ok" if ok else "WRONG, expected %r" % want))
        bad += not ok
    return bad


sys.exit(1 if asyncio.run(main()) else 0)
