"""C06 miss 5: a request without Block2 option whose rendering needs no block-wise transfer leaves
the older, larger rendering of the same key in the cache; a later block is then cut from that
outdated rendering instead of being refused.

Run with cwd = the tree under test (network namespace with lo up):
    unshare -rn sh -c "ip link set lo up; cd <tree> && /venv/bin/python /tmp/adv/C06/miss5_demo.py"
exit 0: property holds in this situation; exit 1: violated.

Statement sentence: "Every Block2 response is exactly the slice [NUM x size, NUM x size + size) of
the single rendering made for the LATEST block-0 request of that endpoint ... (beyond the end gives
4.00, a later block without such a rendering 4.08)".  A request without Block2 option is a request
for block 0 (the check's monitor reads it that way too: kind "firstplain" replaces the rendering).
"""

import asyncio
import os
import socket
import struct
import sys

sys.path.insert(0, os.getcwd())
import aiocoap  # noqa: E402
import aiocoap.resource as resource  # noqa: E402

print("aiocoap from", aiocoap.__file__)

PORT = 56830
URI_PATH, URI_QUERY, BLOCK2, BLOCK1, REQUEST_TAG = 11, 15, 23, 27, 292


def uint(v):
    out = b""
    while v:
        out = bytes([v & 0xFF]) + out
        v >>= 8
    return out


def block(num, more, szx):
    return uint((num << 4) | (int(more) << 3) | szx)


def encode(ty, code, mid, token, options, payload=b""):
    out = bytes([0x40 | (ty << 4) | len(token), code]) + struct.pack("!H", mid) + token
    last = 0
    for num, val in sorted(options, key=lambda o: o[0]):
        delta = num - last
        last = num

        def nib(x):
            if x < 13:
                return x, b""
            if x < 269:
                return 13, bytes([x - 13])
            return 14, struct.pack("!H", x - 269)

        dn, de = nib(delta)
        ln, le = nib(len(val))
        out += bytes([(dn << 4) | ln]) + de + le + val
    if payload:
        out += b"\xff" + payload
    return out


def decode(data):
    tkl = data[0] & 0x0F
    code = data[1]
    token = data[4 : 4 + tkl]
    i = 4 + tkl
    opts = []
    num = 0
    payload = b""
    while i < len(data):
        if data[i] == 0xFF:
            payload = data[i + 1 :]
            break
        d, ln = data[i] >> 4, data[i] & 0x0F
        i += 1
        if d == 13:
            d = data[i] + 13
            i += 1
        elif d == 14:
            d = struct.unpack("!H", data[i : i + 2])[0] + 269
            i += 2
        if ln == 13:
            ln = data[i] + 13
            i += 1
        elif ln == 14:
            ln = struct.unpack("!H", data[i : i + 2])[0] + 269
            i += 2
        num += d
        opts.append((num, data[i : i + ln]))
        i += ln
    return {"code": code, "token": token, "opts": opts, "payload": payload, "type": (data[0] >> 4) & 3}


def code_str(c):
    return "%d.%02d" % (c >> 5, c & 31)


class Client:
    """A raw CoAP endpoint on its own UDP port of ::1."""

    def __init__(self):
        self.sock = socket.socket(socket.AF_INET6, socket.SOCK_DGRAM)
        self.sock.bind(("::1", 0))
        self.sock.setblocking(False)
        self.mid = 1000 + (self.sock.getsockname()[1] % 1000)

    async def request(self, code, options, payload=b"", timeout=2.0):
        loop = asyncio.get_running_loop()
        self.mid += 1
        token = struct.pack("!H", self.mid)
        await loop.sock_sendto(self.sock, encode(1, code, self.mid, token, options, payload), ("::1", PORT))
        while True:
            data = await asyncio.wait_for(loop.sock_recv(self.sock, 4096), timeout)
            m = decode(data)
            if m["token"] == token and m["code"] != 0:
                return m


class Varying(resource.Resource):
    """The representation changes between renderings: 40 bytes 'old...', then 10 bytes 'new...'."""

    def __init__(self):
        super().__init__()
        self.renderings = [b"old-" * 10, b"new-new-ne"]
        self.n = 0

    async def render_get(self, request):
        body = self.renderings[min(self.n, len(self.renderings) - 1)]
        self.n += 1
        return aiocoap.Message(code=aiocoap.CONTENT, payload=body)


async def main():
    res = Varying()
    site = resource.Site()
    site.add_resource(["v"], res)
    ctx = await aiocoap.Context.create_server_context(site, bind=("::1", PORT))
    bad = []
    try:
        c = Client()
        path = [(URI_PATH, b"v")]
        r1 = await c.request(1, path + [(BLOCK2, block(0, 0, 0))])
        print("GET 0/16        ->", code_str(r1["code"]), r1["payload"], "(rendering 1, 40 bytes, chunked)")
        r2 = await c.request(1, path)
        print("GET (no Block2) ->", code_str(r2["code"]), r2["payload"], "(rendering 2, 10 bytes, whole)")
        r3 = await c.request(1, path + [(BLOCK2, block(1, 0, 0))])
        print("GET 1/16        ->", code_str(r3["code"]), r3["payload"])
        # the latest block-0 rendering has 10 bytes: block 1 is beyond its end (4.00), or -- it was never
        # kept -- there is no such rendering (4.08); a slice of rendering 1 is neither
        if r3["code"] not in (0x80, 0x88):
            bad.append("block 1 answered %s %r: a slice of the outdated rendering 1, not of the rendering made for the "
                       "latest block-0 request" % (code_str(r3["code"]), r3["payload"]))
    finally:
        await ctx.shutdown()
    for x in bad:
        print("VIOLATED:", x)
    return 1 if bad else 0


if __name__ == "__main__":
    sys.exit(asyncio.run(main()))
