"""C01 miss 3: StringOption.encode() rewrites line ends to CR LF ("Net-Unicode").
Sentence 1 of the property: the serialisation of a message is exactly the
RFC 7252 section 3 wire format of *that* message (a string option travels as
the UTF-8 bytes of its value) and parsing gives back equal options.
Run with cwd = the tree under test."""
import os
import sys

sys.path.insert(0, os.getcwd())  # the tree under test, not site-packages
import aiocoap
from aiocoap import Message
from aiocoap.numbers.optionnumbers import OptionNumber

print(aiocoap.__file__)
bad = 0
m = Message(code=2, _mtype=0, _mid=0x1234, _token=b"", payload=b"")
m.opt.add_option(OptionNumber.URI_QUERY.create_option(value="note=a\nb"))
wire = m.encode()
rfc = bytes.fromhex("40021234") + b"\xd8\x02" + "note=a\nb".encode("utf-8")
if wire != rfc:
    print("encode() = %s, RFC bytes = %s" % (wire.hex(), rfc.hex()))
    bad = 1
back = Message.decode(wire)
if back.opt.uri_query != ("note=a\nb",):
    print("decode(encode(m)).opt.uri_query = %r, m had ('note=a\\nb',)" % (back.opt.uri_query,))
    bad = 1
# a datagram carrying the bare LF: parsed message must serialise to the same bytes again
p = Message.decode(rfc)
p.direction = m.direction
if p.encode() != rfc:
    print("encode(decode(d)) = %s differs from d = %s" % (p.encode().hex(), rfc.hex()))
    bad = 1
print("VIOLATED" if bad else "ok")
sys.exit(bad)
