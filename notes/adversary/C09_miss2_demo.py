"""C09 miss 2: a request with a method code outside 0.01-0.07 is answered 5.00, not 4.05.

Statement sentences violated: "unimplemented methods 4.05" (quantifier: "all
request methods"), and "any other exception ... produce a bare 5.00" is now what a
request gets whose handler was never even looked up.

Codes 0.08-0.31 are request codes (class 0) on the wire; the message layer hands
them to the server context like any other request (Code.is_request()).  No
resource implements them, so the answer has to be 4.05 Method Not Allowed.

Run with cwd = the tree to be examined.  Exit 0: every request got exactly one
response, 4.05, with its token.  Exit 1 otherwise.

Path exercised: real TokenManager.process_request -> Context.render_to_pipe ->
error_to_message / run_driving_pipe -> Site -> Resource.render; only the message
layer below the token manager is replaced by a recorder (no sockets needed).
"""

import asyncio
import logging
import os
import struct
import sys

sys.path.insert(0, os.getcwd())  # the tree in the current directory, not an installed copy

import aiocoap
from aiocoap import Message, error, resource
from aiocoap.numbers.codes import Code
from aiocoap.tokenmanager import TokenManager

print("aiocoap from", aiocoap.__file__)
logging.disable(logging.CRITICAL)


class Remote:
    """Minimal stand-in for a transport's endpoint address"""

    is_multicast = False
    is_multicast_locally = False
    maximum_payload_size = 1024
    maximum_block_size_exp = 6
    scheme = "coap"
    hostinfo = "peer"
    hostinfo_local = "me"
    uri_base = "coap://peer"
    uri_base_local = "coap://me"
    authenticated_claims = ()

    @property
    def blockwise_key(self):
        return ("peer",)

    def as_response_address(self):
        return self


class Recorder:
    """Stands where the MessageManager would: records what the token manager hands down"""

    def __init__(self):
        self.sent = []

    def send_message(self, message, messageerror_monitor):
        self.sent.append(message)


def raw_request(code, token, path, con=True):
    data = struct.pack("!BBH", 0x40 | (0 if con else 0x10) | len(token), code, 0x1234) + token
    prev = 0
    for seg in path:
        seg = seg.encode()
        assert len(seg) < 13
        data += bytes([((11 - prev) << 4) | len(seg)]) + seg
        prev = 11
    return data



class Sensor(resource.Resource):
    async def render_get(self, request):
        return Message(payload=b"21.5 C")


async def main():
    site = resource.Site()
    site.add_resource(["h", "1"], Sensor())
    ctx = aiocoap.Context(serversite=site)
    tm = TokenManager(ctx)
    rec = Recorder()
    tm.token_interface = rec

    failures = 0
    # (method code, expected response): 4 = DELETE (assigned, not implemented here), 8/9/31 unassigned, 1 = GET
    plan = [(4, Code.METHOD_NOT_ALLOWED), (8, Code.METHOD_NOT_ALLOWED), (9, Code.METHOD_NOT_ALLOWED),
            (31, Code.METHOD_NOT_ALLOWED), (1, Code.CONTENT)]
    for i, (method, want) in enumerate(plan):
        for con in (True, False):
            token = bytes([0xB0 + i, int(con)])
            before = len(rec.sent)
            tm.process_request(Message.decode(raw_request(method, token, ["h", "1"], con=con), Remote()))
            for _ in range(20):
                await asyncio.sleep(0)
            got = rec.sent[before:]
            ok = len(got) == 1 and got[0].code == want and got[0].token == token
            print("%-4s %s method 0.%02d on /h/1 (implements GET only): want %s, got %s"
                  % ("ok" if ok else "BAD", "CON" if con else "NON", method, want,
                     ["%s token=%s" % (m.code, m.token.hex()) for m in got]))
            failures += not ok
    return failures


failures = asyncio.run(main())
if failures:
    print("VIOLATED: %d request(s) with an unimplemented method were not answered 4.05" % failures)
    sys.exit(1)
print("every unimplemented method was answered 4.05 Method Not Allowed")
