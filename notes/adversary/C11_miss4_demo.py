"""C11 miss 4 (weaker, see miss4.md): the outer code depends on the inner code, so the
outer message reveals whether the protected request is a GET/FETCH or something else.

Run with cwd = the tree under test:
    cd <tree> && PYTHONPATH=<tree>:/verif/harness/shims /venv/bin/python /tmp/adv/C11/miss4_demo.py
exit 0: requests that differ only in their (inner) code have byte-for-byte the same outer header
        and options; the outer code is a function of Observe alone
exit 1: an eavesdropper can tell the inner codes apart from the outer code
"""

import os
import sys

sys.path.insert(0, os.getcwd())
if "/verif/harness/shims" not in sys.path:
    sys.path.append("/verif/harness/shims")

import aiocoap
import aiocoap.oscore as oscore
from aiocoap.numbers.codes import Code

print("aiocoap from", aiocoap.__file__)
assert os.path.realpath(aiocoap.__file__).startswith(os.path.realpath(os.getcwd())), "run me with cwd = the tree under test"


class Ctx(oscore.CanProtect, oscore.CanUnprotect, oscore.SecurityContextUtils):
    echo_recovery = None

    def post_seqnoincrease(self):
        pass


def mk(sender, recipient):
    c = Ctx()
    c.alg_aead = oscore.algorithms[oscore.DEFAULT_ALGORITHM]
    c.hashfun = oscore.hashfunctions[oscore.DEFAULT_HASHFUNCTION]
    c.sender_id, c.recipient_id, c.id_context = sender, recipient, None
    c.derive_keys(bytes.fromhex("9e7ca92223786340"), bytes.fromhex("0102030405060708090a0b0c0d0e0f10"))
    c.sender_sequence_number = 0
    c.recipient_replay_window = oscore.ReplayWindow(32, lambda: None)
    c.recipient_replay_window.initialize_empty()
    return c


failures = []
for observe in (None, 0):
    seen = {}
    for code in (c for c in Code if c.is_request()):
        client, server = mk(b"\x01", b""), mk(b"", b"\x01")
        client.sender_sequence_number = 20
        m = aiocoap.Message(code=code, uri_path=("account", "42"), payload=b"x" * 8)
        if observe is not None:
            m.opt.observe = observe
        outer, rid = client.protect(m)
        outer.mtype, outer.mid, outer.token = aiocoap.NON, 1, b"t"
        back, srid = server.unprotect(aiocoap.Message.decode(outer.encode()))
        assert back.code == code
        # the response's outer code follows the request's
        router, _ = server.protect(aiocoap.Message(code=aiocoap.CHANGED), srid)
        seen[str(code)] = (str(outer.code), str(router.code))
    print("Observe %r: inner code -> (outer request code, outer response code): %s" % (observe, seen))
    if len(set(seen.values())) != 1:
        failures.append("Observe=%r: the outer codes differ with the inner code: %s" % (observe, seen))

if failures:
    print("C11 VIOLATED (the outer code is not fixed; it reveals the class of the inner code):")
    for f in failures:
        print("  -", f)
    sys.exit(1)
print("OK: the outer code depends on Observe only")
sys.exit(0)
