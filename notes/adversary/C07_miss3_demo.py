"""C07 miss 3 -- the token of a live observation is handed out again to a later request.

Run with cwd = the aiocoap tree under test.  Exit 0 (unchanged tree): after 65536 other requests
the observation still receives its notification.  Exit 1 (tree with miss3.diff): request number
65536 gets the observation's token, takes its place in TokenManager.outgoing_requests, and the
next notification on that token is rejected like an unknown response (CON -> RST, which also
deregisters the client at the server) while the application is never told that the observation
is over.

Real aiocoap Context / Request / ClientObservation / TokenManager; only the layer below the token
manager (message layer + socket) is replaced by a scripted peer."""

import asyncio
import logging
import os
import sys

sys.path.insert(0, os.getcwd())

import aiocoap
from aiocoap import Message
from aiocoap.numbers.codes import Code
from aiocoap.protocol import Context
from aiocoap.tokenmanager import TokenManager

print("aiocoap from", aiocoap.__file__)
logging.getLogger("coap").setLevel(logging.CRITICAL)


class Remote:
    is_multicast = False
    is_multicast_locally = False
    scheme = "coap"
    maximum_block_size_exp = 6
    maximum_payload_size = 1124
    hostinfo = "peer"
    hostinfo_local = "me"
    uri_base = "coap://peer"
    uri_base_local = "coap://me"
    blockwise_key = "peer"

    def as_response_address(self):
        return self


class Below:
    """Stands in for the message layer: records the requests the client sends"""

    def __init__(self):
        self.sent = []

    def send_message(self, message, messageerror_monitor):
        self.sent.append(message)

    async def recognize_remote(self, message):
        return isinstance(message.remote, Remote)

    async def determine_remote(self, message):
        return None

    async def shutdown(self):
        pass



async def settle():
    for _ in range(6):
        await asyncio.sleep(0)


async def main():
    ctx = Context()
    tman = TokenManager(ctx)
    below = Below()
    tman.token_interface = below
    ctx.request_interfaces.append(tman)
    peer = Remote()

    def from_peer(token, **kw):
        m = Message(**kw)
        m.token = token
        m.remote = peer
        return tman.process_response(m)

    request = Message(code=Code.GET, uri_path=["obs"], observe=0)
    request.remote = peer
    req = ctx.request(request, handle_blockwise=False)
    await settle()
    obs_token = below.sent[0].token

    handed, ends = [], []

    async def consume():
        try:
            async for n in req.observation:
                handed.append(n.opt.observe)
            ends.append("StopAsyncIteration")
        except Exception as e:
            ends.append(type(e).__name__)

    consumer = asyncio.create_task(consume())
    assert from_peer(obs_token, code=Code.CONTENT, observe=5, payload=b"s5")
    await req.response
    await settle()
    assert from_peer(obs_token, code=Code.CONTENT, observe=6, payload=b"s6")
    await settle()

    # the application keeps polling another resource of the same server (one request per second: 18 hours)
    N = 65536
    clash = None
    for i in range(N):
        del below.sent[:]
        m = Message(code=Code.GET, uri_path=["other"])
        m.remote = peer
        r = ctx.request(m, handle_blockwise=False)
        await settle()
        tok = below.sent[0].token
        if tok == obs_token and clash is None:
            clash = i + 1
        assert from_peer(tok, code=Code.CONTENT, payload=b"x")
        await r.response

    matched = from_peer(obs_token, code=Code.CONTENT, observe=7, payload=b"s7")
    await settle()
    consumer.cancel()

    print("token of the observation:", obs_token.hex() or "(empty)")
    print("other request that was given the same token while the observation lived:", clash or "none")
    print("notification Observe=7 matched to the observation:", matched)
    print("handed over:", handed, " end signalled:", ends or "no")
    bad = 0
    if clash:
        print("VIOLATED (precondition of the statement): the token of a live observation was reused")
    if handed[-1:] != [7]:
        print("VIOLATED: the freshest notification that arrived (Observe=7) was not handed over")
        bad = 1
    if not matched and not ends:
        print("VIOLATED: a notification was rejected like an unknown response although the observation never ended")
        bad = 1
    return bad


sys.exit(asyncio.run(main()))
