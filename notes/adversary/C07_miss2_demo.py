"""C07 miss 2 -- a notification (response WITH Observe option) whose code is a 2.xx other than
2.05 / 2.03 ends the observation.

Run with cwd = the aiocoap tree under test.  Exit 0 (unchanged tree): every response that carries
an Observe option is a notification, the observation lives on.  Exit 1 (tree with miss2.diff): the
2.04 notification is handed over and followed by ObservationCancelled, the token is forgotten and
the next (fresher) notification is rejected as an unknown response.

Real aiocoap Context / Request / ClientObservation / TokenManager; only the layer below the token
manager (message layer + socket) is replaced by a scripted peer."""

import asyncio
import logging
import os
import sys

sys.path.insert(0, os.getcwd())

import aiocoap
from aiocoap import Message
from aiocoap.numbers.codes import Code
from aiocoap.protocol import Context
from aiocoap.tokenmanager import TokenManager

print("aiocoap from", aiocoap.__file__)
logging.getLogger("coap").setLevel(logging.CRITICAL)


class Remote:
    is_multicast = False
    is_multicast_locally = False
    scheme = "coap"
    maximum_block_size_exp = 6
    maximum_payload_size = 1124
    hostinfo = "peer"
    hostinfo_local = "me"
    uri_base = "coap://peer"
    uri_base_local = "coap://me"
    blockwise_key = "peer"

    def as_response_address(self):
        return self


class Below:
    """Stands in for the message layer: records the requests the client sends"""

    def __init__(self):
        self.sent = []

    def send_message(self, message, messageerror_monitor):
        self.sent.append(message)

    async def recognize_remote(self, message):
        return isinstance(message.remote, Remote)

    async def determine_remote(self, message):
        return None

    async def shutdown(self):
        pass



async def settle():
    for _ in range(20):
        await asyncio.sleep(0)


async def run(handle_blockwise):
    ctx = Context()
    tman = TokenManager(ctx)
    below = Below()
    tman.token_interface = below
    ctx.request_interfaces.append(tman)
    peer = Remote()

    def from_peer(token, **kw):
        m = Message(**kw)
        m.token = token
        m.remote = peer
        return tman.process_response(m)  # False: "unknown response" (the message layer answers a CON with RST)

    request = Message(code=Code.GET, uri_path=["obs"], observe=0)
    request.remote = peer
    req = ctx.request(request, handle_blockwise=handle_blockwise)
    await settle()
    token = below.sent[0].token

    handed, ends = [], []

    async def consume():
        try:
            async for n in req.observation:
                handed.append((str(n.code), n.opt.observe))
            ends.append("StopAsyncIteration (NotObservable / ObservationCancelled)")
        except Exception as e:
            ends.append(type(e).__name__)

    consumer = asyncio.create_task(consume())
    matched = [from_peer(token, code=Code.CONTENT, observe=5, payload=b"s5")]
    await req.response
    await settle()
    matched.append(from_peer(token, code=Code.CHANGED, observe=6, payload=b"s6"))
    await settle()
    matched.append(from_peer(token, code=Code.CONTENT, observe=7, payload=b"s7"))
    await settle()
    consumer.cancel()

    print("interface:", "BlockwiseRequest" if handle_blockwise else "plain Request")
    print("  arrivals: 2.05 Observe=5 (first response), 2.04 Observe=6, 2.05 Observe=7 -- none without Observe option")
    print("  matched to the observation:", matched)
    print("  handed over:", handed)
    print("  end signalled:", ends or "no")
    bad = 0
    if ends:
        print("  VIOLATED: the observation ended although no response without Observe option arrived and no transport failed")
        bad = 1
    if not handed or handed[-1][1] != 7:
        print("  VIOLATED: the freshest notification that arrived (Observe=7) was not handed over")
        bad = 1
    if not all(matched):
        print("  VIOLATED: a notification of the live observation was rejected like an unknown response")
        bad = 1
    return bad


async def main():
    return (await run(False)) | (await run(True))


sys.exit(asyncio.run(main()))
