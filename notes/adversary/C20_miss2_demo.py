"""C20 miss 2: lookups list every live registration "with the links ... of its
latest successful write".  A registered link that carries an explicit anchor
(RFC 9176 section 5 example: a link *about* a resource of the endpoint, hosted
elsewhere) must come back from the resource lookup with that anchor, resolved
against the registration base.

Run with cwd = the tree under test.  Exit 0: property holds; exit 1: violated.
The resource directory site is rendered directly (no sockets).
"""


import asyncio
import os
import sys

sys.path.insert(0, os.getcwd())  # the tree under test, not an installed aiocoap

import aiocoap  # noqa: E402
from aiocoap import Message, error
from aiocoap.numbers import codes

print("aiocoap from", aiocoap.__file__)

from aiocoap.cli.rd import StandaloneResourceDirectory  # noqa: E402


class Peer:
    """Stand-in for the registrant's network address."""

    def __init__(self, n):
        self.uri = "coap://[2001:db8::%d]" % n
        self.uri_base = self.uri
        self.hostinfo = "[2001:db8::%d]" % n
        self.is_multicast = False
        self.is_multicast_locally = False
        self.scheme = "coap"
        self.maximum_block_size_exp = 6
        self.maximum_payload_size = 1124
        self.blockwise_key = ("peer", n)


async def call(site, code, path, query=(), remote=None, **kw):
    req = Message(code=code, uri_path=path, uri_query=query, **kw)
    req.remote = remote or Peer(9)
    req.direction = aiocoap.message.Direction.INCOMING
    try:
        resp = await site.render(req)
    except error.RenderableError as e:
        resp = e.to_message()
    if resp.code is None:
        resp.code = codes.CONTENT if code == codes.GET else codes.CHANGED
    return resp


async def lookups(site):
    ep = await call(site, codes.GET, site.ep_lookup_path)
    res = await call(site, codes.GET, site.res_lookup_path)
    return ep.payload.decode(), res.payload.decode()


async def main():
    site = StandaloneResourceDirectory(context=None)
    node = Peer(1)
    payload = (
        b'</sensors/temp>;rt="temperature-c",'
        b'<http://www.example.com/sensors/t123>;anchor="/sensors/temp";rel="describedby"'
    )
    r = await call(site, codes.POST, site.rd_path, ("ep=node1", "lt=60"), node, payload=payload, content_format=40)
    print("registration ->", r.code, "/" + "/".join(r.opt.location_path))
    assert r.code == codes.CREATED, r.code
    ep, res = await lookups(site)
    print("  endpoint lookup:", ep)
    print("  resource lookup:", res)
    for reg in list(site.common_rd.get_endpoints()):
        reg.delete()

    want = '<http://www.example.com/sensors/t123>;rel="describedby";anchor="coap://[2001:db8::1]/sensors/temp"'
    got = [x for x in res.split(",") if x.startswith("<http://www.example.com/sensors/t123>")]
    assert '<coap://[2001:db8::1]/sensors/temp>;rt="temperature-c"' in res.split(",")
    if got != [want]:
        print("VIOLATED (C20: each listed with the links of its latest successful write):")
        print("  registered: <http://www.example.com/sensors/t123>;anchor=\"/sensors/temp\";rel=\"describedby\"")
        print("  expected  :", want)
        print("  looked up :", got)
        return 1
    return 0


sys.exit(asyncio.run(main()))
