"""C20 miss 1: a *simple registration* (POST /.well-known/rd, RFC 9176 section 5.1)
that is answered with 4.xx must leave the directory unchanged.

Run with cwd = the tree under test.  Exit 0: property holds; exit 1: violated.

The resource directory site is rendered directly (no sockets).  The outgoing
context the RD uses to fetch the registrant's /.well-known/core is a stub that
either serves a link-format document or answers 4.04.
"""

import asyncio
import os
import sys

sys.path.insert(0, os.getcwd())  # the tree under test, not an installed aiocoap

import aiocoap  # noqa: E402
from aiocoap import Message, error
from aiocoap.numbers import codes

print("aiocoap from", aiocoap.__file__)

from aiocoap.cli.rd import StandaloneResourceDirectory  # noqa: E402


class Peer:
    """Stand-in for the registrant's network address."""

    def __init__(self, n):
        self.uri = "coap://[2001:db8::%d]" % n
        self.uri_base = self.uri
        self.hostinfo = "[2001:db8::%d]" % n
        self.is_multicast = False
        self.is_multicast_locally = False
        self.scheme = "coap"
        self.maximum_block_size_exp = 6
        self.maximum_payload_size = 1124
        self.blockwise_key = ("peer", n)


class StubRequest:
    def __init__(self, coro):
        self.response_raising = asyncio.ensure_future(coro)


class StubContext:
    """What the RD sees of the registrant's /.well-known/core."""

    def __init__(self):
        self.wkc = b'</sensors/temp>;rt="temperature-c"'  # None: the node answers 4.04

    def request(self, msg):
        async def answer():
            if self.wkc is None:
                raise error.ResponseWrappingError(Message(code=codes.NOT_FOUND))
            r = Message(code=codes.CONTENT, payload=self.wkc, content_format=40)
            r.request = msg
            return r

        return StubRequest(answer())


async def call(site, code, path, query=(), remote=None, **kw):
    req = Message(code=code, uri_path=path, uri_query=query, **kw)
    req.remote = remote or Peer(9)
    req.direction = aiocoap.message.Direction.INCOMING
    try:
        resp = await site.render(req)
    except error.RenderableError as e:
        resp = e.to_message()
    if resp.code is None:
        resp.code = codes.CONTENT if code == codes.GET else codes.CHANGED
    return resp


async def lookups(site):
    ep = await call(site, codes.GET, site.ep_lookup_path)
    res = await call(site, codes.GET, site.res_lookup_path)
    return ep.payload.decode(), res.payload.decode()


async def main():
    ctx = StubContext()
    site = StandaloneResourceDirectory(context=ctx)
    node = Peer(1)
    bad = []

    # 1. successful simple registration of "node1", lifetime 60 s
    r = await call(site, codes.POST, (".well-known", "rd"), ("ep=node1", "lt=60"), node)
    print("simple registration                     ->", r.code)
    assert r.code.is_successful(), r.code
    before = await lookups(site)
    print("  endpoint lookup:", before[0])
    print("  resource lookup:", before[1])
    assert "node1" in before[0] and "/sensors/temp" in before[1]

    # 2. the node re-registers while its /.well-known/core cannot be fetched: 4.xx
    ctx.wkc = None
    r = await call(site, codes.POST, (".well-known", "rd"), ("ep=node1", "lt=60"), node)
    print("simple re-registration, fetch fails     ->", r.code)
    assert r.code.class_ == 4, r.code
    after = await lookups(site)
    print("  endpoint lookup:", after[0])
    print("  resource lookup:", after[1])
    if after != before:
        bad.append("a re-registration answered %s changed the directory (links of the latest successful write lost)" % r.code)

    # 3. a node that was never registered tries, and fails: 4.xx
    r = await call(site, codes.POST, (".well-known", "rd"), ("ep=node2",), Peer(2))
    print("simple registration of node2, fetch fails ->", r.code)
    assert r.code.class_ == 4, r.code
    after2 = await lookups(site)
    print("  endpoint lookup:", after2[0])
    if "node2" in after2[0]:
        bad.append("a registration answered %s created an endpoint that lookups list" % r.code)

    # let the registration timers be cancelled cleanly
    for reg in list(site.common_rd.get_endpoints()):
        reg.delete()

    for b in bad:
        print("VIOLATED (C20: a registration request answered with 4.xx leaves the directory unchanged):", b)
    return 1 if bad else 0


sys.exit(asyncio.run(main()))
