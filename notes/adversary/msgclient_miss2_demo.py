"""C14 demo: a request held back behind a confirmable (separate) response must be transmitted or failed once that exchange times out."""
# --- minimal deterministic bench: real TokenManager + MessageManager, fake timers and wire ------------
import heapq, logging, os, sys
sys.path.insert(0, os.getcwd())
import aiocoap
print("aiocoap from", aiocoap.__file__)
from aiocoap import Message, GET, CONTENT
from aiocoap.numbers.codes import EMPTY
from aiocoap.numbers.types import CON, NON, ACK, RST
from aiocoap.numbers.constants import TransportTuning
from aiocoap.messagemanager import MessageManager
from aiocoap.tokenmanager import TokenManager
from aiocoap.pipe import Pipe
from aiocoap import error


class Handle:
    def __init__(self, when, cb, args):
        self.when, self.cb, self.args, self.cancelled_ = when, cb, args, False
    def cancel(self):
        self.cancelled_ = True
    def cancelled(self):
        return self.cancelled_
    def __lt__(self, other):
        return self.when < other.when


class FakeLoop:
    """Only what MessageManager uses: call_later / time; timers are run by run()."""
    def __init__(self):
        self.now, self.timers, self.n = 0.0, [], 0
    def time(self):
        return self.now
    def call_later(self, delay, cb, *args):
        h = Handle(self.now + delay, cb, args)
        self.n += 1
        heapq.heappush(self.timers, (h.when, self.n, h))
        return h
    def run(self, until=None):
        while self.timers and (until is None or self.timers[0][0] <= until):
            when, _, h = heapq.heappop(self.timers)
            if h.cancelled_:
                continue
            self.now = max(self.now, when)
            h.cb(*h.args)
        if until is not None:
            self.now = max(self.now, until)


class Remote:
    """A UDP peer (host, port)."""
    is_multicast = False
    is_multicast_locally = False
    def __init__(self, host, port=5683):
        self.key = (host, port)
    def __eq__(self, other):
        return isinstance(other, Remote) and self.key == other.key
    def __hash__(self):
        return hash(self.key)
    def __repr__(self):
        return "<Remote %s:%d>" % self.key
    def as_response_address(self):
        return self


class Wire:
    """Message interface: records (time, remote, type, mid, token, bytes) of everything sent."""
    def __init__(self, loop):
        self.loop, self.sent = loop, []
    def send(self, message):
        self.sent.append((self.loop.now, message.remote, message.mtype, message.mid, message.token, message.encode()))
    async def shutdown(self):
        pass


class Ctx:
    def __init__(self, loop):
        self.loop = loop
        self.log = logging.getLogger("demo")
        self.client_credentials = None
    def render_to_pipe(self, pipe):
        pass


class Bench:
    def __init__(self):
        self.loop = FakeLoop()
        self.tman = TokenManager(Ctx(self.loop))
        self.mman = MessageManager(self.tman)
        self.tman.token_interface = self.mman
        self.wire = Wire(self.loop)
        self.mman.message_interface = self.wire
        self.outcome = {}
    def request(self, name, remote, tuning):
        """Application submits a request; outcome[name] becomes ('resp', msg) or ('err', exc)."""
        m = Message(code=GET, uri_path=[name], transport_tuning=tuning)
        m.remote = remote
        pipe = Pipe(m, self.tman.log)
        def on_event(ev, name=name):
            self.outcome[name] = ("err", ev.exception) if ev.exception is not None else ("resp", ev.message)
            return not ev.is_last
        pipe.on_event(on_event)
        self.tman.request(pipe)
        return m
    def deliver(self, remote, mtype, mid, code=EMPTY, token=b"", payload=b""):
        m = Message(code=code, payload=payload)
        m.mtype, m.mid, m.token = mtype, mid, token
        m.remote = remote
        self.mman.dispatch_message(m)
    def copies(self, msg):
        return [s for s in self.wire.sent if s[1] == msg.remote and s[3] == msg.mid and s[2] is CON]
# --- end of bench ----------------------------------------------------------------------------------------

class Rel(TransportTuning):
    reliability = True

b = Bench()
peer = Remote("2001:db8::1")

# Server role: the peer's CON request was answered with an empty ACK long ago; now the (separate) response is
# ready and goes out as a confirmable message of its own.
lost_interest = []
resp = Message(code=CONTENT, payload=b"late answer", transport_tuning=Rel())
resp.token = b"\xd1\x01"
resp.remote = peer
b.mman.send_message(resp, lambda: lost_interest.append(b.loop.now))
assert b.wire.sent and b.wire.sent[0][2] is CON, "separate response should have gone out as CON"

# Client role, same peer, one second later: NSTART=1 holds the request back behind the open exchange.
b.loop.run(until=1.0)
req = b.request("q1", peer, Rel())
assert not b.copies(req), "request should be held back while the response awaits its ACK"

# The peer has gone: neither ACK nor RST ever arrives.
b.loop.run()
print("response copies at", [s[0] for s in b.copies(resp)], "responder told at", lost_interest)
print("held-back request transmitted:", [s[0] for s in b.copies(req)], "outcome:", b.outcome.get("q1"))
if not b.copies(req) and "q1" not in b.outcome:
    print("C14 VIOLATED: the exchange ahead of the held-back request timed out at t=%.0f, yet the request was neither\n"
          "  transmitted nor failed -- it is forgotten (the application awaits its response forever)" % b.loop.now)
    sys.exit(1)
print("ok")
