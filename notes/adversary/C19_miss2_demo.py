"""C19 miss 2: NUL bytes removed from the joined path *after* the component filter.

Run with cwd = the tree under test:  cd <tree> && python /tmp/adv/C19/miss2_demo.py
exit 0: nothing outside the root was touched; exit 1: a Uri-Path component
"..\\0" (dot dot NUL) passed the "." / ".." filter, lost its NUL and took the
request out of the root.
"""

import asyncio
import logging
import os
import shutil
import sys
import tempfile
from pathlib import Path

sys.path.insert(0, os.getcwd())
import aiocoap  # noqa: E402
from aiocoap.cli.fileserver import FileServer  # noqa: E402
from aiocoap.message import Direction  # noqa: E402

print("aiocoap from", aiocoap.__file__)

T = os.path.realpath(tempfile.mkdtemp(prefix="c19-miss2-"))
ROOT = T + "/top/srv"
os.makedirs(ROOT)
open(ROOT + "/a", "w").write("inside")
open(T + "/top/secret", "w").write("OUTSIDE THE ROOT")

log = logging.getLogger("demo")
log.addHandler(logging.NullHandler())
log.propagate = False


def req(code, path, **kw):
    m = aiocoap.Message(code=code, uri_path=path, **kw)
    m.direction = Direction.INCOMING
    return m


async def ask(fs, code, path, **kw):
    try:
        r = await fs.render(req(code, path, **kw))
    except aiocoap.error.RenderableError as e:
        r = e.to_message()
    except Exception as e:  # what the library turns into 5.00
        print("  (%s %r raised %r)" % (code, path, e))
        r = aiocoap.Message(code=aiocoap.INTERNAL_SERVER_ERROR)
    print("  %s %r -> %s %r" % (code, path, r.code, r.payload[:40]))
    return r


async def main():
    bad = []
    ro = FileServer(Path(ROOT), log, write=False)
    rw = FileServer(Path(ROOT), log, write=True)
    for dd in ("..\0", ".\0.", "\0.."):
        r = await ask(ro, aiocoap.GET, (dd, "secret"))
        if r.code.is_successful() or b"OUTSIDE" in r.payload:
            bad.append("GET (%r, 'secret') read %s/top/secret: %r" % (dd, T, r.payload))
    r = await ask(ro, aiocoap.GET, ("..\0", ""))
    if r.code.is_successful():
        bad.append("GET listed %s/top: %r" % (T, r.payload))
    r = await ask(rw, aiocoap.PUT, ("..\0", "planted"), payload=b"x")
    if os.path.exists(T + "/top/planted") or r.code.is_successful():
        bad.append("PUT created %s/top/planted" % T)
    r = await ask(rw, aiocoap.DELETE, ("..\0", "secret"))
    if not os.path.exists(T + "/top/secret") or r.code.is_successful():
        bad.append("DELETE removed %s/top/secret" % T)
    r = await ask(ro, aiocoap.GET, ("a",))
    assert r.payload == b"inside", r.payload
    r = await ask(ro, aiocoap.GET, ("..", "secret"))
    assert not r.code.is_successful()
    return bad


try:
    bad = asyncio.run(main())
finally:
    shutil.rmtree(T, ignore_errors=True)
if bad:
    print("C19 VIOLATED (objects outside the root touched):")
    for b in bad:
        print("  -", b)
    sys.exit(1)
print("ok: nothing outside the root was touched")
