"""C16 miss 4: a dotted quad that is not an IPv4address (a label > 255) is a reg-name
(RFC 3986 3.2.2: dec-octet = 0..255, anything else falls through to reg-name), so RFC 7252
6.4 step 5 requires Uri-Host.  Run with cwd = the tree under test.  Exit 0: Uri-Host is
set for such names; exit 1: they are taken for IP literals and lose their Uri-Host."""
import os
import sys

sys.path.insert(0, os.getcwd())  # the tree under test, not an installed aiocoap
import aiocoap
from aiocoap import Message, GET

print(aiocoap.__file__)
bad = []
for host in ("256.1.1.1", "999.1.1.1", "1.2.3.256", "300.300.300.300"):
    for tail in ("/", ":61616/a?b"):
        uri = "coap://" + host + tail
        m = Message(code=GET, uri=uri)
        if m.opt.uri_host != host:
            bad.append(("decompose: Uri-Host", uri, m.opt.uri_host))
# sanity: real literals still have none
for uri in ("coap://1.2.3.4/", "coap://255.255.255.255:5683/x"):
    m = Message(code=GET, uri=uri)
    if m.opt.uri_host is not None:
        bad.append(("IPv4 literal with Uri-Host", uri, m.opt.uri_host))
for x in bad:
    print("VIOLATED:", x)
sys.exit(1 if bad else 0)
