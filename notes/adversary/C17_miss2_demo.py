"""miss2: /.well-known/core names exactly the registered resources that do not
hide themselves.  A resource that implements aiocoap.interfaces.Resource
directly (no get_link_description at all) does not hide itself and has to be
listed (without attributes), at the root and through nested sites.

Run with cwd = the aiocoap tree.  Exit 0: listed.  Exit 1: missing."""

import asyncio
import os
import sys

sys.path.insert(0, os.getcwd())  # cwd = the tree under test

import aiocoap
from aiocoap import resource, interfaces, Message, GET, CONTENT
from aiocoap.message import Direction

print(aiocoap.__file__)


class Bare(interfaces.Resource):
    """Minimal implementation of the documented interface -- not derived from
    resource.Resource, hence without get_link_description."""

    async def needs_blockwise_assembly(self, request):
        return True

    async def render(self, request):
        return Message(code=CONTENT, payload=b"bare")

    async def render_to_pipe(self, pipe):
        await interfaces.Resource._render_to_pipe(self, pipe)


class Hidden(resource.Resource):
    def get_link_description(self):
        return None

    async def render_get(self, request):
        return Message(payload=b"hidden")


class Remote:
    is_multicast = False
    is_multicast_locally = False


async def get(site, path, query=()):
    m = Message(code=GET, uri_path=path, uri_query=query)
    m.direction = Direction.INCOMING
    m.remote = Remote()
    return await site.render(m)


async def main():
    root = resource.Site()
    root.add_resource(
        [".well-known", "core"],
        resource.WKCResource(root.get_resources_as_linkheader, impl_info=None),
    )
    sub = resource.Site()
    root.add_resource(["bare"], Bare())
    root.add_resource(["hidden"], Hidden())
    root.add_resource(["sub"], sub)
    sub.add_resource(["bare"], Bare())

    # both are registered and served ...
    assert (await get(root, ["bare"])).payload == b"bare"
    assert (await get(root, ["sub", "bare"])).payload == b"bare"
    # ... so both have to be named by the listing (the hidden one must not)
    listing = (await get(root, [".well-known", "core"])).payload.decode()
    print("listing:", listing)
    hrefs = sorted(l.split(">")[0].lstrip("<") for l in listing.split(",") if l)
    want = sorted(["/.well-known/core", "/bare", "/sub/bare"])
    if hrefs != want:
        print("WRONG: listed %r, registered and not hiding %r" % (hrefs, want))
        return 1
    print("ok")
    return 0


sys.exit(asyncio.run(main()))
