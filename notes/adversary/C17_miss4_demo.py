"""miss4: RFC 6690 filter values are compared octet by octet; `?rt=Temp*` must not
select rt="temperature", `?href=/Sensors*` must not select </sensors/...>.

Run with cwd = the aiocoap tree.  Exit 0: exact subset.  Exit 1: case-folded
comparison returns links that do not match."""

import asyncio
import os
import sys

sys.path.insert(0, os.getcwd())  # cwd = the tree under test

import aiocoap
from aiocoap import resource, Message, GET
from aiocoap.message import Direction

print(aiocoap.__file__)


class R(resource.Resource):
    def __init__(self, **a):
        super().__init__()
        self.a = a

    def get_link_description(self):
        return dict(self.a)


class Remote:
    is_multicast = False
    is_multicast_locally = False


async def wkc(site, q):
    m = Message(code=GET, uri_path=[".well-known", "core"], uri_query=[q])
    m.direction = Direction.INCOMING
    m.remote = Remote()
    return (await site.render(m)).payload.decode()


async def main():
    s = resource.Site()
    s.add_resource(
        [".well-known", "core"],
        resource.WKCResource(s.get_resources_as_linkheader, impl_info=None),
    )
    s.add_resource(["sensors", "t"], R(rt="temperature", title="Sensor"))
    s.add_resource(["Sensors", "t"], R(rt="Temperature"))
    lower = '</sensors/t>;rt="temperature";title="Sensor"'
    upper = '</Sensors/t>;rt="Temperature"'
    bad = 0
    for q, want in [
        ("rt=temperature", lower),
        ("rt=Temp*", upper),
        ("rt=TEMPERATURE", ""),
        ("href=/Sensors*", upper),
        ("title=sensor", ""),
    ]:
        got = await wkc(s, q)
        ok = got == want
        print("%-18s -> %-80r %s" % (q, got, "ok" if ok else "WRONG, expected %r" % want))
        bad += not ok
    return 1 if bad else 0


sys.exit(asyncio.run(main()))
