"""C09 miss 1: the diagnostic payload of a raised renderable error is lost.

Statement sentence violated: "a raised renderable error is sent with its own code
and diagnostic payload".

Run with cwd = the tree to be examined (so that `import aiocoap` resolves to it).
Exit 0: every request below got its one response with the right code AND the
diagnostic text the handler raised the error with.  Exit 1 otherwise.

The requests go through the real TokenManager.process_request ->
Context.render_to_pipe -> error_to_message / run_driving_pipe -> Site ->
Resource.render; only the message layer below the token manager is replaced by a
recorder (no sockets needed).
"""

import asyncio
import logging
import os
import struct
import sys

sys.path.insert(0, os.getcwd())  # the tree in the current directory, not an installed copy

import aiocoap
from aiocoap import Message, error, resource
from aiocoap.numbers.codes import Code
from aiocoap.tokenmanager import TokenManager

print("aiocoap from", aiocoap.__file__)
logging.disable(logging.CRITICAL)


class Remote:
    """Minimal stand-in for a transport's endpoint address"""

    is_multicast = False
    is_multicast_locally = False
    maximum_payload_size = 1024
    maximum_block_size_exp = 6
    scheme = "coap"
    hostinfo = "peer"
    hostinfo_local = "me"
    uri_base = "coap://peer"
    uri_base_local = "coap://me"
    authenticated_claims = ()

    @property
    def blockwise_key(self):
        return ("peer",)

    def as_response_address(self):
        return self


class Recorder:
    """Stands where the MessageManager would: records what the token manager hands down"""

    def __init__(self):
        self.sent = []

    def send_message(self, message, messageerror_monitor):
        self.sent.append(message)


def raw_request(code, token, path, con=True):
    data = struct.pack("!BBH", 0x40 | (0 if con else 0x10) | len(token), code, 0x1234) + token
    prev = 0
    for seg in path:
        seg = seg.encode()
        assert len(seg) < 13
        data += bytes([((11 - prev) << 4) | len(seg)]) + seg
        prev = 11
    return data


CASES = [
    ("bad", error.BadRequest, "lt must be numeric", Code.BAD_REQUEST),
    ("gone", error.NotFound, "no such sensor", Code.NOT_FOUND),
    ("denied", error.Forbidden, "read-only resource", Code.FORBIDDEN),
    ("busy", error.ServiceUnavailable, "calibrating, retry later", Code.SERVICE_UNAVAILABLE),
]


class Raising(resource.Resource):
    def __init__(self, cls, text):
        super().__init__()
        self.cls, self.text = cls, text

    async def render_get(self, request):
        raise self.cls(self.text)


async def main():
    site = resource.Site()
    for name, cls, text, _ in CASES:
        site.add_resource([name], Raising(cls, text))
    ctx = aiocoap.Context(serversite=site)
    tm = TokenManager(ctx)
    rec = Recorder()
    tm.token_interface = rec

    failures = 0
    for i, (name, cls, text, code) in enumerate(CASES):
        token = bytes([0xA0 + i])
        before = len(rec.sent)
        tm.process_request(Message.decode(raw_request(1, token, [name]), Remote()))
        for _ in range(20):
            await asyncio.sleep(0)
        got = rec.sent[before:]
        ok = len(got) == 1 and got[0].code == code and got[0].token == token and got[0].payload == text.encode()
        print(
            "%-4s GET /%-7s handler raises %s(%r): %s"
            % ("ok" if ok else "BAD", name, cls.__name__, text,
               ["%s token=%s payload=%r" % (m.code, m.token.hex(), m.payload) for m in got])
        )
        failures += not ok
    return failures


failures = asyncio.run(main())
if failures:
    print("VIOLATED: %d renderable error(s) were sent without the diagnostic payload they were raised with" % failures)
    sys.exit(1)
print("all renderable errors carried their own code and diagnostic payload")
