"""miss7: "... otherwise by the nested site registered at the LONGEST proper prefix
of the path ...; adding or removing a resource takes effect for the next
request."  A nested site added at a longer prefix of a path that has been
requested before must serve the very next request for that path.

Run with cwd = the aiocoap tree.  Exit 0: the new registration takes effect.
Exit 1: the request is still rendered by the site at the shorter prefix."""

import asyncio
import os
import sys

sys.path.insert(0, os.getcwd())  # cwd = the tree under test

import aiocoap
from aiocoap import resource, error, Message, GET
from aiocoap.message import Direction

print(aiocoap.__file__)


class Who(resource.Resource, resource.PathCapable):
    """catch-all below its mount point: tells who it is and what it was given"""

    def __init__(self, name):
        super().__init__()
        self.name = name

    async def render_get(self, request):
        return Message(payload=("%s saw %s" % (self.name, "/".join(request.opt.uri_path))).encode())


class Remote:
    is_multicast = False
    is_multicast_locally = False


async def get(site, path):
    m = Message(code=GET, uri_path=path)
    m.direction = Direction.INCOMING
    m.remote = Remote()
    try:
        return (await site.render(m)).payload.decode()
    except error.RenderableError as e:
        return str(e.to_message().code)


async def main():
    root = resource.Site()
    root.add_resource(["a"], Who("outer"))
    bad = 0
    first = await get(root, ["a", "b", "c"])
    print("GET /a/b/c ->", first)
    bad += first != "outer saw b/c"

    root.add_resource(["a", "b"], Who("inner"))  # longer prefix of /a/b/c
    fresh = await get(root, ["a", "b", "d"])  # a path nobody asked for before
    print("add /a/b; GET /a/b/d ->", fresh)
    bad += fresh != "inner saw d"
    again = await get(root, ["a", "b", "c"])  # the path requested before the add
    print("         GET /a/b/c ->", again, "" if again == "inner saw c" else "  WRONG: longest registered prefix is /a/b (inner)")
    bad += again != "inner saw c"

    root.remove_resource(["a", "b"])
    back = await get(root, ["a", "b", "c"])
    print("remove /a/b; GET /a/b/c ->", back)
    bad += back != "outer saw b/c"
    return 1 if bad else 0


sys.exit(asyncio.run(main()))
