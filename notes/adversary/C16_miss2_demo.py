"""C16 miss 2: Unicode normalisation of decoded path / query segments.

"e" + U+0301 (combining acute) and U+00E9 are different code point sequences; RFC 7252 6.4
steps 8/9 only percent-decode.  Run with cwd = the tree under test.  Exit 0: the segments are
the percent-decoded text and the two resources stay distinct; exit 1 otherwise."""
import os
import sys

sys.path.insert(0, os.getcwd())  # the tree under test, not an installed aiocoap
import aiocoap
from aiocoap import Message, GET

print(aiocoap.__file__)
bad = []

cases = [
    # (URI, expected Uri-Path, expected Uri-Query)
    ("coap://host/caf%65%CC%81", ("cafe\u0301",), ()),            # decomposed e-acute
    ("coap://host/caf%C3%A9", ("caf\u00e9",), ()),                 # precomposed e-acute
    ("coap://host/x?n=%E1%84%80%E1%85%A1", ("x",), ("n=\u1100\u1161",)),  # Hangul jamo (NFC: U+AC00)
    ("coap://host/%E2%84%AB", ("\u212b",), ()),                    # ANGSTROM SIGN (NFC: U+00C5)
]
for uri, path, query in cases:
    m = Message(code=GET, uri=uri)
    if m.opt.uri_path != path or m.opt.uri_query != query:
        bad.append(("decompose", uri, [ascii(s) for s in m.opt.uri_path], [ascii(s) for s in m.opt.uri_query]))
    g = m.get_request_uri()
    m2 = Message(code=GET, uri=g)
    if (m2.opt.uri_path, m2.opt.uri_query) != (path, query):
        bad.append(("compose/decompose", uri, g))

# distinct resources must not collapse
a = Message(code=GET, uri="coap://host/caf%65%CC%81")
b = Message(code=GET, uri="coap://host/caf%C3%A9")
if a.opt.uri_path == b.opt.uri_path or a.get_request_uri() == b.get_request_uri():
    bad.append(("collapse", a.get_request_uri(), b.get_request_uri()))

# options -> URI -> options
for seg in ("cafe\u0301", "\u212b", "\u1100\u1161"):
    m = Message(code=GET, uri="coap://host/")
    m.opt.uri_path = (seg,)
    back = Message(code=GET, uri=m.get_request_uri()).opt.uri_path
    if back != (seg,):
        bad.append(("options->URI->options", ascii(seg), [ascii(s) for s in back]))

for x in bad:
    print("VIOLATED:", x)
sys.exit(1 if bad else 0)
