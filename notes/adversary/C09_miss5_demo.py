"""C09 miss 5: an exception that is not a RenderableError is answered with its own content
instead of a bare 5.00.

Statement sentence violated: "any other exception ... produce[s] a bare 5.00 that
leaks no exception text".  error.ResponseWrappingError (what a gateway-style
handler gets from `await ctx.request(...).response_raising`) derives from
error.Error only; the statement's table gives it 5.00 without payload.

Run with cwd = the tree to be examined.  Exit 0: the requests whose handler raised
a non-renderable exception got a 5.00 without payload.  Exit 1 otherwise.
"""

import asyncio
import logging
import os
import struct
import sys

sys.path.insert(0, os.getcwd())  # the tree in the current directory, not an installed copy

import aiocoap
from aiocoap import Message, error, resource
from aiocoap.numbers.codes import Code
from aiocoap.tokenmanager import TokenManager

print("aiocoap from", aiocoap.__file__)
logging.disable(logging.CRITICAL)


class Remote:
    """Minimal stand-in for a transport's endpoint address"""

    is_multicast = False
    is_multicast_locally = False
    maximum_payload_size = 1024
    maximum_block_size_exp = 6
    scheme = "coap"
    hostinfo = "peer"
    hostinfo_local = "me"
    uri_base = "coap://peer"
    uri_base_local = "coap://me"
    authenticated_claims = ()

    @property
    def blockwise_key(self):
        return ("peer",)

    def as_response_address(self):
        return self


class Recorder:
    """Stands where the MessageManager would: records what the token manager hands down"""

    def __init__(self):
        self.sent = []

    def send_message(self, message, messageerror_monitor):
        self.sent.append(message)


def raw_request(code, token, path, con=True):
    data = struct.pack("!BBH", 0x40 | (0 if con else 0x10) | len(token), code, 0x1234) + token
    prev = 0
    for seg in path:
        seg = seg.encode()
        assert len(seg) < 13
        data += bytes([((11 - prev) << 4) | len(seg)]) + seg
        prev = 11
    return data



SECRET = b"upstream says: token 8f3a-s3cr3t invalid for backend db-7"


class Gateway(resource.Resource):
    async def render_get(self, request):
        upstream = Message(code=Code.UNAUTHORIZED, payload=SECRET)   # what the backend answered
        raise error.ResponseWrappingError(upstream)


class Timeouting(resource.Resource):
    async def render_get(self, request):
        raise error.ConRetransmitsExceeded("backend 10.0.0.7 did not answer")


async def main():
    site = resource.Site()
    site.add_resource(["gw"], Gateway())
    site.add_resource(["to"], Timeouting())
    ctx = aiocoap.Context(serversite=site)
    tm = TokenManager(ctx)
    rec = Recorder()
    tm.token_interface = rec
    failures = 0
    for i, name in enumerate(["gw", "to"]):
        token = bytes([0xE0 + i])
        before = len(rec.sent)
        tm.process_request(Message.decode(raw_request(1, token, [name]), Remote()))
        for _ in range(20):
            await asyncio.sleep(0)
        got = rec.sent[before:]
        ok = len(got) == 1 and got[0].code == Code.INTERNAL_SERVER_ERROR and got[0].payload == b"" and got[0].token == token
        print("%-4s GET /%s want one bare 5.00, got %s"
              % ("ok" if ok else "BAD", name, ["%s token=%s payload=%r" % (m.code, m.token.hex(), m.payload) for m in got]))
        failures += not ok
    return failures


failures = asyncio.run(main())
if failures:
    print("VIOLATED: %d non-renderable exception(s) were not answered with a bare 5.00" % failures)
    sys.exit(1)
print("every non-renderable exception produced a bare 5.00")
