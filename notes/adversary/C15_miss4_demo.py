"""miss4 demo -- "Release or Abort from the peer fail the pending requests with a
network error" is false while the connection has a write backlog: the error is
only reported from connection_lost, which asyncio calls after transport.close()
has flushed the write buffer -- and a peer that has released the connection
need not read any more.

Run with cwd = the aiocoap tree under test (needs a loopback interface):

    cd <tree> && /venv/bin/python /tmp/adv/C15/miss4_demo.py

Situation: an aiocoap client has 8 PUT requests with 4 MiB payload each
pending on one coap+tcp connection.  The peer (raw asyncio server, no aiocoap)
sends CSM, does not read (TCP back-pressure: most of the requests sit in the
client's transport buffer), sends Release (7.04) and keeps the socket open.

exit 0: 3 s after the Release every request has failed with error.NetworkError
exit 1: requests still pending
"""

import os
import sys

sys.path.insert(0, os.getcwd())
os.environ["AIOCOAP_CLIENT_TRANSPORT"] = "tcpclient"

import asyncio

import aiocoap
from aiocoap import error

print("aiocoap from", aiocoap.__file__)

RELEASED = None
PEERS = []


async def peer(reader, writer):
    PEERS.append(asyncio.current_task())
    writer.write(bytes([0x00, 0xE1]))  # CSM
    await asyncio.sleep(1.5)  # not reading
    writer.write(bytes([0x00, 0xE4]))  # Release
    await writer.drain()
    RELEASED.set()
    try:
        await asyncio.sleep(5)  # still not reading, socket open
    except asyncio.CancelledError:
        pass
    writer.close()


async def main():
    global RELEASED
    RELEASED = asyncio.Event()
    server = await asyncio.start_server(peer, "127.0.0.1", 0)
    port = server.sockets[0].getsockname()[1]
    ctx = await aiocoap.Context.create_client_context()

    def put(i):
        msg = aiocoap.Message(code=aiocoap.PUT, uri="coap+tcp://127.0.0.1:%d/sink%d" % (port, i), payload=b"x" * (4 << 20))
        return asyncio.ensure_future(ctx.request(msg, handle_blockwise=False).response)

    futs = [put(0)]
    await asyncio.sleep(0.3)  # connection established, filed in the pool
    futs += [put(i) for i in range(1, 8)]
    await RELEASED.wait()
    await asyncio.wait(futs, timeout=3)
    states = []
    for f in futs:
        if not f.done():
            states.append("STILL PENDING")
        elif isinstance(f.exception(), error.NetworkError):
            states.append("NetworkError")
        else:
            states.append(repr(f.exception() or f.result()))
    print("3 s after the peer's Release the 8 pending requests are:", states)
    for f in futs:
        f.cancel()
    server.close()
    for t in PEERS:
        t.cancel()
    await asyncio.gather(*PEERS, return_exceptions=True)
    try:
        await asyncio.wait_for(ctx.shutdown(), 2)
    except Exception:
        pass
    ok = all(s == "NetworkError" for s in states)
    print("OK: Release failed every pending request with a network error" if ok
          else "VIOLATED: Release from the peer left requests pending")
    return 0 if ok else 1


sys.exit(asyncio.run(main()))
