"""C11 miss 3: genuine notifications of one observation are refused when they arrive
twice or out of order -- the state lives in the RequestIdentifiers object the client
keeps for the observation (exactly what aiocoap/transports/oscore.py passes to every
unprotect() of that request), which the check re-creates for every delivery.

Run with cwd = the tree under test:
    cd <tree> && PYTHONPATH=<tree>:/verif/harness/shims /venv/bin/python /tmp/adv/C11/miss3_demo.py
exit 0: every genuine response, delivered with the identifiers of the request it answers,
        yields the original message -- whatever the order and multiplicity
exit 1: some genuine response does not
"""

import os
import sys

sys.path.insert(0, os.getcwd())
if "/verif/harness/shims" not in sys.path:
    sys.path.append("/verif/harness/shims")

import aiocoap
import aiocoap.oscore as oscore

print("aiocoap from", aiocoap.__file__)
assert os.path.realpath(aiocoap.__file__).startswith(os.path.realpath(os.getcwd())), "run me with cwd = the tree under test"


class Ctx(oscore.CanProtect, oscore.CanUnprotect, oscore.SecurityContextUtils):
    echo_recovery = None

    def post_seqnoincrease(self):
        pass


def mk(sender, recipient):
    c = Ctx()
    c.alg_aead = oscore.algorithms[oscore.DEFAULT_ALGORITHM]
    c.hashfun = oscore.hashfunctions[oscore.DEFAULT_HASHFUNCTION]
    c.sender_id, c.recipient_id, c.id_context = sender, recipient, None
    c.derive_keys(bytes.fromhex("9e7ca92223786340"), bytes.fromhex("0102030405060708090a0b0c0d0e0f10"))
    c.sender_sequence_number = 0
    c.recipient_replay_window = oscore.ReplayWindow(32, lambda: None)
    c.recipient_replay_window.initialize_empty()
    return c


def wire(outer, mid):
    outer.mtype, outer.mid, outer.token = aiocoap.NON, mid, b"\x70\x71"
    return outer.encode()


client, server = mk(b"\x01", b""), mk(b"", b"\x01")

# the client registers an observation; it KEEPS `client_rid` for as long as the observation lasts
req = aiocoap.Message(code=aiocoap.GET, uri_path=("sensors", "temp"), observe=0)
outer, client_rid = client.protect(req)
_, server_rid = server.unprotect(aiocoap.Message.decode(wire(outer, 1)))

# the server answers once with the request's nonce and then sends three notifications
plains, wires = [], []
for i in range(4):
    m = aiocoap.Message(code=aiocoap.CONTENT, payload=b"temperature reading #%d" % i, content_format=0, etag=b"tag%05d" % i)
    o, _ = server.protect(m, server_rid)
    plains.append(m)
    wires.append(wire(o, 10 + i))


def view(m):
    return (int(m.code), sorted((int(o.number), o.encode()) for o in m.opt.option_list() if int(o.number) != 6), bytes(m.payload))


# the network delivers: first response, notification 3, notification 1 (late), notification 2 (late), notification 3 again
order = [0, 3, 1, 2, 3]
failures = []
for step, i in enumerate(order):
    try:
        plain, _ = client.unprotect(aiocoap.Message.decode(wires[i]), client_rid)
    except Exception as e:
        failures.append("delivery %d: genuine response #%d for the right request was not unprotected: %s: %s" % (step, i, type(e).__name__, e))
        continue
    if view(plain) != view(plains[i]):
        failures.append("delivery %d: response #%d came out different" % (step, i))
    else:
        print("delivery %d: response #%d -> %s %r" % (step, i, plain.code, plain.payload))

# tampering and foreign requests are still refused (sanity)
outer2, other_rid = client.protect(aiocoap.Message(code=aiocoap.GET, uri_path=("other",)))
for what, raw, rid in (("foreign request", wires[2], other_rid),):
    try:
        client.unprotect(aiocoap.Message.decode(raw), rid)
    except oscore.ProtectionInvalid:
        pass
    else:
        failures.append("%s accepted" % what)

if failures:
    print("C11 VIOLATED (unprotecting a genuine protected response with the identifiers of its request does not yield the original):")
    for f in failures:
        print("  -", f)
    sys.exit(1)
print("OK: all genuine responses were unprotected to their originals")
sys.exit(0)
