"""miss6: "... otherwise the answer is 4.04" -- for every request whose path
matches neither a resource nor a nested site, whatever its method.

Run with cwd = the aiocoap tree.  Exit 0: 4.04 for all methods.  Exit 1: some
method gets a different answer for an unregistered path."""

import asyncio
import os
import sys

sys.path.insert(0, os.getcwd())  # cwd = the tree under test

import aiocoap
from aiocoap import resource, error, Message, GET, PUT, POST, DELETE, FETCH, NOT_FOUND
from aiocoap.message import Direction

print(aiocoap.__file__)


class Remote:
    is_multicast = False
    is_multicast_locally = False


async def code_of(site, method, path):
    m = Message(code=method, uri_path=path, payload=b"" if method in (GET, DELETE) else b"x")
    m.direction = Direction.INCOMING
    m.remote = Remote()
    try:
        return (await site.render(m)).code
    except error.RenderableError as e:
        return e.to_message().code


async def main():
    root, sub = resource.Site(), resource.Site()
    root.add_resource(["a"], resource.Resource())
    root.add_resource(["s"], sub)
    sub.add_resource(["b"], resource.Resource())
    bad = 0
    for path in (["nope"], ["a", "nope"], ["s", "nope"], ["s"], []):
        for method in (GET, POST, PUT, DELETE, FETCH):
            c = await code_of(root, method, path)
            ok = c == NOT_FOUND
            print("%-6s /%-8s -> %s %s" % (method, "/".join(path), c, "" if ok else "WRONG, nothing is registered there: expected 4.04"))
            bad += not ok
    return 1 if bad else 0


sys.exit(asyncio.run(main()))
