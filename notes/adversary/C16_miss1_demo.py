"""C16 miss 1: set_request_uri() on a message that already carries Uri-Path / Uri-Query
(message reuse, Message.copy(uri=...)).

Run with cwd = the tree under test.  Exit 0: the options after decomposing a URI are the
options of THAT URI; exit 1: options of the previous URI survive."""
import os
import sys

sys.path.insert(0, os.getcwd())  # the tree under test, not an installed aiocoap
import aiocoap
from aiocoap import Message, GET

print(aiocoap.__file__)
bad = []

# 1. a request template re-targeted with copy(uri=...)
first = Message(code=GET, uri="coap://host/sensors/temp?unit=c")
second = first.copy(uri="coap://host/")
if second.opt.uri_path != () or second.opt.uri_query != ():
    bad.append(("copy(uri='coap://host/')", second.opt.uri_path, second.opt.uri_query))
if second.get_request_uri() != "coap://host/":
    bad.append(("compose after copy", second.get_request_uri()))

# 2. the same message object, set_request_uri called twice
m = Message(code=GET)
m.set_request_uri("coap://host/a/b?x=1&y=2")
m.set_request_uri("coap://host/c")
if m.opt.uri_path != ("c",) or m.opt.uri_query != ():
    bad.append(("second set_request_uri", m.opt.uri_path, m.opt.uri_query))
if m.get_request_uri() != "coap://host/c":
    bad.append(("compose after second set_request_uri", m.get_request_uri()))

# 3. distinct resources collapse: "/" and "/a/b?x=1&y=2" decompose to the same options
m1 = Message(code=GET, uri="coap://host/a/b?x=1&y=2")
m2 = m1.copy(uri="coap://host")
if (m1.opt.uri_path, m1.opt.uri_query) == (m2.opt.uri_path, m2.opt.uri_query):
    bad.append(("collapse", m1.get_request_uri(), m2.get_request_uri()))

for b in bad:
    print("VIOLATED:", b)
sys.exit(1 if bad else 0)
