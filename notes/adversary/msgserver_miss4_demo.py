"""C10: "A confirmable response matching a pending request is acknowledged with an empty ACK".

The application sends a request to the All-CoAP-Nodes group (it goes out as NON).  A group member
answers from its unicast address with a *confirmable* response carrying the request's token (RFC 7252
allows either type in answer to a NON request).  The request is pending, the response matches it: it
has to be delivered and acknowledged with an empty ACK under its message ID -- not rejected with RST.

Run with cwd = the aiocoap tree.  Exit 0: empty ACK sent, response delivered; exit 1 otherwise.
"""
import asyncio
import logging
import os
import socket
import struct
import sys

sys.path.insert(0, os.getcwd())   # cwd = the tree under test
import aiocoap
from aiocoap import Message, GET, CONTENT
from aiocoap.numbers.types import CON
from aiocoap.messagemanager import MessageManager
from aiocoap.tokenmanager import TokenManager
from aiocoap.pipe import Pipe
from aiocoap.transports.udp6 import UDP6EndpointAddress

print("aiocoap from", aiocoap.__file__)


class Iface:
    def __init__(self):
        self.sent = []

    def send(self, message):
        self.sent.append((message.remote.sockaddr, message.encode()))


class Ctx:
    def __init__(self, loop):
        self.log = logging.getLogger("demo")
        self.loop = loop
        self.client_credentials = None


PKTINFO = struct.pack("16sI", socket.inet_pton(socket.AF_INET6, "2001:db8::100"), 1)


async def main():
    loop = asyncio.get_running_loop()
    iface = Iface()
    tm = TokenManager(Ctx(loop))
    mm = MessageManager(tm)
    mm.message_interface = iface
    tm.token_interface = mm

    msg = Message(code=GET, uri_path=["x"])
    msg.remote = UDP6EndpointAddress(("ff02::fd", 5683, 0, 1), iface)
    pipe = Pipe(msg, logging.getLogger("demo"))
    got = []
    pipe.on_event(lambda ev: got.append(ev) or False)
    tm.request(pipe)
    assert len(iface.sent) == 1 and (iface.sent[0][1][0] >> 4) & 3 == 1, "request went out as NON"

    member = ("2001:db8::7", 5683, 0, 0)
    raw = Message(code=CONTENT, _mtype=CON, _mid=0x4242, _token=msg.token, payload=b"hello").encode()
    mm.dispatch_message(Message.decode(raw, UDP6EndpointAddress(member, iface, pktinfo=PKTINFO)))

    answers = [(to, r) for to, r in iface.sent[1:]]
    print("pending request token %s; CON 2.05 from %s with that token; endpoint answered: %s"
          % (msg.token.hex(), member[0], [r.hex() for _, r in answers]))
    delivered = [ev for ev in got if getattr(ev, "message", None) is not None]
    for h in list(getattr(loop, "_scheduled", [])):
        h.cancel()
    empty_ack = bytes([0x60, 0x00, 0x42, 0x42])
    if [r for _, r in answers] != [empty_ack] or answers[0][0] != member:
        print("FAIL: the matching confirmable response was not acknowledged with an empty ACK (0x60004242)")
        return 1
    if not delivered:
        print("FAIL: response not delivered to the requester")
        return 1
    print("ok: matching CON response acknowledged with an empty ACK and delivered")
    return 0


sys.exit(asyncio.run(main()))
