"""C18 miss -- an observation consumed through `async for` ends silently at shutdown.

Run with cwd = the aiocoap tree under test.  A server context offers an observable resource; a client
context observes it and iterates over the notifications with `async for` (the documented, preferred
interface).  The client context is shut down while the observation is active.
Exit 0: the iteration is terminated by a library error (LibraryShutdown).  Exit 1: it just ends, as if
the server had cancelled the observation, or hangs."""

import sys
import os

sys.path.insert(0, os.getcwd())

import asyncio
import socket

import aiocoap
from aiocoap import Context, Message, GET, resource, error
from aiocoap.numbers.codes import Code

print("aiocoap from", aiocoap.__file__)


class Counter(resource.ObservableResource):
    def __init__(self):
        super().__init__()
        self.n = 0

    async def render_get(self, request):
        return Message(code=Code.CONTENT, payload=b"%d" % self.n)


async def consume(req, out):
    try:
        async for notification in req.observation:
            out.append(("item", notification.payload))
        out.append(("clean-end", None))
    except Exception as e:
        out.append(("error", e))


async def one(handle_blockwise, port):
    client = await Context.create_client_context(transports=["udp6"])
    req = client.request(Message(code=GET, uri="coap://[::1]:%d/c" % port, observe=0), handle_blockwise=handle_blockwise)
    first = await asyncio.wait_for(req.response, 5)
    out = []
    task = asyncio.ensure_future(consume(req, out))
    await asyncio.sleep(0.2)
    await client.shutdown()
    done, pending = await asyncio.wait([task], timeout=4)
    if pending:
        task.cancel()
        how = "hangs"
    else:
        how = out[-1][0] + (":" + type(out[-1][1]).__name__ if out[-1][0] == "error" else "")
    print("handle_blockwise=%s: first response %s, iteration after shutdown: %s" % (handle_blockwise, first.code, how))
    return how == "error:LibraryShutdown" or (out and out[-1][0] == "error" and isinstance(out[-1][1], error.Error))


async def main():
    probe = socket.socket(socket.AF_INET6, socket.SOCK_DGRAM)
    probe.bind(("::1", 0))
    port = probe.getsockname()[1]
    probe.close()
    site = resource.Site()
    site.add_resource(["c"], Counter())
    server = await Context.create_server_context(site, bind=("::1", port), transports=["udp6"])
    ok = True
    for hb in (False, True):
        ok = await one(hb, port) and ok
    await server.shutdown()
    if not ok:
        print("FAIL: an outstanding observation did not terminate with a library error at shutdown")
        return 1
    print("ok")
    return 0


sys.exit(asyncio.run(main()))
