"""miss5: "... with their full paths through nested sites".  Site's documentation:
"You can add another Site (or another instance of PathCapable) as well, those
will be nested and integrally reported in a WKCResource."  A nested PathCapable
that is not itself a Site object (here: a thin access-logging wrapper around a
Site, the same shape as aiocoap.oscore_sitewrapper.OscoreSiteWrapper) must have
its registered resources listed under the mount path.

Run with cwd = the aiocoap tree.  Exit 0: listed.  Exit 1: missing."""

import asyncio
import os
import sys

sys.path.insert(0, os.getcwd())  # cwd = the tree under test

import aiocoap
from aiocoap import resource, interfaces, Message, GET
from aiocoap.message import Direction

print(aiocoap.__file__)


class Leaf(resource.Resource):
    rt = "leaf"

    async def render_get(self, request):
        return Message(payload=b"leaf")


class LoggingSite(interfaces.Resource, resource.PathCapable):
    """Wraps a Site; counts requests; otherwise transparent."""

    def __init__(self, inner):
        self.inner = inner
        self.count = 0

    def get_resources_as_linkheader(self):
        return self.inner.get_resources_as_linkheader()

    async def needs_blockwise_assembly(self, request):
        return await self.inner.needs_blockwise_assembly(request)

    async def render(self, request):
        self.count += 1
        return await self.inner.render(request)

    async def render_to_pipe(self, pipe):
        self.count += 1
        return await self.inner.render_to_pipe(pipe)


class Remote:
    is_multicast = False
    is_multicast_locally = False


async def get(site, path):
    m = Message(code=GET, uri_path=path)
    m.direction = Direction.INCOMING
    m.remote = Remote()
    return (await site.render(m)).payload.decode()


async def main():
    root, inner = resource.Site(), resource.Site()
    root.add_resource(
        [".well-known", "core"],
        resource.WKCResource(root.get_resources_as_linkheader, impl_info=None),
    )
    inner.add_resource(["x"], Leaf())
    inner.add_resource(["y", "z"], Leaf())
    root.add_resource(["logged"], LoggingSite(inner))

    assert await get(root, ["logged", "x"]) == "leaf"  # registered and served
    assert await get(root, ["logged", "y", "z"]) == "leaf"
    listing = await get(root, [".well-known", "core"])
    print("listing:", listing)
    hrefs = sorted(l.split(">")[0].lstrip("<") for l in listing.split(",") if l)
    want = sorted(["/.well-known/core", "/logged/x", "/logged/y/z"])
    if hrefs != want:
        print("WRONG: listed %r, registered and not hiding %r" % (hrefs, want))
        return 1
    print("ok")
    return 0


sys.exit(asyncio.run(main()))
