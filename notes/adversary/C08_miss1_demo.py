
# ---- minimal in-process CoAP-over-UDP server stack (real TokenManager / MessageManager /
# ---- Context.render_to_pipe / resource.Site of aiocoap; only the socket is replaced) ----
import asyncio
import logging
import os
import sys

sys.path.insert(0, os.getcwd())  # run with cwd = the aiocoap tree under test

import aiocoap
from aiocoap import Message, resource
from aiocoap.numbers.codes import Code
from aiocoap.numbers.types import CON, NON, ACK, RST
from aiocoap.messagemanager import MessageManager
from aiocoap.tokenmanager import TokenManager
from aiocoap.protocol import Context

print("aiocoap from", aiocoap.__file__)


class Remote:
    """An endpoint address: hashable, compares by name"""

    is_multicast = False
    is_multicast_locally = False
    scheme = "coap"
    maximum_block_size_exp = 6
    maximum_payload_size = 1124
    blockwise_key = None

    def __init__(self, name):
        self.name = name
        self.blockwise_key = name
        self.hostinfo = name
        self.hostinfo_local = "server"
        self.uri_base = "coap://" + name
        self.uri_base_local = "coap://server"

    def as_response_address(self):
        return self

    def __eq__(self, other):
        return isinstance(other, Remote) and other.name == self.name

    def __hash__(self):
        return hash(self.name)

    def __repr__(self):
        return "<Remote %s>" % self.name


class Wire:
    """Stands in for the UDP message interface: records what the server sends"""

    def __init__(self):
        self.sent = []  # (remote, decoded copy of the datagram)

    def send(self, message):
        raw = message.encode()
        self.sent.append((message.remote, Message.decode(raw, message.remote)))

    async def shutdown(self):
        pass


class FakeContext:
    """Just enough of protocol.Context for TokenManager: the real render_to_pipe code is borrowed"""

    client_credentials = None
    render_to_pipe = Context.render_to_pipe
    _render_to_pipe = Context._render_to_pipe

    def __init__(self, site):
        self.serversite = site
        self.log = logging.getLogger("demo")
        self.log.setLevel(logging.CRITICAL)
        self.loop = asyncio.get_running_loop()


class Server:
    def __init__(self, site):
        self.wire = Wire()
        self.ctx = FakeContext(site)
        self.tm = TokenManager(self.ctx)
        self.mm = MessageManager(self.tm)
        self.tm.token_interface = self.mm
        self.mm.message_interface = self.wire
        self.mm.message_id = 100

    def rx(self, remote, mtype, code, mid, token=b"", **opts):
        m = Message(code=code, **opts)
        m.mtype, m.mid, m.token = mtype, mid, token
        raw = m.encode()
        self.mm.dispatch_message(Message.decode(raw, remote))

    def register(self, remote, token, mid, mtype=CON, path=("obs",)):
        self.rx(remote, mtype, Code.GET, mid, token, uri_path=path, observe=0)

    def sent_to(self, remote, token):
        return [m for (r, m) in self.wire.sent if r == remote and m.token == token and m.code.is_response()]


async def settle(n=20):
    for _ in range(n):
        await asyncio.sleep(0)


# ---- the situation: a confirmable observer that is slow to acknowledge (one lost ACK: the
# ---- retransmission takes 2 s and more) while the resource keeps changing; every change queues one
# ---- more CON notification behind the unacknowledged one (NSTART = 1)
class Counter(resource.ObservableResource):
    def __init__(self):
        super().__init__()
        self.state = 0

    def change(self):
        self.state += 1
        self.updated_state()

    async def render_get(self, request):
        return Message(code=Code.CONTENT, payload=b"state %d" % self.state)


async def main():
    res = Counter()
    site = resource.Site()
    site.add_resource(["obs"], res)
    srv = Server(site)
    r1 = Remote("observer-1")
    srv.register(r1, b"\xa1", 1000, CON)
    await settle()
    CHANGES = 24
    for i in range(CHANGES):                 # all within the first ACK_TIMEOUT, none acknowledged yet
        res.change()
        await settle()
    # now the observer wakes up and acknowledges every notification as it arrives
    acked = set()
    for _ in range(CHANGES + 5):
        for (r, m) in list(srv.wire.sent):
            if m.mtype is CON and m.mid not in acked:
                acked.add(m.mid)
                srv.rx(r1, ACK, Code.EMPTY, m.mid)
        await settle()
    got = [(m.opt.observe, m.payload) for m in srv.sent_to(r1, b"\xa1")]
    print("%d responses on the wire, the last ones: %s" % (len(got), got[-3:]))
    print("observers registered at the resource: %d, state of the resource: %d" % (len(res._observations), res.state))
    if len(res._observations) == 1 and not any(p == b"state %d" % CHANGES for (_, p) in got):
        print("VIOLATED: the registration is alive, every notification was acknowledged, and the notification "
              "for the last change (state %d) was never sent" % CHANGES)
        return 1
    print("ok: the notification rendered after the last change was sent")
    return 0


sys.exit(asyncio.run(main()))
