"""C01 -- CoAP datagram codec: lossless round trip, RFC 7252 section 3 format,
total parsing.

The oracle is spec/CoapWire.tla (RFC 7252 section 3 transcribed: serialiser
EncMsg, parser Parse, the parser again as a byte-at-a-time automaton, UTF-8 /
uint value rules).  TLC is used twice:

1. exhaustively on spec/CoapWireMC.tla: every byte string over a byte-class
   alphabet up to a bounded length (every prefix counts, so all truncations)
   and every message of a finite message set; in every state the automaton,
   the recursive parser and the serialiser must agree (AutomatonIsParse,
   AcceptedIsCanonical, EncRoundTrip), and every state is printed with the
   spec's verdict -- each one becomes a case for the implementation;
2. as evaluator (spec/CoapWireEval.tla) on batches the check generates:
   messages to serialise (boundary sweep, 65803/65804 with real bytes, seeded
   random messages over all option formats) and byte strings to parse (every
   single-byte substitution at structural positions, bit flips elsewhere,
   truncations, insertions, deletions of valid datagrams).

Python only drives aiocoap and compares with what TLC printed:

  C01_EncodeBytes      Message.encode() == EncMsg(m)
  C01_RoundTrip        decode(encode(m)) has m's fields (options in order)
  C01_WellFormedFields a well-formed datagram decodes to exactly the spec's fields
  C01_OnlyUnparsable   no exception other than UnparsableMessage leaves Message.decode
  C01_ParsedRoundTrips whatever decode() returns for a not-well-formed input round-trips
  C01_UdpDropsOnly     the same bytes through MessageInterfaceUDP6.datagram_msg_received:
                       handed on or dropped, nothing in the loop's exception handler
"""

import json
import os
import random
import sys
import time
from concurrent.futures import ThreadPoolExecutor
from multiprocessing import Pool

from harness import tlc, runner, MachineryError
from harness import c01_lib as L
from harness import wire

MC_CFG = """SPECIFICATION Spec
CONSTANTS
  Alphabet = {%(alphabet)s}
  Hdr0Main = {%(main)s}
  Hdr0Side = {%(side)s}
  Codes = {%(codes)s}
  Depth = %(depth)d
  SideDepth = %(sidedepth)d
  EncNums = {0, 1, 12, 13, 14, 268, 269, 270, 65803, 65804}
  EncLens = {0, 1, 12, 13, 268, 269}
INVARIANT AutomatonIsParse
INVARIANT AcceptedIsCanonical
INVARIANT EncRoundTrip
INVARIANT ExtBoundaries
INVARIANT Emit
"""

# byte classes: option headers with delta/length nibbles 0, 1, 13, 14, 15 and
# ordinary ones (0xB1/0xB2 Uri-Path = string, 0x61 Observe = uint), the marker,
# and bytes that matter inside values (NUL, ASCII, UTF-8 lead / continuation)
# (C3 80 = U+00C0, in NFC; CD 80 = U+0340, valid UTF-8 that is in no Unicode
# normal form: string values must pass through unnormalised)
ALPHABET = [0x00, 0x01, 0x0D, 0x0E, 0x0F, 0x61, 0x80, 0xB1, 0xB2, 0xC3, 0xCD, 0xD0, 0xDD, 0xE0, 0xF0, 0xFF]
JVM = {"JDK_JAVA_OPTIONS": "-Xss512m"}


def ints(xs):
    return ", ".join(str(x) for x in xs)


# -- TLC as evaluator ---------------------------------------------------------
def _eval_one(wd, idx, cases, timeout, keep_raw):
    path = wd.file("c01-cases-%d.json" % idx)
    with open(path, "w") as f:
        json.dump(cases, f, separators=(",", ":"))
    r = tlc.run(wd, "CoapWireEval.tla", "CoapWireEval.cfg", workers=1, timeout=timeout, env=dict(JVM, C01_CASES=path), heap="3g")
    tlc.need_ok_run(r, "CoapWireEval batch %d" % idx)
    if os.environ.get("VERIF_DEBUG"):
        print("  eval batch %d: %d cases, %.1fs" % (idx, len(cases), r.wall), file=sys.stderr, flush=True)
    vals = [(v[1], raw if keep_raw else v) for v, raw in L.tlc_values_iter(r.out)]
    os.unlink(path)
    return vals


def evaluate(wd, cases, timeout, batch=20000, parallel=8, keep_raw=False):
    """cases: list of JSON cases with ids; returns {id: printed value}, or
    {id: JSON text of the printed value} (memory: the workers parse it)."""
    if not cases:
        return {}
    wd.write("CoapWireEval.cfg", "")
    # big cases (65 kB byte strings) first, one per JVM: they take seconds each
    big = [c for c in cases if sum(len(x) for x in c if isinstance(x, list)) > 20000 or any(len(o[1]) > 20000 for x in c if isinstance(x, list) for o in x if isinstance(o, list))]
    bigids = set(c[1] for c in big)
    small = [c for c in cases if c[1] not in bigids]
    chunks = [big[i : i + 1] for i in range(0, len(big))] + [small[i : i + batch] for i in range(0, len(small), batch)]
    out = {}
    with ThreadPoolExecutor(max_workers=parallel) as ex:
        for vals in ex.map(lambda t: _eval_one(wd, t[0], t[1], timeout, keep_raw), enumerate(chunks)):
            out.update(vals)
    missing = [c[1] for c in cases if c[1] not in out]
    if missing:
        raise MachineryError("TLC printed no value for %d cases (first id %s)" % (len(missing), missing[0]))
    return out


# -- worker side: the implementation ---------------------------------------------
_impl = None
_udp = None


def _init_worker():
    global _impl
    _impl = L.Impl()


def _region(expected, i):
    if i < 4:
        return "header"
    tkl = expected[0] & 15
    if i < 4 + tkl:
        return "token"
    return "body"


def _first_diff(a, b):
    n = min(len(a), len(b))
    for i in range(n):
        if a[i] != b[i]:
            return i
    return n


def _field_diff(got, exp):
    names = ["type", "code", "mid", "token", "options", "payload"]
    for n, g, e in zip(names, got, exp):
        if g != e:
            return n
    return "?"


def _opts_match(got, exp_fields):
    if len(got) != len(exp_fields):
        return False
    for (n, v), e in zip(got, exp_fields):
        if n != e[0]:
            return False
        if v != bytes(e[1]) and not (len(e) == 3 and v == bytes(e[2])):
            return False
    return True


def _roundtrip(impl, m, f, clause, viol, hexin):
    """m: decoded/constructed aiocoap message with fields f."""
    try:
        e = impl.encode(m)
    except Exception as ex:
        viol.append((clause, "%s|%s" % (type(ex).__name__, L.exc_origin(ex)), hexin, "encode() of the parsed message raised %r; options %s" % (ex, L.ext_flag(f[4]))))
        return None
    try:
        m2 = impl.Message.decode(e)
        f2 = impl.fields(m2)
    except Exception as ex:
        viol.append((clause, "redecode:%s|%s" % (type(ex).__name__, L.exc_origin(ex)), hexin, "decode(encode(m)) raised %r; encode(m)=%s" % (ex, e[:64].hex())))
        return e
    if f2 != f:
        viol.append((clause, "mismatch:%s" % _field_diff(f2, f), hexin, "decode(encode(m)) differs from m in %s: %r vs %r" % (_field_diff(f2, f), f2, f)))
    else:
        # the serialised forms agree; so must the typed values the application sees
        try:
            v, v2 = impl.values(m), impl.values(m2)
        except Exception:
            v = v2 = None
        if v != v2:
            viol.append((clause, "mismatch:values", hexin, "decode(encode(m)) has option values %r, m has %r" % (v2, v)))
    return e


def dec_chunk(chunk):
    """chunk: list of (bytes, JSON text of the value TLC printed for them, do_udp);
    the value is ["DG", bytes, classify, from-message-set, reserialises] or
    ["D", id, classify, reserialises].  Returns (violations, counters)."""
    global _udp
    impl = _impl
    viol = []
    cnt = {"dec": 0, "wf": 0, "rejected_by_impl": 0, "lenient_parse": 0, "udp": 0, "udp_dropped": 0, "udp_dispatched": 0, "reserialised": 0, "exact_fields_demanded": 0, "drift": [], "oracle_disagreements": [], "classes": {}}
    for d, raw, do_udp in chunk:
        tv = json.loads(raw)
        cls, reser = tv[2], tv[-1]
        ck = cls[0] if cls[0] != "rej" else "rej:" + cls[1]
        cnt["classes"][ck] = cnt["classes"].get(ck, 0) + 1
        cnt["dec"] += 1
        # sanity of the oracle itself: the harness' independent codec (a third
        # formulation) must frame the datagram like the specification
        try:
            wm = wire.decode(d)
            w_ok = (wm["type"], wm["code"], wm["mid"], wm["token"], [(n, len(v)) for n, v in wm["options"]], wm["payload"])
        except wire.ParseError:
            w_ok = None
        if cls[0] == "rej":
            s_ok = None
        else:
            s_ok = (cls[1], cls[2], cls[3], bytes(cls[4]), None, bytes(cls[6]))
        if (w_ok is None) != (s_ok is None) or (w_ok is not None and (w_ok[:4] + w_ok[5:] != s_ok[:4] + s_ok[5:] or [n for n, _ in w_ok[4]] != [e[0] for e in cls[5]])):
            cnt["oracle_disagreements"].append(d[:64].hex())
        hexin = d.hex() if len(d) <= 4096 else "len=%d:%s.." % (len(d), d[:24].hex())
        wf = cls[0] == "wf"
        # "ctlchars": well-formed framing and UTF-8, a string value with control
        # characters.  Rejecting it stays admissible; a parser that accepts it
        # has read a well-formed datagram and owes the RFC's fields and the
        # identical re-serialisation (notes/C01.md, judgement on control characters)
        exact = wf or cls[0] == "ctlchars"
        cnt["wf"] += wf
        outcome = None
        f = None
        try:
            m = impl.Message.decode(d)
        except impl.Unparsable:
            outcome = "unparsable"
            cnt["rejected_by_impl"] += 1
            if wf:
                viol.append(("C01_WellFormedFields", "rejected", hexin, "well-formed datagram rejected with UnparsableMessage; spec fields %s" % (cls[1:],)))
        except Exception as ex:
            outcome = "exc"
            viol.append(("C01_OnlyUnparsable", "%s|%s" % (type(ex).__name__, L.exc_origin(ex)), hexin, "Message.decode raised %r (spec class %s)" % (ex, cls[0] if cls[0] != "rej" else "rej:" + cls[1])))
        else:
            outcome = "ok"
            try:
                f = impl.fields(m)
            except Exception as ex:
                viol.append(("C01_RoundTrip" if wf else "C01_ParsedRoundTrips", "fields:%s|%s" % (type(ex).__name__, L.exc_origin(ex)), hexin, "cannot read back the parsed message: %r" % ex))
            if f is not None:
                if exact:
                    cnt["exact_fields_demanded"] += 1
                    exp = (cls[1], cls[2], cls[3], bytes(cls[4]), None, bytes(cls[6]))
                    got = (f[0], f[1], f[2], f[3], None, f[5])
                    if got != exp:
                        viol.append(("C01_WellFormedFields", "mismatch:%s" % _field_diff(got, exp), hexin, "parsed %r, RFC reading gives %r" % (f, cls[1:])))
                    elif not _opts_match(f[4], cls[5]):
                        viol.append(("C01_WellFormedFields", "mismatch:options", hexin, "parsed options %r, RFC reading gives %r" % (f[4], cls[5])))
                else:
                    cnt["lenient_parse"] += 1
                e = _roundtrip(impl, m, f, "C01_RoundTrip" if wf else "C01_ParsedRoundTrips", viol, hexin)
                if exact and reser and e is not None:
                    cnt["reserialised"] += 1
                    if e != d:
                        viol.append(("C01_EncodeBytes", "mismatch:reserialise", hexin, "encode(decode(d)) = %s differs from d although the format is a bijection here" % e[:64].hex()))
        if do_udp and len(d) <= 4096:
            if _udp is None:
                _udp = L.UdpPath()
            cnt["udp"] += 1
            msgs, excs, errs, sent = _udp.push(d)
            if excs or errs:
                ex = excs[0] if excs else None
                kind = "%s|%s" % (type(ex).__name__, L.exc_origin(ex)) if ex is not None else "errorlog"
                viol.append(("C01_UdpDropsOnly", kind, hexin, "datagram_msg_received: loop exception handler got %r, error log %r" % (excs, errs)))
            elif outcome == "unparsable":
                cnt["udp_dropped"] += 1
                if msgs or sent:
                    viol.append(("C01_UdpDropsOnly", "not-dropped", hexin, "unparsable datagram was not dropped: dispatched %d, sent %d" % (len(msgs), sent)))
            elif outcome == "ok":
                if len(msgs) == 1:
                    cnt["udp_dispatched"] += 1
                    try:
                        if f is not None and impl.fields(msgs[0]) != f:
                            cnt["drift"].append("udp6 handed on a message different from Message.decode's result for %s" % hexin)
                    except Exception:
                        pass
                else:
                    cnt["drift"].append("udp6 dispatched %d messages for parsable datagram %s" % (len(msgs), hexin))
    return viol, cnt


def enc_chunk(chunk):
    """chunk: list of (abstract message, expected bytes).  Returns (violations, counters)."""
    impl = _impl
    viol = []
    cnt = {"enc": 0, "build_failures": []}
    for m, exp in chunk:
        cnt["enc"] += 1
        key = L.fields_key(m)
        desc = json.dumps(L.msg_to_json(m)) if sum(len(v) for _, v in m[4]) < 600 else "type=%d code=%d mid=%d tkl=%d opts=%s paylen=%d" % (m[0], m[1], m[2], len(m[3]), [(n, "len=%d" % len(v)) for n, v in m[4]], len(m[5]))
        try:
            msg = impl.build(m)
        except Exception as ex:
            cnt["build_failures"].append("%r for %s" % (ex, desc[:200]))
            continue
        try:
            b = impl.encode(msg)
        except Exception as ex:
            viol.append(("C01_EncodeBytes", "%s|%s" % (type(ex).__name__, L.exc_origin(ex)), desc, "Message.encode raised %r; %s" % (ex, L.ext_flag(m[4]))))
            continue
        if b != exp:
            i = _first_diff(b, exp)
            viol.append(("C01_EncodeBytes", "mismatch:%s" % _region(exp, i), desc, "encode() = %s.., RFC 7252 bytes = %s.. (first difference at offset %d, lengths %d / %d)" % (b[max(0, i - 8) : i + 8].hex(), exp[max(0, i - 8) : i + 8].hex(), i, len(b), len(exp))))
        try:
            m2 = impl.Message.decode(b)
            f2 = impl.fields(m2)
        except Exception as ex:
            viol.append(("C01_RoundTrip", "redecode:%s|%s" % (type(ex).__name__, L.exc_origin(ex)), desc, "decode(encode(m)) raised %r" % ex))
            continue
        if f2 != key:
            viol.append(("C01_RoundTrip", "mismatch:%s" % _field_diff(f2, key), desc, "decode(encode(m)) = %r, m = %r" % (f2 if len(repr(f2)) < 600 else "...", key if len(repr(key)) < 600 else "...")))
        else:
            try:
                v, v2 = impl.values(msg), impl.values(m2)
            except Exception:
                v = v2 = None
            if v != v2:
                viol.append(("C01_RoundTrip", "mismatch:values", desc, "decode(encode(m)) has option values %s, m has %s" % (repr(v2)[:300], repr(v)[:300])))
    return viol, cnt


def _chunks(xs, n):
    return [xs[i : i + n] for i in range(0, len(xs), n)]


# -- the check ----------------------------------------------------------------------
def report(rep, viols, kind):
    """One rep.violation per signature; the shortest input is the witness."""
    groups = {}
    for clause, cls, inp, detail in viols:
        groups.setdefault((clause, cls), []).append((inp, detail))
    for (clause, cls), items in sorted(groups.items()):
        items.sort(key=lambda t: (len(t[0]), t[0]))
        inp, detail = items[0]
        sig = "%s|%s" % (clause, cls)
        rep.violation(
            clause,
            sig,
            "%s\nminimal input (%s): %s\n%d inputs with this signature" % (detail, kind, inp, len(items)),
            {"kind": kind, "cases": [i for i, _ in items[:10]]},
        )


def replay(rep, args, wd):
    # a replay must not overwrite the evidence of the last full run
    runner.REPO = "replay:" + runner.REPO
    with open(args.replay) as f:
        data = json.load(f)
    rp = data["replay"]
    _init_worker()
    if rp["kind"] == "dec":
        ds = [bytes.fromhex(h) for h in rp["cases"] if not h.startswith("len=")]
        res = evaluate(wd, [["dec", i, list(d)] for i, d in enumerate(ds)], 600, keep_raw=True)
        viols, cnt = dec_chunk([(d, res[i], True) for i, d in enumerate(ds)])
    else:
        ms = []
        for j in rp["cases"]:
            if j.startswith("["):
                ty, code, mid, tok, opts, pay = json.loads(j)
                ms.append((ty, code, mid, bytes(tok), [(n, bytes(v)) for n, v in opts], bytes(pay)))
        res = evaluate(wd, [["enc", i] + L.msg_to_json(m) for i, m in enumerate(ms)], 600)
        viols, cnt = enc_chunk([(m, bytes(res[i][2])) for i, m in enumerate(ms) if res[i][2] != 0])
    report(rep, viols, rp["kind"])
    rep.coverage.update({"states": 0, "transitions": 0, "traces_validated_against_impl": len(rp["cases"]), "samples": rp["cases"][:3], "replay_of": args.replay})


def work(rep, args):
    quick = args.tier == "quick"
    rng = random.Random(args.seed * 1000003 + 1)
    impl = L.Impl()
    tmo = 900 if quick else 3000
    phases = {}
    t_last = [time.time()]

    def lap(name):
        now = time.time()
        phases[name] = round(now - t_last[0], 1)
        t_last[0] = now
        if os.environ.get("VERIF_DEBUG"):
            print("phase %s: %.1fs" % (name, phases[name]), file=sys.stderr, flush=True)

    with tlc.Workdir() as wd:
        if args.replay:
            return replay(rep, args, wd)
        # ---- 1. exhaustive run of the small model ---------------------------------
        consts = dict(
            alphabet=ints(ALPHABET),
            main=ints([0x40]),
            side=ints([0x51, 0x68, 0x72, 0x49, 0x4F, 0x00, 0x80, 0xC0]),
            codes=ints([1]),
            depth=4 if quick else 5,
            sidedepth=2 if quick else 3,
        )
        wd.write("CoapWireMC_run.cfg", MC_CFG % consts)
        mc = tlc.run(wd, "CoapWireMC.tla", "CoapWireMC_run.cfg", timeout=tmo, env=JVM, heap="6g")
        tlc.need_ok_run(mc, "CoapWireMC model check")
        if mc.violated:
            raise MachineryError("CoapWire specification is inconsistent with itself: %s violated\n%s" % (mc.violated, mc.out[-3000:]))
        lap("tlc_model_check")
        dec_expected = {}  # bytes -> JSON text of TLC's verdict
        enc_cases = []  # (abstract message, expected bytes)
        model_classes = {}
        model_ok = []
        n_dg = 0
        for v, raw in L.tlc_values_iter(mc.out):
            _, buf, cls, encflag, reser = v
            n_dg += 1
            b = bytes(buf)
            dec_expected[b] = raw
            k = cls[0] if cls[0] != "rej" else "rej:" + cls[1]
            model_classes[k] = model_classes.get(k, 0) + 1
            if cls[0] == "wf" and len(cls[5]) >= 2 and not encflag:
                model_ok.append(b)
            if encflag:
                if cls[0] not in ("wf", "emptyplus", "ctlchars"):
                    raise MachineryError("model message state not classified well-formed: %r" % (cls,))
                m = (cls[1], cls[2], cls[3], bytes(cls[4]), [(e[0], bytes(e[1])) for e in cls[5]], bytes(cls[6]))
                enc_cases.append((m, b))
        del mc.out
        n_model_dec = len(dec_expected)
        n_model_enc = len(enc_cases)
        if n_dg + n_model_enc != mc.distinct:
            raise MachineryError("model printed %d cases for %d distinct states (%d message states)" % (n_dg, mc.distinct, n_model_enc))
        lap("read_model_cases")

        # ---- 2. messages: boundary sweep, huge values, seeded random ----------------
        L.check_unicode_samples()
        msgs = L.boundary_messages(impl) + L.unicode_messages(impl) + L.uint_messages(impl) + L.huge_messages()
        nrand = 1500 if quick else 20000
        msgs += [L.gen_message(rng, impl) for _ in range(nrand)]
        seen = set()
        umsgs = []
        for m in msgs:
            k = L.fields_key(m)
            if k not in seen:
                seen.add(k)
                umsgs.append(m)
        eres = evaluate(wd, [["enc", i] + L.msg_to_json(m) for i, m in enumerate(umsgs)], tmo, batch=4000 if quick else 8000)
        bases = []
        for i, m in enumerate(umsgs):
            _, _, eb, rt = eres[i]
            if eb == 0:
                raise MachineryError("generator left the format's domain: %r" % (L.msg_to_json(m),))
            if rt != 1:
                raise MachineryError("specification: Parse(EncMsg(m)) # m for %r" % (L.msg_to_json(m),))
            eb = bytes(eb)
            enc_cases.append((m, eb))
            bases.append(eb)
        del eres
        lap("tlc_eval_messages")

        # ---- 3. byte strings: the serialisations themselves and their mutations -----
        # (serialisations beyond 4096 bytes -- the 65803/65804-byte values -- are
        # parsed back in the message direction only: decode(encode(m)) against m,
        # with Parse(EncMsg(m)) = m certified by TLC)
        new = set(b for b in bases if b not in dec_expected and len(b) <= 4096)
        small = sorted(set(b for b in bases if len(b) <= 700))
        rng.shuffle(small)
        short = [b for b in small if len(b) <= 48]
        longer = [b for b in small if len(b) > 48]
        nshort, nlong = (16, 2) if quick else (200, 20)
        mut_bases = short[:nshort] + longer[:nlong]
        # plus accepted datagrams of the model with several options
        model_ok.sort()
        rng.shuffle(model_ok)
        mut_bases += model_ok[: (4 if quick else 30)]
        nmut = 0
        for b in mut_bases:
            for x in L.mutations(b, rng):
                nmut += 1
                if x not in dec_expected:
                    new.add(x)
        new = sorted(new)
        rng.shuffle(new)  # long and short datagrams evenly over the batches
        dres = evaluate(wd, [["dec", i, list(b)] for i, b in enumerate(new)], tmo, batch=8000 if quick else 40000, keep_raw=True)
        for i, b in enumerate(new):
            dec_expected[b] = dres[i]
        del dres
        lap("tlc_eval_byte_strings")

        # ---- 4. the implementation, 16 processes ---------------------------------------
        dec_items = [(b, raw, True) for b, raw in dec_expected.items()]
        rng.shuffle(dec_items)
        viols_dec, viols_enc = [], []
        total = {}
        drift = []
        build_failures = []
        disagreements = []
        classes = {}
        with Pool(min(16, os.cpu_count() or 4), initializer=_init_worker) as pool:
            r_enc = pool.map_async(enc_chunk, _chunks(enc_cases, 200))
            r_dec = pool.map_async(dec_chunk, _chunks(dec_items, 2000))
            for v, c in r_enc.get():
                viols_enc += v
                build_failures += c.pop("build_failures")
                for k, x in c.items():
                    total[k] = total.get(k, 0) + x
            for v, c in r_dec.get():
                viols_dec += v
                drift += c.pop("drift")
                disagreements += c.pop("oracle_disagreements")
                for k, x in c.pop("classes").items():
                    classes[k] = classes.get(k, 0) + x
                for k, x in c.items():
                    total[k] = total.get(k, 0) + x
        lap("implementation")
        if disagreements:
            raise MachineryError("specification and harness codec frame %d datagrams differently, e.g. %s" % (len(disagreements), disagreements[0]))
        if build_failures:
            raise MachineryError("cannot construct %d generated messages through the library's API, e.g. %s" % (len(build_failures), build_failures[0]))
        for d in sorted(set(drift))[:50]:
            rep.add_drift(d)
        report(rep, viols_enc, "enc")
        report(rep, viols_dec, "dec")

        sample_dec = [b for b in mut_bases[:2]] + new[:: max(1, len(new) // 3)][:3]
        rep.coverage.update(
            {
                "states": mc.distinct,
                "transitions": mc.generated,
                "depth": mc.depth,
                "mc_constants": consts,
                "mc_invariants": ["AutomatonIsParse", "AcceptedIsCanonical", "EncRoundTrip", "ExtBoundaries"],
                "exhaustive": True,
                "model_datagrams": n_model_dec,
                "model_messages": n_model_enc,
                "model_verdict_classes": model_classes,
                "evaluations": len(umsgs) + len(new),
                "messages_serialised": total.get("enc", 0),
                "byte_strings_parsed": total.get("dec", 0),
                "mutation_bases": len(mut_bases),
                "mutants_generated": nmut,
                "verdict_classes": classes,
                "well_formed_inputs": total.get("wf", 0),
                "rejected_by_impl": total.get("rejected_by_impl", 0),
                "lenient_parses_roundtripped": total.get("lenient_parse", 0),
                "reserialised_identically": total.get("reserialised", 0),
                "exact_fields_demanded": total.get("exact_fields_demanded", 0),
                "udp_path_datagrams": total.get("udp", 0),
                "udp_dropped": total.get("udp_dropped", 0),
                "udp_dispatched": total.get("udp_dispatched", 0),
                "oracle_cross_checked_with_harness_codec": total.get("dec", 0),
                "traces_validated_against_impl": total.get("enc", 0) + total.get("dec", 0),
                "distinct_nontrivial": len(classes),
                "violating_cases": len(viols_enc) + len(viols_dec),
                "samples": [{"datagram": b.hex()[:160], "spec": json.loads(dec_expected[b])[2] if len(b) < 80 else json.loads(dec_expected[b])[2][:1]} for b in sample_dec]
                + [{"message": L.msg_to_json(enc_cases[-1][0]), "rfc_bytes": enc_cases[-1][1].hex()[:160]}],
                "phase_wall_s": phases,
                "checker_cmd": "tlc CoapWireMC.tla (exhaustive) ; tlc CoapWireEval.tla (evaluator, ASSUME over JSON batches)",
            }
        )
        rep.assumptions += [
            "the model is a transcribed reference function (RFC 7252 section 3) and the 'traces' are single-step comparisons of encode()/decode() results with what TLC printed",
            "exhaustive only for the byte-class alphabet, depth and message set recorded in mc_constants; everything else is enumerated boundary sweeps, systematic mutations and seeded random messages",
            "string options count as well-formed iff valid UTF-8 (RFC 3629) without control characters; option numbers outside the RFC tables may be read as opaque or uint",
            "udp6 path: real MessageInterfaceUDP6 + RecvmsgSelectorDatagramTransport on the fake socket, message manager replaced by a recorder; datagrams above 4096 bytes are not pushed (recvmsg buffer)",
            "parsing of 65803/65804-byte values is exercised through Message.decode on the serialisations (beyond a UDP datagram's size)",
        ]


if __name__ == "__main__":
    sys.exit(runner.main("C01", work))
