"""C16 -- CoAP URIs and Uri-* options convert into each other without loss.

spec/CoapUri.tla is a generative model: TLC enumerates every structured URI
within the bounds (states of the generator), checks the spec-internal
invariants (Compose is the normal-profile serialisation and a fixed point,
escapes denote exactly the UTF-8 bytes, and -- in pair mode -- Compose is
injective and a text never stands for two option sets), and prints for every
state <<texts under all escaping profiles, acceptable option sets, acceptable
normal forms>>, plus the reject-class texts and host:port strings.

This module only drives and compares: every text goes through
Message(code=GET, uri=text) / get_request_uri(), every option set is put on a
message and composed, and the results are compared with what TLC printed.

Clauses
  C16_Decompose          options of Text(u, p) are Options(u)
  C16_ComposeNormalForm  get_request_uri() is Compose(Options(u)) (default port may be spelled out)
  C16_RecomposeStable    the composed URI decomposes to the same options and composes to itself
  C16_Injective          distinct (non-degenerate) option sets compose to distinct URIs
  C16_RejectClasses      unacceptable texts raise MalformedUrlError / IncompleteUrlError, nothing else
  C16_HostPortSplitJoin  hostportjoin / hostportsplit are mutually inverse
"""

import json
import os
import sys
import time
from multiprocessing import Pool

from harness import tlc, runner, MachineryError, require_repo

# --------------------------------------------------------------------------- configurations

GEN_CFG = """SPECIFICATION Spec
CONSTANTS
  Schemes = {%(schemes)s}
  Hosts = {%(hosts)s}
  Ports = {%(ports)s}
  Alphabet = {%(alphabet)s}
  MaxPath = %(maxpath)d
  MaxQuery = %(maxquery)d
  RichBudget = %(rich)d
  BaseSegs = %(basesegs)d
  BaseBudget = %(basebudget)d
  Profiles = {%(profiles)s}
  PairMode = %(pair)s
  Emit = %(emit)s
INVARIANT TypeOK
%(invariants)s
"""

# code points: a / ? & = % # space + ~ U+00E5 U+20AC U+1F600
ALPHABET_QUICK = [97, 47, 63, 38, 61, 37, 35, 32, 43, 126, 229, 8364, 128512]
# ... plus Z : @ ; [ 1 U+00C5
ALPHABET_THOROUGH = ALPHABET_QUICK + [90, 58, 64, 59, 91, 49, 197]

GEN_INVARIANTS = ["FixedPoint", "EscapesDenoteSegments", "EmitCases"]
PAIR_INVARIANTS = ["ComposeInjective", "TextUnambiguous"]


def _strset(xs):
    return ", ".join('"%s"' % x for x in xs)


def _intset(xs):
    return ", ".join(str(x) for x in xs)


def gen_consts(tier):
    if tier == "quick":
        return dict(
            schemes=["coap", "coaps", "coaptcp"],
            hosts=["host", "dotted", "aring", "bigring", "ip4a", "ip6lo", "ip6db8", "ip6zone"],
            ports=[0, 5683, 5684, 61616],
            alphabet=ALPHABET_QUICK,
            maxpath=2,
            maxquery=2,
            rich=2,
            basesegs=1,
            basebudget=1,
            profiles=[1, 2, 3, 4, 5, 6],
        )
    return dict(
        schemes=["coap", "coaps", "coaptcp", "coapstcp", "coapws", "coapsws"],
        hosts=["host", "dotted", "aring", "bigring", "numeric", "ip4a", "ip4b", "ip6lo", "ip6db8", "ip6zone"],
        ports=[0, 1, 80, 5683, 5684, 61616, 65535],
        alphabet=ALPHABET_THOROUGH,
        maxpath=2,
        maxquery=2,
        rich=3,
        basesegs=2,
        basebudget=1,
        profiles=[1, 2, 3, 4, 5, 6],
    )


def pair_consts(tier):
    if tier == "quick":
        return dict(
            schemes=["coap"],
            hosts=["host"],
            ports=[0],
            alphabet=[97, 47, 38, 37, 229],
            maxpath=2,
            maxquery=2,
            rich=1,
            basesegs=2,
            basebudget=1,
            profiles=[1, 4, 6],
        )
    return dict(
        schemes=["coap"],
        hosts=["host", "ip6lo"],
        ports=[0, 5683],
        alphabet=[97, 47, 63, 38, 37, 229],
        maxpath=2,
        maxquery=2,
        rich=1,
        basesegs=2,
        basebudget=1,
        profiles=[1, 2, 4, 6],
    )


def cfg_text(c, pair, emit, invariants):
    return GEN_CFG % dict(
        schemes=_strset(c["schemes"]),
        hosts=_strset(c["hosts"]),
        ports=_intset(c["ports"]),
        alphabet=_intset(c["alphabet"]),
        maxpath=c["maxpath"],
        maxquery=c["maxquery"],
        rich=c["rich"],
        basesegs=c["basesegs"],
        basebudget=c["basebudget"],
        profiles=_intset(c["profiles"]),
        pair="TRUE" if pair else "FALSE",
        emit="TRUE" if emit else "FALSE",
        invariants="\n".join("INVARIANT " + i for i in invariants),
    )


# --------------------------------------------------------------------------- TLC output -> cases


def _s(cps):
    return "".join(chr(c) for c in cps)


def opt_from_tuple(t):
    """<<scheme, dflt, hk, host cps, ip, destok, port, path, query>> as printed by TLC"""
    if len(t) != 9:
        raise MachineryError("unexpected option tuple from TLC: %r" % (t,))
    return {
        "scheme": t[0],
        "dflt": t[1],
        "hk": t[2],
        "host": _s(t[3]),
        "ip": t[4],
        "destok": list(t[5]),
        "port": t[6],
        "path": [_s(x) for x in t[7]],
        "query": [_s(x) for x in t[8]],
    }


def opt_key(o):
    return (o["scheme"], o["hk"], o["host"], o["ip"], o["port"], tuple(o["path"]), tuple(o["query"]))


def build_cases(r):
    """From the C16U lines: text cases (deduplicated by text) and option-set cases."""
    vals = tlc.printed_values(r, "C16U")
    if len(vals) != r.distinct:
        raise MachineryError("TLC found %d states but %d C16U lines were parsed" % (r.distinct, len(vals)))
    texts = {}
    optsets = {}
    for v in vals:
        _, tx, aopts, anf, degenerate = v
        accept = [opt_from_tuple(t) for t in aopts]
        for s in list(tx) + list(anf):
            if not isinstance(s, str) or "<" in s or ">" in s or not s.isascii():
                raise MachineryError("unexpected text from TLC: %r" % (s,))
        case = {"accept": accept, "nf": list(anf), "degenerate": degenerate}
        for text in tx:
            old = texts.get(text)
            if old is None:
                texts[text] = case
            elif [opt_key(o) for o in old["accept"]] != [opt_key(o) for o in accept] or old["nf"] != case["nf"]:
                raise MachineryError("the model prints two different expectations for the text %r" % text)
        k = opt_key(accept[0])
        if k in optsets and optsets[k]["nf"] != case["nf"]:
            raise MachineryError("the model prints two normal forms for one option set %r" % (k,))
        optsets[k] = {"opt": accept[0], "nf": list(anf), "degenerate": degenerate}
    # the model's own normal forms must be injective on what was printed (cheap cross-check of the pair run)
    seen = {}
    for k, c in optsets.items():
        if c["degenerate"]:
            continue
        if seen.setdefault(c["nf"][0], k) != k:
            raise MachineryError("model: two option sets with the normal form %r" % c["nf"][0])
    tcases = [dict(kind="text", text=t, **c) for t, c in texts.items()]
    ocases = [dict(kind="opts", **c) for c in optsets.values()]
    return tcases, ocases, len(vals)


def build_static(r):
    rej = []
    for v in tlc.printed_values(r, "C16R"):
        _, cls, hk, judged, text = v
        rej.append({"kind": "reject", "cls": cls, "hk": hk, "judged": judged, "text": text})
    hp = []
    for v in tlc.printed_values(r, "C16H"):
        _, kind, host, port, joined = v
        hp.append({"kind": "hostport", "hk": kind, "host": host, "port": port, "joined": joined})
    if not rej or not hp:
        raise MachineryError("TLC printed no reject / host:port cases")
    return rej, hp


# --------------------------------------------------------------------------- driving the implementation

_A = {}


def _init_worker():
    aiocoap = require_repo()
    from aiocoap import Message, GET, error
    from aiocoap.message import UndecidedRemote
    from aiocoap.util import hostportjoin, hostportsplit

    _A.update(
        Message=Message,
        GET=GET,
        error=error,
        UndecidedRemote=UndecidedRemote,
        hostportjoin=hostportjoin,
        hostportsplit=hostportsplit,
    )


def _exc(e):
    return "%s: %s" % (type(e).__name__, e)


def observe(m):
    """What the statement's observation points show of a request message."""
    rem = m.remote
    dhost, dport = _A["hostportsplit"](rem.hostinfo)
    return {
        "scheme": rem.scheme,
        "uri_host": m.opt.uri_host,
        "uri_port": m.opt.uri_port,
        "dest_host": dhost,
        "dest_port": dport,
        "path": list(m.opt.uri_path),
        "query": list(m.opt.uri_query),
        "proxy_uri": m.opt.proxy_uri,
    }


def matches(ob, o):
    """Does the observation show exactly the option set o?  The port may sit in
    Uri-Port or with the destination (absent = scheme default); for IP literals
    there is no Uri-Host and the destination is the literal."""
    if ob["proxy_uri"] is not None:
        return "Proxy-Uri set"
    if ob["scheme"] != o["scheme"]:
        return "scheme %r, expected %r" % (ob["scheme"], o["scheme"])
    if o["hk"] == "name":
        if ob["uri_host"] != o["host"]:
            return "Uri-Host %r, expected %r" % (ob["uri_host"], o["host"])
    else:
        if ob["uri_host"] is not None:
            return "Uri-Host %r set for an IP literal" % (ob["uri_host"],)
        if (ob["dest_host"] or "").lower() not in o["destok"]:
            return "destination host %r, expected one of %r" % (ob["dest_host"], o["destok"])
    port = ob["uri_port"] if ob["uri_port"] is not None else ob["dest_port"]
    if port is None:
        port = o["dflt"]
    if port != o["port"]:
        return "port %r, expected %r" % (port, o["port"])
    if ob["path"] != o["path"]:
        return "Uri-Path %r, expected %r" % (ob["path"], o["path"])
    if ob["query"] != o["query"]:
        return "Uri-Query %r, expected %r" % (ob["query"], o["query"])
    return None


def match_any(ob, accept):
    why = None
    for o in accept:
        w = matches(ob, o)
        if w is None:
            return None
        why = why or w
    return why


def _v(clause, norm, detail, case):
    return {"clause": clause, "sig": "%s|%s" % (clause, norm), "detail": detail, "replay": case}


def check_recompose(g, accept, first_ob, case, out, what):
    """g was composed by the implementation: it has to decompose to the same
    options and compose to itself."""
    Message, GET = _A["Message"], _A["GET"]
    nf = case["nf"][0]
    try:
        m2 = Message(code=GET, uri=g)
        ob2 = observe(m2)
    except Exception as e:
        out.append(_v("C16_RecomposeStable", nf, "%s: composed URI %r is not accepted back: %s" % (what, g, _exc(e)), case))
        return
    why = match_any(ob2, accept)
    if why is not None:
        out.append(_v("C16_RecomposeStable", nf, "%s: composed URI %r decomposes differently: %s" % (what, g, why), case))
        return
    if first_ob is not None:
        a = (first_ob["uri_host"], first_ob["path"], first_ob["query"])
        b = (ob2["uri_host"], ob2["path"], ob2["query"])
        if a != b:
            out.append(_v("C16_RecomposeStable", nf, "%s: options %r became %r after compose/decompose" % (what, a, b), case))
            return
    try:
        g2 = m2.get_request_uri()
    except Exception as e:
        out.append(_v("C16_RecomposeStable", nf, "%s: recomposing %r raised %s" % (what, g, _exc(e)), case))
        return
    if g2 != g:
        out.append(_v("C16_RecomposeStable", nf, "%s: %r recomposes to %r (no fixed point)" % (what, g, g2), case))


def eval_text(case):
    Message, GET = _A["Message"], _A["GET"]
    out = []
    text, accept, nfs = case["text"], case["accept"], case["nf"]
    nf = nfs[0]
    try:
        m = Message(code=GET, uri=text)
        ob = observe(m)
    except Exception as e:
        out.append(_v("C16_Decompose", nf, "%r is a CoAP URI but decomposing it raised %s" % (text, _exc(e)), case))
        return out, None
    why = match_any(ob, accept)
    if why is not None:
        out.append(_v("C16_Decompose", nf, "%r: %s" % (text, why), case))
    try:
        g = m.get_request_uri()
    except Exception as e:
        out.append(_v("C16_ComposeNormalForm", nf, "%r: composing the options back raised %s" % (text, _exc(e)), case))
        return out, None
    if g not in nfs:
        out.append(_v("C16_ComposeNormalForm", nf, "%r composes back to %r, expected %r" % (text, g, nfs[0]), case))
    check_recompose(g, accept, ob, case, out, "from text %r" % text)
    # the same with the host kept out of the options (set_uri_host=False): the
    # URI composed from that message still has to decompose to the same options
    try:
        m3 = Message(code=GET)
        m3.set_request_uri(text, set_uri_host=False)
        g3 = m3.get_request_uri()
        m4 = Message(code=GET, uri=g3)
        why = match_any(observe(m4), accept)
        if why is not None:
            out.append(_v("C16_RecomposeStable", nf, "%r (set_uri_host=False) composes to %r which decomposes differently: %s" % (text, g3, why), case))
    except Exception as e:
        out.append(_v("C16_RecomposeStable", nf, "%r (set_uri_host=False): %s" % (text, _exc(e)), case))
    return out, None


RESOLVED = "192.0.2.7"  # stands for the address a reg-name resolved to


def eval_opts(case):
    """Option set -> message -> URI (three ways to carry the port), compared with Compose."""
    Message, GET, UndecidedRemote, hostportjoin = _A["Message"], _A["GET"], _A["UndecidedRemote"], _A["hostportjoin"]
    out = []
    o, nfs = case["opt"], case["nf"]
    nf = nfs[0]
    dest = RESOLVED if o["hk"] == "name" else o["ip"]
    other = 5683 if o["port"] != 5683 else 61617
    modes = [("port with destination", o["port"], None)]
    if o["port"] == o["dflt"]:
        modes.append(("default port implied", None, None))
    modes.append(("Uri-Port", other, o["port"]))
    composed = None
    for name, dport, uport in modes:
        what = "options %r (%s)" % (opt_key(o), name)
        try:
            m = Message(code=GET)
            if o["hk"] == "name":
                m.opt.uri_host = o["host"]
            if uport is not None:
                m.opt.uri_port = uport
            m.opt.uri_path = tuple(o["path"])
            m.opt.uri_query = tuple(o["query"])
            m.remote = UndecidedRemote(o["scheme"], hostportjoin(dest, dport))
            g = m.get_request_uri()
        except Exception as e:
            out.append(_v("C16_ComposeNormalForm", nf, "%s: composing raised %s" % (what, _exc(e)), case))
            continue
        if g not in nfs:
            out.append(_v("C16_ComposeNormalForm", nf, "%s composes to %r, expected %r" % (what, g, nf), case))
        if composed is None:
            composed = g
        if not case["degenerate"]:
            check_recompose(g, [o], None, case, out, what)
    return out, (composed, case["degenerate"])


def eval_reject(case):
    Message, GET, error = _A["Message"], _A["GET"], _A["error"]
    documented = (error.MalformedUrlError, error.IncompleteUrlError)
    text = case["text"]
    try:
        m = Message(code=GET)
        m.set_request_uri(text)
    except documented:
        return [], "rejected"
    except Exception as e:
        norm = "%s|%s|%s" % (case["cls"], case["hk"], type(e).__name__)
        return [_v("C16_RejectClasses", norm, "%r (class %s) raised %s instead of MalformedUrlError / IncompleteUrlError" % (text, case["cls"], _exc(e)), case)], "other"
    if case["judged"]:
        norm = "%s|%s|accepted" % (case["cls"], case["hk"])
        return [_v("C16_RejectClasses", norm, "%r (class %s) was accepted: Uri-Host %r path %r query %r Proxy-Uri %r" % (text, case["cls"], m.opt.uri_host, m.opt.uri_path, m.opt.uri_query, m.opt.proxy_uri), case)], "accepted"
    return [], "accepted-open"


def eval_hostport(case):
    hostportjoin, hostportsplit = _A["hostportjoin"], _A["hostportsplit"]
    host, joined = case["host"], case["joined"]
    port = case["port"] or None
    norm = "%s|%s" % (case["hk"], joined)
    out = []
    try:
        j = hostportjoin(host, port)
        if j != joined:
            out.append(_v("C16_HostPortSplitJoin", norm, "hostportjoin(%r, %r) = %r, expected %r" % (host, port, j, joined), case))
        s = tuple(hostportsplit(joined))
        if s != (host, port):
            out.append(_v("C16_HostPortSplitJoin", norm, "hostportsplit(%r) = %r, expected %r" % (joined, s, (host, port)), case))
        j2 = hostportjoin(*s)
        if j2 != joined:
            out.append(_v("C16_HostPortSplitJoin", norm, "hostportjoin(*hostportsplit(%r)) = %r" % (joined, j2), case))
        if case["hk"] == "ip6":
            j3 = hostportjoin("[%s]" % host, port)
            if j3 != joined:
                out.append(_v("C16_HostPortSplitJoin", norm, "hostportjoin(%r, %r) = %r, expected %r" % ("[%s]" % host, port, j3, joined), case))
    except Exception as e:
        out.append(_v("C16_HostPortSplitJoin", norm, "%r: %s" % (joined, _exc(e)), case))
    return out, None


EVAL = {"text": eval_text, "opts": eval_opts, "reject": eval_reject, "hostport": eval_hostport}


def _eval_chunk(chunk):
    if not _A:
        _init_worker()
    res = []
    for case in chunk:
        try:
            res.append(EVAL[case["kind"]](case))
        except Exception:
            import traceback

            return {"error": "case %r\n%s" % (case, traceback.format_exc())}
    return {"results": res}


def run_cases(cases):
    n = max(1, min(2000, len(cases) // 64 + 1))
    chunks = [cases[i : i + n] for i in range(0, len(cases), n)]
    with Pool(min(16, os.cpu_count() or 4)) as p:
        outs = p.map(_eval_chunk, chunks)
    res = []
    for o in outs:
        if "error" in o:
            raise MachineryError("driver failed: " + o["error"])
        res.extend(o["results"])
    return res


# --------------------------------------------------------------------------- verdicts

MAX_PER_GROUP = 3


def report(rep, viols):
    """At most MAX_PER_GROUP witnesses per clause (and reject class), shortest
    input first; the totals go into the evidence."""
    groups = {}
    for v in viols:
        g = v["clause"]
        if v["clause"] == "C16_RejectClasses":
            g = v["sig"]
        groups.setdefault(g, {})
        groups[g].setdefault(v["sig"], v)

    def size(v):
        c = v["replay"]
        t = c.get("text") or c.get("joined") or (c.get("nf") or [""])[0]
        return (len(t), t)

    totals = {}
    for g, bysig in sorted(groups.items()):
        totals[g] = len(bysig)
        for v in sorted(bysig.values(), key=size)[:MAX_PER_GROUP]:
            rep.violation(v["clause"], v["sig"], v["detail"], v["replay"])
    return totals


def replay(rep, path):
    with open(path) as f:
        data = json.load(f)
    case = data["replay"]
    _init_worker()
    if case.get("kind") == "collision":
        viols = []
        a = eval_opts(case["a"])[1][0]
        b = eval_opts(case["b"])[1][0]
        if a == b:
            viols.append(_v("C16_Injective", a, "two option sets compose to %r" % a, case))
    else:
        viols = EVAL[case["kind"]](case)[0]
    report(rep, viols)
    rep.coverage.update({"states": 0, "transitions": 0, "traces_validated_against_impl": 1, "replayed": path})


def work(rep, args):
    if args.replay:
        replay(rep, args.replay)
        return
    tier = args.tier
    gc, pc = gen_consts(tier), pair_consts(tier)
    t0 = time.time()
    with tlc.Workdir() as wd:
        wd.write("CoapUri_gen.cfg", cfg_text(gc, False, True, GEN_INVARIANTS))
        gen = tlc.run(wd, "CoapUri.tla", "CoapUri_gen.cfg", timeout=240 if tier == "quick" else 1500, heap="6g")
        tlc.need_ok_run(gen, "CoapUri generator")
        if gen.violated:
            raise MachineryError("CoapUri: spec-internal invariant %s fails; the model is inconsistent" % gen.violated)
        wd.write("CoapUri_pair.cfg", cfg_text(pc, True, False, PAIR_INVARIANTS))
        pair = tlc.run(wd, "CoapUri.tla", "CoapUri_pair.cfg", timeout=240 if tier == "quick" else 1500, heap="6g")
        tlc.need_ok_run(pair, "CoapUri pair mode")
        if pair.violated:
            raise MachineryError("CoapUri: %s fails in pair mode; the model is ambiguous" % pair.violated)
    t_tlc = time.time() - t0
    tcases, ocases, nstates = build_cases(gen)
    rej, hp = build_static(gen)
    gen.out = ""  # free
    cases = tcases + ocases + rej + hp
    t1 = time.time()
    results = run_cases(cases)
    t_impl = time.time() - t1

    viols = []
    composed = {}
    reject_outcomes = {}
    for case, (vs, extra) in zip(cases, results):
        viols.extend(vs)
        if case["kind"] == "opts" and extra and extra[0] is not None and not extra[1]:
            g = extra[0]
            other = composed.get(g)
            if other is not None and opt_key(other["opt"]) != opt_key(case["opt"]):
                viols.append(
                    _v(
                        "C16_Injective",
                        g,
                        "option sets %r and %r both compose to %r" % (opt_key(other["opt"]), opt_key(case["opt"]), g),
                        {"kind": "collision", "a": other, "b": case, "nf": [g]},
                    )
                )
            else:
                composed[g] = case
        if case["kind"] == "reject":
            k = case["cls"] + ("" if case["judged"] else " (border case, not judged)")
            d = reject_outcomes.setdefault(k, {})
            d[extra] = d.get(extra, 0) + 1
    totals = report(rep, viols)
    open_accepted = sorted(c["text"] for c, (vs, extra) in zip(cases, results) if c["kind"] == "reject" and extra == "accepted-open")
    if open_accepted:
        rep.notes.append(
            "border cases the statement does not classify were accepted (not judged): %d texts, e.g. %s"
            % (len(open_accepted), ", ".join(repr(t) for t in sorted(open_accepted, key=len)[:4]))
        )

    def sample(c):
        c = dict(c)
        c.pop("kind", None)
        return c

    classes = sorted({c["cls"] for c in rej})
    rep.coverage.update(
        {
            "states": gen.distinct,
            "transitions": gen.generated,
            "depth": gen.depth,
            "pair_states": pair.distinct,
            "pair_transitions": pair.generated,
            "exhaustive": True,
            "generator_constants": gc,
            "pair_constants": pc,
            "spec_invariants": ["TypeOK"] + GEN_INVARIANTS[:2] + PAIR_INVARIANTS,
            "structured_uris": nstates,
            "texts": len(tcases),
            "option_sets": len(ocases),
            "reject_texts": len(rej),
            "reject_classes": classes,
            "reject_outcomes": reject_outcomes,
            "hostport_strings": len(hp),
            "traces_validated_against_impl": len(cases),
            "distinct_nontrivial": len(composed),
            "violating_inputs_by_clause": totals,
            "tlc_wall_s": round(t_tlc, 1),
            "impl_wall_s": round(t_impl, 1),
            "samples": [sample(tcases[len(tcases) // 3]), sample(tcases[-1]), sample(ocases[len(ocases) // 2]), sample(rej[len(rej) // 2]), sample(hp[len(hp) // 2])],
            "checker_cmd": "tlc CoapUri.tla (generator: exhaustive, invariants + printed cases) ; tlc CoapUri.tla PairMode=TRUE (ComposeInjective, TextUnambiguous)",
        }
    )
    rep.assumptions += [
        "spec/CoapUri.tla is a transcribed reference (RFC 3986 serialisation, RFC 7252 6.4 / 6.5) evaluated by TLC; every comparison is a single-step one (no interleavings)",
        "hosts are RFC 3986 reg-names, IPv4 and IPv6 literals from HostTab; IPvFuture, dot segments, percent-encoded upper-case letters in hosts and unescaped non-ASCII text are not generated",
        "a single empty query ('...?') and an empty userinfo / fragment delimiter are not judged (statement silent)",
        "a default port may be spelled out or omitted in the composed URI",
        "bounds: %d structured URIs over an alphabet of %d code points, total segment characters <= %d (reference base) / %d (other bases)"
        % (nstates, len(gc["alphabet"]), gc["rich"], gc["basebudget"]),
    ]


if __name__ == "__main__":
    sys.exit(runner.main("C16", work))
