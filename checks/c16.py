"""C16 -- CoAP URIs and Uri-* options convert into each other without loss.

spec/CoapUri.tla is a generative model: TLC enumerates every structured URI
within the bounds (states of the generator), checks the spec-internal
invariants (Compose is the normal-profile serialisation and a fixed point,
escapes denote exactly the UTF-8 bytes, and -- in pair mode -- Compose is
injective and a text never stands for two option sets), and prints for every
state <<texts under all escaping profiles, acceptable option sets, acceptable
normal forms>>, plus the reject-class texts and host:port strings.

This module only drives and compares: every text goes through
Message(code=GET, uri=text) / get_request_uri(), every option set is put on a
message and composed, and the results are compared with what TLC printed.

Clauses
  C16_Decompose          options of Text(u, p) are Options(u) -- on a fresh message and on one that
                         carried another URI before (second set_request_uri, Message.copy(uri=...))
  C16_PortWithDestination  the destination of a decomposed URI carries the URI's port
  C16_ComposeNormalForm  get_request_uri() is Compose(Options(u)) (default port may be spelled out)
  C16_RecomposeStable    the composed URI decomposes to the same options and composes to itself
  C16_Injective          distinct (non-degenerate) option sets compose to distinct URIs
  C16_RejectClasses      unacceptable texts raise MalformedUrlError / IncompleteUrlError, nothing else
  C16_HostPortSplitJoin  hostportjoin / hostportsplit are mutually inverse
"""

import hashlib
import json
import os
import sys
import time
import zlib
from concurrent.futures import ThreadPoolExecutor
from multiprocessing import Pool

from harness import tlc, runner, MachineryError, require_repo

# --------------------------------------------------------------------------- configurations

GEN_CFG = """SPECIFICATION Spec
CONSTANTS
  Schemes = {%(schemes)s}
  Hosts = {%(hosts)s}
  Ports = {%(ports)s}
  Alphabet = {%(alphabet)s}
  MaxPath = %(maxpath)d
  MaxQuery = %(maxquery)d
  RichBudget = %(rich)d
  BaseSegs = %(basesegs)d
  BaseBudget = %(basebudget)d
  Profiles = {%(profiles)s}
  Product = "%(product)s"
  PairMode = %(pair)s
  Emit = %(emit)s
INVARIANT TypeOK
%(invariants)s
"""

# code points: a / ? & = % # space + ~ ; U+00E5 U+1F600, and U+0301 (combining acute: "a" U+0301 composes
# under NFC), U+212B (ANGSTROM SIGN, NFC turns it into U+00C5; also the three-byte representative)
ALPHABET_QUICK = [97, 47, 63, 38, 61, 37, 35, 32, 43, 126, 59, 229, 128512, 769, 8491]
# ... plus Z : @ [ 1 U+00C5 U+20AC
ALPHABET_THOROUGH = ALPHABET_QUICK + [90, 58, 64, 91, 49, 197, 8364]

GEN_INVARIANTS = ["FixedPoint", "EscapesDenoteSegments", "LiteralReadingUnstable", "EmitCases"]
PAIR_INVARIANTS = ["ComposeInjective", "TextUnambiguous", "ReuseIndependent", "EmitPairs"]


def _strset(xs):
    return ", ".join('"%s"' % x for x in xs)


def _intset(xs):
    return ", ".join(str(x) for x in xs)


def gen_runs(tier):
    """Generator runs: (name, constants, what is printed, TLC workers).
    'wide' varies scheme x host x port and has the full segment alphabet with
    few characters per URI; 'deep' has a small alphabet (a letter that is also a
    hex digit, '%', a delimiter, a non-ASCII character) and longer segments on
    the reference base."""
    if tier == "quick":
        wide = dict(
            schemes=["coap", "coaps", "coaptcp", "coapws"],
            hosts=["host", "aring", "bigring", "arabic", "arabmix", "numeric", "emptylabel", "three", "five", "trail",
                   "ip4a", "ip6lo", "ip6zoneU"],
            ports=[0, 5683, 61616],
            alphabet=ALPHABET_QUICK,
            maxpath=2,
            maxquery=2,
            rich=2,
            basesegs=1,
            basebudget=1,
            profiles=[1, 2, 3, 4, 5, 6, 7, 9],
            product="star",
        )
        deep = dict(
            schemes=["coap"],
            hosts=["host"],
            ports=[0],
            alphabet=[97, 37, 229],
            maxpath=2,
            maxquery=2,
            rich=3,
            basesegs=1,
            basebudget=1,
            profiles=[1, 4, 5, 6],
            product="star",
        )
        return [("wide", wide, "all", 10), ("deep", deep, "cases", 3)]
    wide = dict(
        schemes=["coap", "coaps", "coaptcp", "coapstcp", "coapws", "coapsws"],
        hosts=["host", "dotted", "aring", "bigring", "numeric", "emptylabel", "three", "five", "trail", "arabic", "arabmix",
               "ip4a", "ip4b", "ip6lo", "ip6db8", "ip6zone", "ip6zoneU"],
        ports=[0, 1, 80, 5683, 5684, 61616, 65535],
        alphabet=ALPHABET_THOROUGH,
        maxpath=2,
        maxquery=2,
        rich=2,
        basesegs=1,
        basebudget=1,
        profiles=[1, 2, 3, 4, 5, 6, 7, 8, 9, 10],
        product="cross",
    )
    deep = dict(
        schemes=["coap"],
        hosts=["host"],
        ports=[0],
        alphabet=[97, 37, 229, 769],
        maxpath=2,
        maxquery=2,
        rich=4,
        basesegs=1,
        basebudget=1,
        profiles=[1, 2, 3, 4, 5, 6],
        product="star",
    )
    deep3 = dict(deep, alphabet=[97, 37, 47, 38, 8364, 8491], rich=3)
    return [("wide", wide, "all", 8), ("deep", deep, "cases", 3), ("deep3", deep3, "cases", 3)]


def pair_consts(tier):
    """Pair mode: two URIs side by side; also printed as <<URI the message carried, URI set on it>>."""
    if tier == "quick":
        return dict(
            schemes=["coap"],
            hosts=["host", "ip6lo"],
            ports=[0],
            alphabet=[97, 47, 38, 37],
            maxpath=2,
            maxquery=2,
            rich=1,
            basesegs=1,
            basebudget=1,
            profiles=[1, 4, 6],
            product="full",
        )
    return dict(
        schemes=["coap"],
        hosts=["host", "ip6lo"],
        ports=[0, 5683],
        alphabet=[97, 47, 63, 38, 37, 229],
        maxpath=2,
        maxquery=2,
        rich=1,
        basesegs=1,
        basebudget=1,
        profiles=[1, 2, 4, 6],
        product="full",
    )


def cfg_text(c, pair, emit, invariants):
    return GEN_CFG % dict(
        schemes=_strset(c["schemes"]),
        hosts=_strset(c["hosts"]),
        ports=_intset(c["ports"]),
        alphabet=_intset(c["alphabet"]),
        maxpath=c["maxpath"],
        maxquery=c["maxquery"],
        rich=c["rich"],
        basesegs=c["basesegs"],
        basebudget=c["basebudget"],
        profiles=_intset(c["profiles"]),
        product=c["product"],
        pair="TRUE" if pair else "FALSE",
        emit='"%s"' % emit,
        invariants="\n".join("INVARIANT " + i for i in invariants),
    )


# --------------------------------------------------------------------------- TLC output -> cases


def _s(cps):
    return "".join(chr(c) for c in cps)


def opt_from_tuple(t):
    """<<scheme, dflt, hk, host cps, ip, destok, port, path, query>> as printed by TLC"""
    if len(t) != 9:
        raise MachineryError("unexpected option tuple from TLC: %r" % (t,))
    return {
        "scheme": t[0],
        "dflt": t[1],
        "hk": t[2],
        "host": _s(t[3]),
        "ip": t[4],
        "destok": list(t[5]),
        "port": t[6],
        "path": [_s(x) for x in t[7]],
        "query": [_s(x) for x in t[8]],
    }


def opt_key(o):
    return (o["scheme"], o["hk"], o["host"], o["ip"], o["port"], tuple(o["path"]), tuple(o["query"]))


def parse_line(line):
    """The spec prints PrintT(ToString(<<tag, ...>>)): one quoted line per value,
    made of tuples, strings and numbers only."""
    if not line.endswith('>>"'):
        raise MachineryError("truncated line in TLC output: %r" % line[:200])
    body = line[1:-1].replace('\\"', '"')
    if "\\" in body:
        raise MachineryError("unexpected escape in TLC output: %r" % line[:200])
    try:
        return json.loads(body.replace("<<", "[").replace(">>", "]"))
    except ValueError as e:
        raise MachineryError("unparsable line in TLC output: %r (%s)" % (line[:200], e))


def case_lines(out):
    """{tag: [line, ...]} of the lines the spec printed."""
    lines = {"C16U": [], "C16R": [], "C16H": [], "C16P": [], "C16L": []}
    for line in out.splitlines():
        if line.startswith('"<<\\"C16'):
            lines[line[5:9]].append(line)
    return lines


def text_of(chars):
    """A text is printed as the sequence of its characters; a non-ASCII
    character written unescaped is printed as the one string "U+<hex>"."""
    try:
        s = "".join(c if len(c) == 1 else _RAW[c] for c in chars)
    except KeyError:
        raise MachineryError("unexpected text from TLC: %r" % (chars,))
    if len(s) != len(chars) or "<" in s or ">" in s:
        raise MachineryError("unexpected text from TLC: %r" % (chars,))
    return s


class _RawTokens(dict):
    def __missing__(self, tok):
        if not (tok.startswith("U+") and 6 <= len(tok) <= 7):
            raise KeyError(tok)
        c = chr(int(tok[2:], 16))
        if c.isascii():
            raise KeyError(tok)
        self[tok] = c
        return c


_RAW = _RawTokens()


def state_cases(v, all_variants):
    """One C16U value (= one state of the generator) -> its text cases and its option-set case."""
    _, tx, aopts, anf, degenerate, lits = v
    accept = [opt_from_tuple(t) for t in aopts]
    tx = [text_of(t) for t in tx]
    anf = [text_of(t) for t in anf]
    if len(lits) != len(tx):
        raise MachineryError("unexpected C16U value from TLC: %r" % (v,))
    tcases = []
    for n, text in enumerate(tx):
        c = {"kind": "text", "text": text, "accept": accept, "nf": anf, "degenerate": degenerate}
        if lits[n]:
            # second admissible Uri-Host (escaped upper-case letters left upper-case), the normal forms of
            # that option set, and the Uri-Host TLC expects after composing and decomposing it
            lhost, lnf, rehost = lits[n]
            c["lit"] = {
                "accept": [dict(o, host=_s(lhost)) for o in accept],
                "nf": [text_of(t) for t in lnf],
                "re": [dict(o, host=_s(rehost)) for o in accept],
            }
        if not (all_variants or n in (0, len(tx) - 1)):
            c["novariant"] = 1  # quick tier: the set_uri_host=False variant only for the first and last profile
        tcases.append(c)
    ocase = {"kind": "opts", "opt": accept[0], "nf": anf, "degenerate": degenerate}
    return tcases, ocase


def expectation_digest(c):
    lit = c.get("lit")
    lit = lit and ([opt_key(o) for o in lit["accept"]], lit["nf"], [opt_key(o) for o in lit["re"]])
    return hashlib.sha1(repr(([opt_key(o) for o in c["accept"]], c["nf"], lit)).encode()).hexdigest()[:16]


def build_static(lines):
    rej = {}
    for line in lines["C16R"]:
        _, cls, hk, judged, text = parse_line(line)
        text = text_of(text)
        rej.setdefault((cls, text), {"kind": "reject", "cls": cls, "hk": hk, "judged": judged, "text": text})
    rej = list(rej.values())
    hp = {}
    for line in lines["C16H"]:
        _, kind, host, port, joined = parse_line(line)
        joined = text_of(joined)
        hp[joined] = {"kind": "hostport", "hk": kind, "host": host, "port": port, "joined": joined}
    hp = list(hp.values())
    if not rej or not hp:
        raise MachineryError("TLC printed no reject / host:port cases")
    return rej, hp


# --------------------------------------------------------------------------- driving the implementation

_A = {}


def _init_worker():
    require_repo()
    from aiocoap import Message, GET, error
    from aiocoap.message import UndecidedRemote
    from aiocoap.util import hostportjoin, hostportsplit

    _A.update(
        Message=Message,
        GET=GET,
        error=error,
        UndecidedRemote=UndecidedRemote,
        hostportjoin=hostportjoin,
        hostportsplit=hostportsplit,
    )


def _exc(e):
    return "%s: %s" % (type(e).__name__, e)


def observe(m):
    """What the statement's observation points show of a request message."""
    rem = m.remote
    dhost, dport = _A["hostportsplit"](rem.hostinfo)
    return {
        "scheme": rem.scheme,
        "uri_host": m.opt.uri_host,
        "uri_port": m.opt.uri_port,
        "dest_host": dhost,
        "dest_port": dport,
        "path": list(m.opt.uri_path),
        "query": list(m.opt.uri_query),
        "proxy_uri": m.opt.proxy_uri,
    }


def matches(ob, o):
    """Does the observation show exactly the option set o?  The port may sit in
    Uri-Port or with the destination (absent = scheme default); for IP literals
    there is no Uri-Host and the destination is the literal."""
    if ob["proxy_uri"] is not None:
        return "Proxy-Uri set"
    if ob["scheme"] != o["scheme"]:
        return "scheme %r, expected %r" % (ob["scheme"], o["scheme"])
    if o["hk"] == "name":
        if ob["uri_host"] != o["host"]:
            return "Uri-Host %r, expected %r" % (ob["uri_host"], o["host"])
    else:
        if ob["uri_host"] is not None:
            return "Uri-Host %r set for an IP literal" % (ob["uri_host"],)
        # the address is case-insensitive, a zone identifier (interface name) is not
        addr, pct, zone = (ob["dest_host"] or "").partition("%")
        if addr.lower() + pct + zone not in o["destok"]:
            return "destination host %r, expected one of %r" % (ob["dest_host"], o["destok"])
    port = ob["uri_port"] if ob["uri_port"] is not None else ob["dest_port"]
    if port is None:
        port = o["dflt"]
    if port != o["port"]:
        return "port %r, expected %r" % (port, o["port"])
    if ob["path"] != o["path"]:
        return "Uri-Path %r, expected %r" % (ob["path"], o["path"])
    if ob["query"] != o["query"]:
        return "Uri-Query %r, expected %r" % (ob["query"], o["query"])
    return None


def port_kept(ob, accept):
    """'the port kept with the destination': the destination of a decomposed URI
    carries the URI's port (a default port may be left implicit); TLC's option
    sets give port and default."""
    o = accept[0]
    dp = ob["dest_port"]
    if dp == o["port"] or (dp is None and o["port"] == o["dflt"]):
        return None
    return "the destination %r has port %r, the URI's port is %r (Uri-Port %r)" % (ob["dest_host"], dp, o["port"], ob["uri_port"])


def match_any(ob, accept):
    why = None
    for o in accept:
        w = matches(ob, o)
        if w is None:
            return None
        why = why or w
    return why


def _v(clause, norm, detail, case):
    return {"clause": clause, "sig": "%s|%s" % (clause, norm), "detail": detail, "replay": case}


def check_recompose(g, accept, first_ob, case, out, what):
    """g was composed by the implementation: it has to decompose to the same
    options and compose to itself."""
    Message, GET = _A["Message"], _A["GET"]
    nf = case["nf"][0]
    try:
        m2 = Message(code=GET, uri=g)
        ob2 = observe(m2)
    except Exception as e:
        out.append(_v("C16_RecomposeStable", nf, "%s: composed URI %r is not accepted back: %s" % (what, g, _exc(e)), case))
        return
    why = match_any(ob2, accept)
    if why is not None:
        out.append(_v("C16_RecomposeStable", nf, "%s: composed URI %r decomposes differently: %s" % (what, g, why), case))
        return
    why = port_kept(ob2, accept)
    if why is not None:
        out.append(_v("C16_PortWithDestination", nf, "%s: composed URI %r: %s" % (what, g, why), case))
    if first_ob is not None:
        a = (first_ob["uri_host"], first_ob["path"], first_ob["query"])
        b = (ob2["uri_host"], ob2["path"], ob2["query"])
        if a != b:
            out.append(_v("C16_RecomposeStable", nf, "%s: options %r became %r after compose/decompose" % (what, a, b), case))
            return
    try:
        g2 = m2.get_request_uri()
    except Exception as e:
        out.append(_v("C16_RecomposeStable", nf, "%s: recomposing %r raised %s" % (what, g, _exc(e)), case))
        return
    if g2 != g:
        out.append(_v("C16_RecomposeStable", nf, "%s: %r recomposes to %r (no fixed point)" % (what, g, g2), case))


def reused_message(text, loader, accept, nf, case, out):
    """The options of a URI do not depend on what the message carried before:
    set the text on a message that was built from another URI (a second
    set_request_uri, and Message.copy(uri=...))."""
    if not loader or loader == text:
        return
    Message, GET = _A["Message"], _A["GET"]
    for how in ("set_request_uri on", "copy(uri=...) of"):
        try:
            m0 = Message(code=GET, uri=loader)
            if how.startswith("set"):
                m0.set_request_uri(text)
            else:
                m0 = m0.copy(uri=text)
            ob = observe(m0)
        except Exception as e:
            out.append(_v("C16_Decompose", "reused-message|" + nf, "%s a message that carried %r with %r raised %s" % (how, loader, text, _exc(e)), case))
            continue
        why = match_any(ob, accept) or port_kept(ob, accept)
        if why is not None:
            out.append(_v("C16_Decompose", "reused-message|" + nf, "%s a message that carried %r with %r: %s" % (how, loader, text, why), case))


def eval_pair(case):
    """Pair mode of the model: the message carried Text(v), Text(u) is set on it; expected Options(u)."""
    out = []
    reused_message(case["text"], case["loader"], case["accept"], case["nf"][0], case, out)
    return out, None


def eval_text(case):
    Message, GET = _A["Message"], _A["GET"]
    out = []
    text, accept, nfs = case["text"], case["accept"], case["nf"]
    nf = nfs[0]
    try:
        m = Message(code=GET, uri=text)
        ob = observe(m)
    except Exception as e:
        out.append(_v("C16_Decompose", nf, "%r is a CoAP URI but decomposing it raised %s" % (text, _exc(e)), case))
        return out, None
    # which admissible reading did the implementation take?  (a host with "%41"-style escapes has two:
    # the statement's all-lower-case Uri-Host, and 6.4 step 5 read literally); everything after is
    # judged on the options the implementation actually produced
    lit = case.get("lit")
    re_accept = accept
    why = match_any(ob, accept)
    if why is not None and lit is not None and match_any(ob, lit["accept"]) is None:
        why, nfs, re_accept = None, lit["nf"], lit["re"]
    if why is not None:
        out.append(_v("C16_Decompose", nf, "%r: %s" % (text, why), case))
    else:
        why = port_kept(ob, accept)
        if why is not None:
            out.append(_v("C16_PortWithDestination", nf, "%r: %s" % (text, why), case))
    reused_message(text, case.get("loader"), accept + (lit["accept"] if lit else []), nf, case, out)
    try:
        g = m.get_request_uri()
    except Exception as e:
        out.append(_v("C16_ComposeNormalForm", nf, "%r: composing the options back raised %s" % (text, _exc(e)), case))
        return out, None
    drift = None
    if g not in nfs:
        out.append(_v("C16_ComposeNormalForm", nf, "%r composes back to %r, expected %r" % (text, g, nfs[0]), case))
    elif g not in nfs[0::3] and g not in nfs[1::3]:
        drift = (text, g)  # accepted, but the model's generator would not write it: empty port left behind ":"
    check_recompose(g, re_accept, ob, case, out, "from text %r" % text)
    # the same with the host kept out of the options (set_uri_host=False): the
    # URI composed from that message still has to decompose to the same options
    if case.get("novariant"):
        return out, drift
    try:
        m3 = Message(code=GET)
        m3.set_request_uri(text, set_uri_host=False)
        g3 = m3.get_request_uri()
        m4 = Message(code=GET, uri=g3)
        why = match_any(observe(m4), accept + (lit["accept"] if lit else []))
        if why is not None:
            out.append(_v("C16_RecomposeStable", nf, "%r (set_uri_host=False) composes to %r which decomposes differently: %s" % (text, g3, why), case))
    except Exception as e:
        out.append(_v("C16_RecomposeStable", nf, "%r (set_uri_host=False): %s" % (text, _exc(e)), case))
    return out, drift


RESOLVED = "192.0.2.7"  # stands for the address a reg-name resolved to


def eval_opts(case):
    """Option set -> message -> URI (three ways to carry the port), compared with Compose."""
    Message, GET, UndecidedRemote, hostportjoin = _A["Message"], _A["GET"], _A["UndecidedRemote"], _A["hostportjoin"]
    out = []
    o, nfs = case["opt"], case["nf"]
    nf = nfs[0]
    dest = RESOLVED if o["hk"] == "name" else o["ip"]
    other = 5683 if o["port"] != 5683 else 61617
    modes = [("port with destination", o["port"], None)]
    if o["port"] == o["dflt"]:
        modes.append(("default port implied", None, None))
    modes.append(("Uri-Port", other, o["port"]))
    composed = None
    for name, dport, uport in modes:
        what = "options %r (%s)" % (opt_key(o), name)
        try:
            m = Message(code=GET)
            if o["hk"] == "name":
                m.opt.uri_host = o["host"]
            if uport is not None:
                m.opt.uri_port = uport
            m.opt.uri_path = tuple(o["path"])
            m.opt.uri_query = tuple(o["query"])
            m.remote = UndecidedRemote(o["scheme"], hostportjoin(dest, dport))
            g = m.get_request_uri()
        except Exception as e:
            out.append(_v("C16_ComposeNormalForm", nf, "%s: composing raised %s" % (what, _exc(e)), case))
            continue
        if g not in nfs:
            out.append(_v("C16_ComposeNormalForm", nf, "%s composes to %r, expected %r" % (what, g, nf), case))
        if composed is None:
            composed = g
        if not case["degenerate"]:
            check_recompose(g, [o], None, case, out, what)
    return out, (composed, case["degenerate"])


def eval_reject(case):
    Message, GET, error = _A["Message"], _A["GET"], _A["error"]
    documented = (error.MalformedUrlError, error.IncompleteUrlError)
    text = case["text"]
    try:
        m = Message(code=GET)
        m.set_request_uri(text)
    except documented:
        return [], "rejected"
    except Exception as e:
        norm = "%s|%s|%s" % (case["cls"], case["hk"], type(e).__name__)
        return [_v("C16_RejectClasses", norm, "%r (class %s) raised %s instead of MalformedUrlError / IncompleteUrlError" % (text, case["cls"], _exc(e)), case)], "other"
    if case["judged"]:
        norm = "%s|%s|accepted" % (case["cls"], case["hk"])
        return [_v("C16_RejectClasses", norm, "%r (class %s) was accepted: Uri-Host %r path %r query %r Proxy-Uri %r" % (text, case["cls"], m.opt.uri_host, m.opt.uri_path, m.opt.uri_query, m.opt.proxy_uri), case)], "accepted"
    return [], "accepted-open"


def eval_hostport(case):
    hostportjoin, hostportsplit = _A["hostportjoin"], _A["hostportsplit"]
    host, joined = case["host"], case["joined"]
    port = case["port"] or None
    norm = "%s|%s" % (case["hk"], joined)
    out = []
    try:
        j = hostportjoin(host, port)
        if j != joined:
            out.append(_v("C16_HostPortSplitJoin", norm, "hostportjoin(%r, %r) = %r, expected %r" % (host, port, j, joined), case))
        s = tuple(hostportsplit(joined))
        if s != (host, port):
            out.append(_v("C16_HostPortSplitJoin", norm, "hostportsplit(%r) = %r, expected %r" % (joined, s, (host, port)), case))
        j2 = hostportjoin(*s)
        if j2 != joined:
            out.append(_v("C16_HostPortSplitJoin", norm, "hostportjoin(*hostportsplit(%r)) = %r" % (joined, j2), case))
        if case["hk"] == "ip6":
            j3 = hostportjoin("[%s]" % host, port)
            if j3 != joined:
                out.append(_v("C16_HostPortSplitJoin", norm, "hostportjoin(%r, %r) = %r, expected %r" % ("[%s]" % host, port, j3, joined), case))
    except Exception as e:
        out.append(_v("C16_HostPortSplitJoin", norm, "%r: %s" % (joined, _exc(e)), case))
    return out, None


EVAL = {"text": eval_text, "opts": eval_opts, "reject": eval_reject, "hostport": eval_hostport, "pair": eval_pair}


def _eval_chunk(chunk):
    """Static cases (already parsed)."""
    if not _A:
        _init_worker()
    res = []
    for case in chunk:
        try:
            res.append(EVAL[case["kind"]](case))
        except Exception:
            import traceback

            return {"error": "case %r\n%s" % (case, traceback.format_exc())}
    return {"results": res}


def _eval_lines(job):
    """C16U lines as printed by TLC: parse, evaluate every text and the option
    set of every state; only what the verdict needs travels back."""
    lines, all_variants, loaders, seed = job
    if not _A:
        _init_worker()
    viols, index, composed, drifts = [], [], [], []
    sample = None
    case = None
    try:
        for line in lines:
            tcases, ocase = state_cases(parse_line(line), all_variants)
            for case in tcases:
                dig = expectation_digest(case)
                # what the message carried before: one of the model's loader URIs, by text and seed
                case["loader"] = loaders[(zlib.crc32(case["text"].encode()) + seed) % len(loaders)]
                vs, drift = eval_text(case)
                viols.extend(vs)
                index.append((case["text"], dig))
                if drift:
                    drifts.append(drift)
            case = ocase
            vs, (g, degenerate) = eval_opts(ocase)
            viols.extend(vs)
            index.append((None, (opt_key(ocase["opt"]), ocase["nf"][0], degenerate)))
            if g is not None and not degenerate:
                composed.append((g, ocase))
            if sample is None:
                sample = (tcases[-1], ocase)
    except MachineryError as e:
        return {"error": str(e)}
    except Exception:
        import traceback

        return {"error": "case %r\n%s" % (case, traceback.format_exc())}
    return {"viols": viols, "index": index, "composed": composed, "drifts": drifts, "sample": sample}


def _eval_pair_lines(lines):
    """C16P lines of the pair run: <<text the message carried, text set on it, option sets, normal forms>>."""
    if not _A:
        _init_worker()
    viols = []
    line = None
    try:
        for line in lines:
            _, tv, tu, aopts, anf = parse_line(line)
            case = {"kind": "pair", "loader": text_of(tv), "text": text_of(tu), "accept": [opt_from_tuple(t) for t in aopts], "nf": [text_of(t) for t in anf]}
            viols.extend(eval_pair(case)[0])
    except MachineryError as e:
        return {"error": str(e)}
    except Exception:
        import traceback

        return {"error": "line %r\n%s" % (line and line[:300], traceback.format_exc())}
    return {"viols": viols, "n": len(lines)}


def _pool_map(fn, jobs):
    with Pool(min(16, os.cpu_count() or 4)) as p:
        outs = p.map(fn, jobs, chunksize=1)
    for o in outs:
        if "error" in o:
            raise MachineryError("driver failed: " + o["error"])
    return outs


def _chunks(xs, n):
    return [xs[i : i + n] for i in range(0, len(xs), n)]


# --------------------------------------------------------------------------- verdicts

MAX_PER_GROUP = 3


def report(rep, viols):
    """At most MAX_PER_GROUP witnesses per clause (and reject class), shortest
    input first; the totals go into the evidence."""
    groups = {}
    for v in viols:
        g = v["clause"]
        if v["clause"] == "C16_RejectClasses":
            g = v["sig"]
        groups.setdefault(g, {})
        groups[g].setdefault(v["sig"], v)

    def size(v):
        c = v["replay"]
        t = c.get("text") or c.get("joined") or (c.get("nf") or [""])[0]
        return (len(t), t)

    totals = {}
    for g, bysig in sorted(groups.items()):
        totals[g] = len(bysig)
        for v in sorted(bysig.values(), key=size)[:MAX_PER_GROUP]:
            rep.violation(v["clause"], v["sig"], v["detail"], v["replay"])
    return totals


def replay(rep, path):
    with open(path) as f:
        data = json.load(f)
    case = data["replay"]
    _init_worker()
    if case.get("kind") == "collision":
        viols = []
        a = eval_opts(case["a"])[1][0]
        b = eval_opts(case["b"])[1][0]
        if a == b:
            viols.append(_v("C16_Injective", a, "two option sets compose to %r" % a, case))
    else:
        viols = EVAL[case["kind"]](case)[0]
    report(rep, viols)
    rep.coverage.update({"states": 0, "transitions": 0, "traces_validated_against_impl": 1, "replayed": path})


def work(rep, args):
    if args.replay:
        replay(rep, args.replay)
        return
    tier = args.tier
    runs, pc = gen_runs(tier), pair_consts(tier)
    to = 300 if tier == "quick" else 1500
    t0 = time.time()
    with tlc.Workdir() as wd:
        jobs = []
        for name, c, emit, workers in runs:
            cfg = "CoapUri_%s.cfg" % name
            wd.write(cfg, cfg_text(c, False, emit, GEN_INVARIANTS))
            jobs.append((name, cfg, workers))
        wd.write("CoapUri_pair.cfg", cfg_text(pc, True, "pairs", PAIR_INVARIANTS))
        jobs.append(("pair", "CoapUri_pair.cfg", max(2, 16 - sum(w for _, _, w in jobs))))
        # the runs are independent: side by side, sharing the cores
        with ThreadPoolExecutor(len(jobs)) as ex:
            futs = {
                name: ex.submit(
                    tlc.run, wd, "CoapUri.tla", cfg, workers=w, timeout=to, heap="4g",
                    env={"JAVA_TOOL_OPTIONS": "-XX:ParallelGCThreads=%d" % max(2, w // 2)},
                )
                for name, cfg, w in jobs
            }
            res = {name: f.result() for name, f in futs.items()}
    for name, r in res.items():
        tlc.need_ok_run(r, "CoapUri %s" % name)
        if r.violated:
            raise MachineryError("CoapUri (%s run): spec-internal invariant %s fails; the model is inconsistent" % (name, r.violated))
    t_tlc = time.time() - t0
    pair = res["pair"]
    ulines, static_lines = [], {"C16R": [], "C16H": [], "C16L": []}
    per_run = {}
    for name, c, emit, workers in runs:
        r = res[name]
        lines = case_lines(r.out)
        r.out = ""  # free
        if len(lines["C16U"]) != r.distinct:
            raise MachineryError("%s run: TLC found %d states but printed %d C16U lines" % (name, r.distinct, len(lines["C16U"])))
        ulines += lines["C16U"]
        static_lines["C16R"] += lines["C16R"]
        static_lines["C16H"] += lines["C16H"]
        static_lines["C16L"] += lines["C16L"]
        per_run[name] = {"states": r.distinct, "transitions": r.generated, "depth": r.depth, "constants": c, "wall_s": round(r.wall, 1)}
    nstates = len(ulines)
    rej, hp = build_static(static_lines)
    static = rej + hp
    loaders = sorted({text_of(parse_line(l)[1]) for l in static_lines["C16L"]})
    if len(loaders) < 2:
        raise MachineryError("TLC printed no loader URIs")
    plines = case_lines(pair.out)["C16P"]
    pair.out = ""
    if len(plines) != pair.distinct:
        raise MachineryError("pair run: TLC found %d states but printed %d C16P lines" % (pair.distinct, len(plines)))

    t1 = time.time()
    all_variants = tier != "quick"
    outs = _pool_map(_eval_lines, [(ch, all_variants, loaders, args.seed) for ch in _chunks(ulines, max(20, min(400, nstates // 96 + 1)))])
    souts = _pool_map(_eval_chunk, _chunks(static, max(50, len(static) // 32 + 1)))
    pouts = _pool_map(_eval_pair_lines, _chunks(plines, max(100, len(plines) // 32 + 1)))
    t_impl = time.time() - t1
    del ulines

    viols, drifts = [], []
    for o in pouts:
        viols.extend(o["viols"])
    text_exp, opt_nf, nf_opt = {}, {}, {}
    composed = {}
    ntext_evals = 0
    for o in outs:
        viols.extend(o["viols"])
        drifts.extend(o["drifts"])
        for text, dig in o["index"]:
            if text is not None:
                ntext_evals += 1
                # the model must give one expectation per text, one normal form per option set, and distinct
                # normal forms to distinct (non-degenerate) option sets (cross-check of the pair run on everything printed)
                if text_exp.setdefault(text, dig) != dig:
                    raise MachineryError("the model prints two different expectations for the text %r" % text)
            else:
                k, nf, degenerate = dig
                if opt_nf.setdefault(k, nf) != nf:
                    raise MachineryError("the model prints two normal forms for the option set %r" % (k,))
                if not degenerate and nf_opt.setdefault(nf, k) != k:
                    raise MachineryError("model: two option sets with the normal form %r" % nf)
        for g, ocase in o["composed"]:
            other = composed.setdefault(g, ocase)
            if opt_key(other["opt"]) != opt_key(ocase["opt"]):
                viols.append(
                    _v(
                        "C16_Injective",
                        g,
                        "option sets %r and %r both compose to %r" % (opt_key(other["opt"]), opt_key(ocase["opt"]), g),
                        {"kind": "collision", "a": other, "b": ocase, "nf": [g]},
                    )
                )
    reject_outcomes = {}
    open_accepted = []
    sres = [x for o in souts for x in o["results"]]
    for case, (vs, extra) in zip(static, sres):
        viols.extend(vs)
        if case["kind"] == "reject":
            k = case["cls"] + ("" if case["judged"] else " (border case, not judged)")
            d = reject_outcomes.setdefault(k, {})
            d[extra] = d.get(extra, 0) + 1
            if extra == "accepted-open":
                open_accepted.append(case["text"])
    totals = report(rep, viols)
    drifts.sort(key=lambda d: (len(d[0]), d))
    if drifts:
        rep.add_drift(
            "%d texts with an empty port (\"host:\") compose to a URI that keeps the bare colon, e.g. %r -> %r; equivalent and accepted, "
            "but not the RFC 7252 6.5 form the model writes" % (len(drifts), drifts[0][0], drifts[0][1])
        )
    if open_accepted:
        rep.notes.append(
            "border cases the statement does not classify were accepted (not judged): %d texts, e.g. %s"
            % (len(open_accepted), ", ".join(repr(t) for t in sorted(open_accepted, key=lambda t: (len(t), t))[:4]))
        )

    def sample(c):
        c = dict(c)
        c.pop("kind", None)
        return c

    samples = []
    for o in (outs[0], outs[len(outs) // 2], outs[-1]):
        if o["sample"]:
            samples += [sample(o["sample"][0]), sample(o["sample"][1])]
    samples += [sample(rej[len(rej) // 2]), sample(hp[len(hp) // 2])]
    npairs = sum(o["n"] for o in pouts)
    ncases = ntext_evals + len(opt_nf) + len(static) + npairs

    classes = sorted({c["cls"] for c in rej})
    rep.coverage.update(
        {
            "states": sum(x["states"] for x in per_run.values()) + pair.distinct,
            "transitions": sum(x["transitions"] for x in per_run.values()) + pair.generated,
            "generator_runs": per_run,
            "pair_run": {"states": pair.distinct, "transitions": pair.generated, "depth": pair.depth, "constants": pc, "wall_s": round(pair.wall, 1)},
            "exhaustive": True,
            "spec_invariants": ["TypeOK"] + GEN_INVARIANTS[:3] + PAIR_INVARIANTS[:3],
            "reused_message_pairs": npairs,
            "loader_uris": loaders,
            "structured_uris": nstates,
            "texts": len(text_exp),
            "option_sets": len(opt_nf),
            "reject_texts": len(rej),
            "reject_classes": classes,
            "reject_outcomes": reject_outcomes,
            "hostport_strings": len(hp),
            "traces_validated_against_impl": ncases,
            "distinct_nontrivial": len(composed),
            "violating_inputs_by_clause": totals,
            "tlc_wall_s": round(t_tlc, 1),
            "impl_wall_s": round(t_impl, 1),
            "samples": samples,
            "checker_cmd": "tlc CoapUri.tla (generator: exhaustive, invariants + printed cases) ; tlc CoapUri.tla PairMode=TRUE (ComposeInjective, TextUnambiguous)",
        }
    )
    rep.assumptions += [
        "spec/CoapUri.tla is a transcribed reference (RFC 3986 serialisation, RFC 7252 6.4 / 6.5) evaluated by TLC; every comparison is a single-step one (no interleavings)",
        "hosts are RFC 3986 reg-names (incl. dotted quads of non-ASCII decimal digits), IPv4 and IPv6 literals from HostTab; IPvFuture and dot segments are not generated; "
        "non-ASCII characters are written unescaped only in reg-names (profiles 9, 10) and never upper-case letters",
        "a reg-name with percent-encoded upper-case letters ('h%4Fst') may decompose to the all-lower-case Uri-Host or to the one 6.4 step 5 gives literally; compose/decompose stability is judged on whichever the implementation produced",
        "a single empty query ('...?') and an empty userinfo / fragment delimiter are not judged (statement silent)",
        "a default port may be spelled out or omitted in the composed URI, and left implicit in the destination",
        "a host whose percent-decoded form is an IPv4 address ('1%2E2.3.4') is not generated: 6.4 gives Uri-Host '1.2.3.4', 6.5 composes 'coap://1.2.3.4/', which has no Uri-Host -- the RFC's own algorithms are unstable there (observed on the tree, not judged)",
        "bounds: %d structured URIs; wide run: alphabet of %d code points, <= %d segment characters on the reference base, <= %d on the others; deep run: alphabet of %d, <= %d characters"
        % (nstates, len(runs[0][1]["alphabet"]), runs[0][1]["rich"], runs[0][1]["basebudget"], len(runs[1][1]["alphabet"]), runs[1][1]["rich"]),
    ]


if __name__ == "__main__":
    sys.exit(runner.main("C16", work))
