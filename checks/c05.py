"""C05 -- block-wise client transfers deliver both bodies intact or fail loudly.

TLC checks spec/BlockClient.tla (implementation-shaped model of
BlockwiseRequest._run / _complete_by_requesting_block2 and the Message block
helpers against an RFC 7959 reference server with size reductions at any
point, one fault and one lost/duplicated datagram per transfer) exhaustively
for size exponents 0..2 and all body lengths 0..130, with the clauses of
spec/BlockClientObs.tla as invariant.  Simulated behaviours of the model become
schedules for harness/blockclientdrive.py, which runs the real client against
the independent reference server of the harness; what the real code did is
compared with the model (DRIFT) and every recorded trace -- model-derived and
randomised with the real parameters (lengths around every block boundary,
server exponents 0..6, client maxima 0..6, reductions, faults, losses) -- is
validated by TLC against BlockClientTrace.tla clause by clause."""

import json
import os
import random
import sys
import time
from concurrent.futures import ThreadPoolExecutor

from harness import tlc, tracecheck, MachineryError, runner
from harness.blockclientdrive import run_all, FIELDS

CFG = """SPECIFICATION Spec
CONSTANTS
  Ns = {%(Ns)s}
  Ms = {%(Ms)s}
  MsNoEtag = {%(MsNoEtag)s}
  NsWide = {%(NsWide)s}
  MsFew = {%(MsFew)s}
  MaxSzx = 2
  NetBudget = 1
  FaultBudget = 1
  FixFirstNum = TRUE
  Combined = %(comb)s
  AckStyles = {%(styles)s}
  FaultAt = {%(at)s}
  NetAt = {%(at)s}
%(extra)s
"""

LENS = [0, 1, 15, 16, 17, 1023, 1024, 1025, 1124, 1125, 2048, 2049, 5000]
FAULTS = ["b1num", "b1numlo", "b1more", "b1cont", "b2num", "b2numlo", "b2skip", "b2prev", "b2short", "b2empty", "b2over", "etag"]
LEN_FAULTS = ("b2short", "b2empty", "b2over")


def cset(xs):
    return ", ".join(str(x) for x in xs)


# ------------------------------------------------------------------ model behaviour -> schedule
def behaviour_to_schedule(beh, seed):
    sched = {"mid0": (seed * 131) & 0xFFFF, "tok0": (seed * 17) & 0xFFFF, "code": 2, "N": 0, "C": 0,
             "reps": [{"len": 0, "etag": True}, {"len": 0, "etag": True}], "s1": [], "s2": [], "ack": [], "ackcode": 68,
             "query": ["v=%d" % (seed % 3)] if seed % 4 else None, "accept": 60 if seed % 3 == 0 else None,
             "net": {}, "fault": None,
             "dedup": True, "con": True}
    expected = []
    for label, st in beh[1:]:
        act = st.get("act")
        if not act or not act.get("a"):
            continue
        expected += list(st.get("emit", []))
        a = act["a"]
        if a == "submit":
            sched["N"], sched["C"] = act["N"], act["C"]
        elif a == "net":
            sched["net"][str(act["nreq"])] = act["fate"]
        elif a == "srv":
            if act["b1"]:
                sched["s1"].append(act["a1"])
                sched["ack"].append(act["st"])
            if act["sv"]:
                sched["s2"].append(act["a2"])
            for e in st.get("emit", []):
                if e["k"] == "rep":
                    sched["reps"][e["rid"] - 1] = {"len": e["len"], "etag": e["etag"] >= 0}
            if act["flt0"] != "none":
                k = act["flt0"]
                nth = act["nb1"] if k in ("b1num", "b1numlo") else act["nb2"] if (k.startswith("b2") or k == "etag") else 0
                sched["fault"] = {"kind": k, "nth": nth, "short": act["sh"], "over": "double" if act["dbl"] else "one",
                                  "repeat": bool(act["rp"])}
            if act["fate"] != "ok":
                sched["net"][str(act["nreq"])] = act["fate"]
    sched["s1"] = sched["s1"] or [2]
    sched["ack"] = sched["ack"] or ["a"]
    sched["s2"] = sched["s2"] or [2]
    return sched, expected


CMP = [k for k in FIELDS if k != "t"]


def proj(e):
    if e["k"] == "done":
        return ("done", e["x"], e["code"], e["len"], e["cok"])
    return tuple(e[k] for k in CMP)


def compare(expected, real):
    real = [e for e in real if e["k"] != "loopexc"]
    for i, x in enumerate(expected):
        if i >= len(real):
            return "model predicts %d events, implementation produced %d; first missing %s" % (len(expected), len(real), short(x))
        if proj(x) != proj(real[i]):
            return "event %d: model predicts %s, implementation produced %s" % (i + 1, short(x), short(real[i]))
    if len(real) > len(expected):
        return "implementation produced %d events, model predicts %d; first extra %s" % (len(real), len(expected), short(real[len(expected)]))
    return None


def short(e):
    return {k: v for k, v in e.items() if k == "k" or (k != "t" and v != FIELDS.get(k))}


# ------------------------------------------------------------------ randomised real-parameter schedules
def szx_list(rng):
    lst = [rng.randint(0, 6)]
    for _ in range(rng.choice([0, 0, 1, 1, 2])):
        lst += [lst[-1]] * rng.randint(0, 3)
        lst.append(rng.randint(0, lst[-1]))
    return lst


def ack_style(rng):
    """atomic / stateless / mixed acknowledgement of the Block1 requests that are not the last one"""
    r = rng.random()
    if r < 0.45:
        return ["a"]
    if r < 0.8:
        return ["s"]
    return [rng.choice("as") for _ in range(rng.randint(2, 8))]


def random_schedule(rng, i):
    N = rng.choice(LENS) if rng.random() < 0.85 else rng.randint(0, 2600)
    M = rng.choice(LENS) if rng.random() < 0.85 else rng.randint(0, 2600)
    C = rng.randint(0, 6)
    s1, s2 = szx_list(rng), szx_list(rng)
    if rng.random() < 0.9:
        # keep very long transfers rare: 5000 bytes in 16-byte blocks are 313 exchanges
        while N > 60 * 2 ** (4 + min(C, min(s1))):
            C = min(6, C + 1)
            s1 = [min(6, x + 1) for x in s1]
        while M > 60 * 2 ** (4 + min(C, min(s2))):
            C = min(6, C + 1)
            s2 = [min(6, x + 1) for x in s2]
    fault = None
    if rng.random() < 0.5:
        kind = rng.choice(FAULTS)
        fault = {"kind": kind, "nth": rng.choice([0, 0, 1, 1, 2, 3, rng.randint(0, 12)]), "short": rng.choice([1, 7, 15, 31, 500, 1023]),
                 "over": rng.choice(["one", "double"]), "repeat": kind in LEN_FAULTS and rng.random() < 0.5}
    net = {}
    if rng.random() < 0.45:
        for _ in range(rng.choice([1, 1, 1, 2, 3])):
            net[str(rng.choice([1, 1, 2, 2, 3, 4, rng.randint(1, 14)]))] = rng.choice(["dropreq", "dropresp", "dupresp", "dupreq"])
    # ETag of representation 1 / 2: independent (ETag/ETag, none/ETag, ETag/none, none/none)
    etag = rng.random() < 0.75
    return {
        "mid0": rng.randint(0, 65535), "tok0": rng.randint(0, 65535),
        "code": rng.choice([2, 3, 5, 1 if N == 0 else 2]),
        "N": N, "C": C,
        "reps": [{"len": M, "etag": etag}, {"len": M + rng.choice([0, 0, 1, 16, 1000]), "etag": rng.random() < 0.65}],
        "query": rng.choice([None, ["v=2"], ["v=2"], ["a=1", "b=2"]]), "accept": rng.choice([None, None, 0, 60]),
        "s1": s1, "s2": s2, "net": net, "fault": fault,
        "ack": ack_style(rng), "ackcode": rng.choice([68, 68, 65]),
        "dedup": rng.random() < 0.7,
        "con": True if net else rng.random() < 0.85,
    }


def matrix_schedules(rng):
    """Every fault kind (length faults once and repeated) at the first / second / third occasion of short transfers (2, 3, 5 blocks in each direction)
    at small, medium and the largest block size: the faulted response is the first, a middle or the final one."""
    out = []
    # length faults: once and repeated; oversize: one byte too many and two whole blocks
    # ETag change: every combination of representation 1 / 2 with and without ETag
    variants = {k: [(False, "one", None)] for k in FAULTS}
    variants.update(b2short=[(False, "one", None), (True, "one", None)], b2empty=[(False, "one", None), (True, "one", None)],
                    b2over=[(False, "one", None), (True, "one", None), (False, "double", None), (True, "double", None)],
                    etag=[(False, "one", (True, True)), (False, "one", (False, True)), (False, "one", (True, False)),
                          (False, "one", (False, False))])
    for kind, repeat, over, ets, nth, blocks, szx in [(k, r, o, e, n, b, z) for k in FAULTS for (r, o, e) in variants[k]
                                                      for n in (0, 1, 2) for b in (2, 3, 5) for z in (0, 3, 6)]:
        ets = ets or (rng.random() < 0.8, True)
        if True:
            if True:
                if True:
                    size = 2 ** (szx + 4)
                    N = blocks * size - rng.choice([0, 1, size - 1])
                    if szx == 6 and N <= 1124:
                        N = 1125
                    M = blocks * size - rng.choice([0, 1, size - 1])
                    net = {}
                    if rng.random() < 0.3:
                        net[str(rng.randint(1, 2 * blocks))] = rng.choice(["dropreq", "dropresp", "dupresp", "dupreq"])
                    out.append({
                        "mid0": rng.randint(0, 65535), "tok0": rng.randint(0, 65535), "code": rng.choice([2, 3, 5]),
                        "N": N, "C": szx if rng.random() < 0.7 else rng.randint(szx, 6),
                        "reps": [{"len": M, "etag": ets[0]}, {"len": M + rng.choice([0, 1, size]), "etag": ets[1]}],
                        "query": rng.choice([["v=2"], ["v=2"], ["a=1", "b=2"], None]), "accept": rng.choice([None, 60]),
                        "s1": [szx] if rng.random() < 0.7 else [szx, max(0, szx - 1)],
                        "s2": [szx] if rng.random() < 0.7 else [szx, max(0, szx - 1)],
                        "net": net, "fault": {"kind": kind, "nth": nth, "short": rng.choice([1, size // 2, size - 1]),
                                              "over": over, "repeat": repeat},
                        "ack": ack_style(rng), "ackcode": rng.choice([68, 65]),
                        "dedup": rng.random() < 0.7, "con": True,
                    })
    # fault-free uploads of 2, 3, 5 (and after a reduction more) blocks against every acknowledgement style
    for ack in (["a"], ["s"], ["s", "a"], ["a", "s"], ["a", "s", "s"]):
        for blocks in (2, 3, 5):
            for szx in (0, 3, 6):
                size = 2 ** (szx + 4)
                N = max(blocks * size - rng.choice([0, 1, size - 1]), 1125 if szx == 6 else 0)
                out.append({
                    "mid0": rng.randint(0, 65535), "tok0": rng.randint(0, 65535), "code": rng.choice([2, 3]),
                    "N": N, "C": szx, "reps": [{"len": rng.choice([0, 5, size + 1, 3 * size]), "etag": rng.random() < 0.7}],
                    "query": ["v=2"], "accept": rng.choice([None, 0]),
                    "s1": [szx] if rng.random() < 0.6 else [szx, max(0, szx - 1)], "s2": [szx],
                    "net": {}, "fault": None, "ack": ack, "ackcode": rng.choice([68, 65]), "dedup": True, "con": True,
                })
    return out


# ------------------------------------------------------------------ signatures
def scenario(events):
    """normalised shape of a recorded transfer: misbehaviour kind (+ where), reduction, loss/duplication"""
    kind = "none"
    lastreq = None
    red = False
    loss = False
    for e in events:
        if e["k"] == "req" and not e["rt"]:
            if lastreq is not None:
                if 0 <= e["b1s"] < lastreq["b1s"] or (0 <= e["b2s"] < lastreq["b2s"]):
                    red = True
            lastreq = e
        elif e["k"] == "resp" and not e["rt"]:
            if lastreq is not None and e["b2s"] >= 0 and lastreq["b2s"] > e["b2s"]:
                red = True
            if e["x"] in FAULTS and kind == "none":
                where = ""
                if e["x"].startswith("b2") or e["x"] == "etag":
                    where = "@later" if (lastreq is not None and lastreq["b2n"] > 0) else "@first"
                elif e["x"] == "b1num":
                    where = "@final" if (lastreq is not None and lastreq["b1m"] == 0) else "@intermediate"
                kind = e["x"] + where
        elif e["k"] == "lost" or (e["k"] in ("req", "resp") and e["rt"]):
            loss = True
    return kind, red, loss


def sig_of(clause, events):
    kind, red, loss = scenario(events)
    return "%s|fault=%s|reduction=%s|loss=%s" % (clause, kind, "yes" if red else "no", "yes" if loss else "no")


def judge(rep, wd, scheds, results):
    traces = [r["events"] for r in results]
    verdicts, r = tracecheck.validate(wd, "BlockClientTrace", "BlockClientTrace.cfg.tmpl", {}, traces, timeout=1500)
    nviol = 0
    for s, res, v in zip(scheds, results, verdicts):
        for clause in sorted(v["bad"]):
            nviol += 1
            at = v["at"][clause]
            done = [short(e) for e in res["events"] if e["k"] == "done"]
            rep.violation(
                clause,
                sig_of(clause, res["events"]),
                "clause %s false at event %d of a recorded execution (%d events): N=%d C=%d representation %s s1=%s s2=%s "
                "fault=%s net=%s; completion %s; failing event %s"
                % (clause, at, len(res["events"]), s["N"], s["C"], [x["len"] for x in s["reps"]][:1], s["s1"], s["s2"], s.get("fault"),
                   s.get("net"), done, short(res["events"][at - 1])),
                {"schedule": s, "events": res["events"], "meta": res["meta"]},
            )
    return nviol, r


def work(rep, args):
    quick = args.tier == "quick"
    if args.replay:
        data = json.load(open(args.replay))
        s = data["replay"]["schedule"]
        res = run_all([s])
        if "error" in res[0]:
            raise MachineryError("driver failed on the replay schedule\n" + res[0]["error"])
        with tlc.Workdir() as wd:
            judge(rep, wd, [s], res)
        rep.coverage.update({"states": 0, "transitions": 0, "traces_validated_against_impl": 1, "samples": [{"schedule": s, "events": res[0]["events"][:12]}]})
        return
    rng = random.Random(args.seed * 7919 + 5)
    phases = {}
    t0 = time.time()

    def lap(name):
        nonlocal t0
        phases[name] = round(time.time() - t0, 1)
        t0 = time.time()

    allN = list(range(0, 131))
    # quick: every length within one byte of a block boundary of any modelled size; thorough: every length
    edgeN = sorted({x for b in range(0, 131, 16) for x in (b - 1, b, b + 1) if 0 <= x <= 130} | {130})
    if quick:
        consts = dict(Ns=edgeN, Ms=edgeN, NsWide=[65], MsFew=[0, 40], MsNoEtag=[40], styles=['"a"', '"s"'])
    else:
        consts = dict(Ns=allN, Ms=allN, NsWide=[0, 70, 130], MsFew=[0, 40, 100], MsNoEtag=[40], styles=['"a"', '"s"', '"as"', '"sa"'])
    with tlc.Workdir() as wd:
        def mc():
            cfg = "BlockClient_mc.cfg"
            wd.write(cfg, CFG % dict({k: cset(v) for k, v in consts.items()}, at="0", comb="FALSE" if quick else "TRUE", extra="VIEW View\nINVARIANT NoBad\nINVARIANT Completes"))
            return tlc.run(wd, "BlockClient.tla", cfg, timeout=600 if quick else 2400, heap="8g")

        wd.write("BlockClient_sim.cfg", CFG % dict(Ns=cset(allN), Ms=cset(edgeN + [7, 40, 100]), NsWide=cset(allN), MsFew="0", MsNoEtag=cset([16, 17, 33, 40, 64, 65, 100, 129]), at=cset(range(1, 15)), comb="TRUE", styles='"a", "s", "as", "sa"', extra=""))
        simdir = wd.file("sim")
        os.makedirs(simdir)
        nsim = 300 if quick else 4000

        def sim():
            return tlc.run(wd, "BlockClient.tla", "BlockClient_sim.cfg", workers=1, timeout=900 if quick else 2400,
                           simulate="file=%s/tr,num=%d" % (simdir, nsim), depth=80, seed=args.seed + 1)

        with ThreadPoolExecutor(2) as ex:
            fmc = ex.submit(mc)
            fsim = ex.submit(sim)
            mcr = fmc.result()
            simr = fsim.result()
        lap("tlc_exhaustive_and_simulation")
        tlc.need_ok_run(mcr, "BlockClient model check")
        if mcr.violated:
            raise MachineryError("BlockClient model (design with the first-block check) violates %s\n%s" % (mcr.violated, mcr.out[-1500:]))
        tlc.need_ok_run(simr, "BlockClient simulation")
        behaviours = tlc.read_sim_traces(os.path.join(simdir, "tr"))
        model = [behaviour_to_schedule(b, i) for i, b in enumerate(behaviours)]
        model = [(s, e) for s, e in model if e and e[-1]["k"] == "end"]
        if len(model) < nsim // 2:
            raise MachineryError("only %d of %d simulated behaviours are complete transfers" % (len(model), nsim))
        rand = [random_schedule(rng, i) for i in range(300 if quick else 8000)]
        matrix = matrix_schedules(rng)
        scheds = [s for s, _ in model] + rand + matrix
        lap("schedules")
        results = run_all(scheds)
        lap("real_executions")
        for s, res in zip(scheds, results):
            if "error" in res:
                raise MachineryError("driver failed on schedule %s\n%s" % (json.dumps(s)[:400], res["error"]))
        ndrift = 0
        for (s, exp), res in zip(model, results):
            d = compare(exp, res["events"])
            if d:
                ndrift += 1
                rep.add_drift("model behaviour not reproduced by implementation (N=%d C=%d fault=%s net=%s): %s"
                              % (s["N"], s["C"], s["fault"], s["net"], d))
        nviol, tr = judge(rep, wd, scheds, results)
        lap("trace_validation")

        # ---- what was actually exercised
        kinds = {}
        stats = {"success": 0, "error": 0, "reductions": 0, "loss_or_dup": 0, "block1_transfers": 0, "block2_transfers": 0,
                 "events": 0, "never_completed": 0, "stateless_block1_acks": 0, "atomic_block1_acks": 0,
                 "transfers_with_both_ack_styles": 0}
        errclasses = {}
        for res in results:
            ev = res["events"]
            stats["events"] += len(ev)
            k, red, loss = scenario(ev)
            kinds[k] = kinds.get(k, 0) + 1
            stats["reductions"] += red
            stats["loss_or_dup"] += loss
            stats["block1_transfers"] += any(e["k"] == "req" and e["b1n"] > 0 for e in ev)
            # acknowledgements of Block1 requests that are not the last one: 2.31/M=1 (atomic) or 2.xx/M=0 (stateless)
            lastreq, na, ns = None, 0, 0
            for e in ev:
                if e["k"] == "req":
                    lastreq = e
                elif e["k"] == "resp" and not e["rt"] and lastreq is not None and lastreq["b1m"] == 1 and e["b1n"] >= 0:
                    if e["code"] == 95:
                        na += 1
                    elif e["b1m"] == 0 and 64 <= e["code"] < 96:
                        ns += 1
            stats["atomic_block1_acks"] += na
            stats["stateless_block1_acks"] += ns
            stats["transfers_with_both_ack_styles"] += bool(na and ns)
            stats["block2_transfers"] += any(e["k"] == "req" and e["b2n"] > 0 for e in ev)
            dn = [e for e in ev if e["k"] == "done"]
            if not dn:
                stats["never_completed"] += 1
            for e in dn:
                if e["x"] == "resp":
                    stats["success"] += 1
                else:
                    stats["error"] += 1
                    errclasses[e["x"]] = errclasses.get(e["x"], 0) + 1
        if not nviol:
            missing = [f for f in FAULTS if not any(k.startswith(f) for k in kinds)]
            stats["fault_kinds_never_delivered"] = missing
            if len(missing) > 2:
                raise MachineryError("faults never delivered to the implementation: %s" % missing)
            for key in ("success", "error", "reductions", "loss_or_dup", "block1_transfers", "block2_transfers",
                        "stateless_block1_acks", "atomic_block1_acks", "transfers_with_both_ack_styles"):
                if not stats[key]:
                    raise MachineryError("vacuous run: no recorded transfer with %s" % key)
        rep.coverage.update(
            {
                "states": mcr.distinct, "transitions": mcr.generated, "depth": mcr.depth, "mc_wall_s": round(mcr.wall, 1),
                "mc_constants": {"block1_acknowledgement_styles": [x.strip('"') for x in consts["styles"]], "request_lengths": len(consts["Ns"]), "representation_lengths": len(consts["Ms"]),
                                 "request_lengths_combined_with_all_representation_lengths": consts["NsWide"],
                                 "representation_lengths_combined_with_all_request_lengths": consts["MsFew"],
                                 "size_exponents": [0, 1, 2], "faults_per_transfer": 1, "lost_or_duplicated_per_transfer": 1,
                                 "fault_and_loss_in_one_transfer": not quick},
                "traces_validated_against_impl": len(results),
                "phase_wall_s": phases,
                "schedules_from_model_behaviours": len(model),
                "model_behaviours_reproduced_exactly": len(model) - ndrift,
                "random_schedules": len(rand), "fault_matrix_schedules": len(matrix),
                "scenario_kinds": kinds, "exercised": stats, "error_classes": errclasses,
                "samples": [{"schedule": scheds[0], "events": [short(e) for e in results[0]["events"][:12]]},
                            {"schedule": scheds[-1], "events": [short(e) for e in results[-1]["events"][:12]]}],
                "exhaustive": True,
                "checker_cmd": "tlc BlockClient.tla (2 exhaustive configurations + -simulate); tlc BlockClientTrace.tla on recorded traces",
            }
        )
        rep.assumptions += [
            "the reference server of harness/blockclientdrive.py is a faithful RFC 7959 server (intervals, Block2 slices, ETag); it shares no code with aiocoap (own codec harness/wire.py)",
            "bodies are self-describing canonical strings (harness/drive.py canon/identify): misplaced, duplicated, missing or mixed bytes are visible",
            "which exception class ends a faulted transfer, whether Size1 is sent, the request method and whether the client honours its own maximum are not judged",
            "a Block2 block that announces more blocks but carries no payload at all, payloads longer than the block size, and a changed representation that is shorter than the offset already reached are outside the generated domain",
            "at most MAX_RETRANSMIT consecutive losses of one datagram (no transfer is driven into a message-layer timeout)",
        ]


if __name__ == "__main__":
    sys.exit(runner.main("C05", work))
