"""C05 -- block-wise client transfers deliver both bodies intact or fail loudly.

TLC checks spec/BlockClient.tla (implementation-shaped model of
BlockwiseRequest._run / _complete_by_requesting_block2 and the Message block
helpers against an RFC 7959 reference server with size reductions at any
point, one fault and one lost/duplicated datagram per transfer) exhaustively
for size exponents 0..2 and all body lengths 0..130, with the clauses of
spec/BlockClientObs.tla as invariant.  Simulated behaviours of the model become
schedules for harness/blockclientdrive.py, which runs the real client against
the independent reference server of the harness; what the real code did is
compared with the model (DRIFT) and every recorded trace -- model-derived and
randomised with the real parameters (lengths around every block boundary,
server exponents 0..6, client maxima 0..6, reductions, faults, losses) -- is
validated by TLC against BlockClientTrace.tla clause by clause.

Extension (notes/C05.md, "Second extension"): error responses (4.08 / 4.13 with and
without hints / 4.00 / 5.xx) in the middle of either phase, an ETag on some
blocks only, a representation that shrinks below the offset reached, a server
that answers above the requested size exponent (Block1 and Block2), several
lost / duplicated / late datagrams per transfer (a second exhaustive
configuration with a loss budget of 3 and no faults; seeded lossy networks
on the real code), and concurrent transfers from one context: spec/BlockClientPair.tla
(two transfers sharing the token source, the server answering in every order;
known-bad variant with a token handed out twice) whose simulated behaviours
become two-transfer schedules with the server's answer order."""

import json
import os
import random
import sys
import time
from concurrent.futures import ThreadPoolExecutor

from harness import tlc, tracecheck, MachineryError, runner
from harness.blockclientdrive import run_all, FIELDS

CFG = """SPECIFICATION Spec
CONSTANTS
  Ns = {%(Ns)s}
  Ms = {%(Ms)s}
  MsNoEtag = {%(MsNoEtag)s}
  NsWide = {%(NsWide)s}
  MsFew = {%(MsFew)s}
  MaxSzx = 2
  NetBudget = %(nb)s
  FaultBudget = %(fbud)s
  FixFirstNum = TRUE
  Combined = %(comb)s
  AckStyles = {%(styles)s}
  FaultAt = {%(at)s}
  NetAt = {%(at)s}
  XFaults = {%(xf)s}
  ErrCodes = {%(ecodes)s}
  ErrLens = {%(elens)s}
%(extra)s
"""

LENS = [0, 1, 15, 16, 17, 1023, 1024, 1025, 1124, 1125, 2048, 2049, 5000]
FAULTS = ["b1num", "b1numlo", "b1more", "b1cont", "b2num", "b2numlo", "b2skip", "b2prev", "b2short", "b2empty", "b2over", "etag", "b2big"]
LEN_FAULTS = ("b2short", "b2empty", "b2over")
# environment decisions of the second extension: no violations of the sequencing rules named in the statement
XFAULTS = ["e1", "e2", "etsome", "b2grow", "b1grow"]
XF_ALL = '"e1", "e2", "etsome", "b2grow", "b1grow", "shrink"'
ERRCODES = [128, 136, 141, 160, 163]      # 4.00 4.08 4.13 5.00 5.03

PAIR_CFG = """SPECIFICATION Spec
CONSTANTS
  PNs = {%(ns)s}
  PMs = {%(ms)s}
  PCs = {%(cs)s}
  PSs = {%(ss)s}
  PStyles = {"a", "s"}
  FreshTokens = %(fresh)s
%(extra)s
"""


def cset(xs):
    return ", ".join(str(x) for x in xs)


# ------------------------------------------------------------------ model behaviour -> schedule
def behaviour_to_schedule(beh, seed):
    sched = {"mid0": (seed * 131) & 0xFFFF, "tok0": (seed * 17) & 0xFFFF, "code": 2, "N": 0, "C": 0,
             "reps": [{"len": 0, "etag": True}, {"len": 0, "etag": True}], "s1": [], "s2": [], "ack": [], "ackcode": 68,
             "query": ["v=%d" % (seed % 3)] if seed % 4 else None, "accept": 60 if seed % 3 == 0 else None,
             "net": {}, "fault": None,
             "dedup": True, "con": True}
    expected = []
    for label, st in beh[1:]:
        act = st.get("act")
        if not act or not act.get("a"):
            continue
        expected += list(st.get("emit", []))
        a = act["a"]
        if a == "submit":
            sched["N"], sched["C"] = act["N"], act["C"]
        elif a == "net":
            sched["net"][str(act["nreq"])] = act["fate"]
        elif a == "srv":
            if act["b1"]:
                sched["s1"].append(act["a1"])
                sched["ack"].append(act["st"])
            if act["sv"]:
                sched["s2"].append(act["a2"])
            for e in st.get("emit", []):
                if e["k"] == "rep":
                    sched["reps"][e["rid"] - 1] = {"len": e["len"], "etag": e["etag"] >= 0}
            if act["flt0"] != "none":
                k = act["flt0"]
                nth = act["nb1"] if k in ("b1num", "b1numlo", "e1", "b1grow") else act["nb2"] if (k.startswith("b2") or k in ("etag", "e2", "etsome")) else 0
                sched["fault"] = {"kind": k, "nth": nth, "short": act["sh"], "over": "double" if act["dbl"] else "one",
                                  "repeat": bool(act["rp"]), "by": act["sh"]}
                if k in ("e1", "e2"):
                    sched["fault"].update(ecode=act["ec"], elen=act["el"], echo=bool(act["echo"]), hint=act["a1"] if act["echo"] else None)
            if act["fate"] != "ok":
                sched["net"][str(act["nreq"])] = act["fate"]
    sched["s1"] = sched["s1"] or [2]
    sched["ack"] = sched["ack"] or ["a"]
    sched["s2"] = sched["s2"] or [2]
    return sched, expected


CMP = [k for k in FIELDS if k != "t"]


def proj(e):
    if e["k"] == "done":
        return ("done", e["x"], e["code"], e["len"], e["cok"])
    return tuple(e[k] for k in CMP)


def compare(expected, real):
    real = [e for e in real if e["k"] != "loopexc"]
    for i, x in enumerate(expected):
        if i >= len(real):
            return "model predicts %d events, implementation produced %d; first missing %s" % (len(expected), len(real), short(x))
        if proj(x) != proj(real[i]):
            return "event %d: model predicts %s, implementation produced %s" % (i + 1, short(x), short(real[i]))
    if len(real) > len(expected):
        return "implementation produced %d events, model predicts %d; first extra %s" % (len(real), len(expected), short(real[len(expected)]))
    return None


def short(e):
    return {k: v for k, v in e.items() if k == "k" or (k != "t" and v != FIELDS.get(k))}


# ------------------------------------------------------------------ randomised real-parameter schedules
def szx_list(rng):
    lst = [rng.randint(0, 6)]
    for _ in range(rng.choice([0, 0, 1, 1, 2])):
        lst += [lst[-1]] * rng.randint(0, 3)
        lst.append(rng.randint(0, lst[-1]))
    return lst


def ack_style(rng):
    """atomic / stateless / mixed acknowledgement of the Block1 requests that are not the last one"""
    r = rng.random()
    if r < 0.45:
        return ["a"]
    if r < 0.8:
        return ["s"]
    return [rng.choice("as") for _ in range(rng.randint(2, 8))]


def random_schedule(rng, i):
    N = rng.choice(LENS) if rng.random() < 0.85 else rng.randint(0, 2600)
    M = rng.choice(LENS) if rng.random() < 0.85 else rng.randint(0, 2600)
    C = rng.randint(0, 6)
    s1, s2 = szx_list(rng), szx_list(rng)
    if rng.random() < 0.9:
        # keep very long transfers rare: 5000 bytes in 16-byte blocks are 313 exchanges
        while N > 60 * 2 ** (4 + min(C, min(s1))):
            C = min(6, C + 1)
            s1 = [min(6, x + 1) for x in s1]
        while M > 60 * 2 ** (4 + min(C, min(s2))):
            C = min(6, C + 1)
            s2 = [min(6, x + 1) for x in s2]
    fault = random_fault(rng, 0.5)
    net = {}
    if rng.random() < 0.45:
        for _ in range(rng.choice([1, 1, 1, 2, 3])):
            net[str(rng.choice([1, 1, 2, 2, 3, 4, rng.randint(1, 14)]))] = rng.choice(["dropreq", "dropresp", "dupresp", "dupreq", "slow", "late"])
    # ETag of representation 1 / 2: independent (ETag/ETag, none/ETag, ETag/none, none/none)
    etag = rng.random() < 0.75
    return {
        "mid0": rng.randint(0, 65535), "tok0": rng.randint(0, 65535),
        "code": rng.choice([2, 3, 5, 1 if N == 0 else 2]),
        "N": N, "C": C,
        "reps": [{"len": M, "etag": etag}, {"len": M + rng.choice([0, 0, 1, 16, 1000]), "etag": rng.random() < 0.65}],
        "query": rng.choice([None, ["v=2"], ["v=2"], ["a=1", "b=2"]]), "accept": rng.choice([None, None, 0, 60]),
        "s1": s1, "s2": s2, "net": net, "fault": fault,
        "ack": ack_style(rng), "ackcode": rng.choice([68, 68, 65]),
        "dedup": rng.random() < 0.7,
        "con": True if net else rng.random() < 0.85,
        "b2req": rng.randint(0, 6) if rng.random() < 0.12 else None,
    }


def random_fault(rng, p):
    if rng.random() >= p:
        return None
    kind = rng.choice(FAULTS + XFAULTS + ["e1", "e2"]) if rng.random() < 0.6 else rng.choice(FAULTS)
    nth = rng.choice([0, 0, 1, 1, 2, 3, rng.randint(0, 12)])
    if kind in ("e1", "e2"):
        return err_fault(rng, kind, nth)
    return {"kind": kind, "nth": nth, "short": rng.choice([1, 7, 15, 31, 500, 1023]), "by": rng.choice([1, 2, 6, 6]),
            "over": rng.choice(["one", "double"]), "repeat": kind in LEN_FAULTS and rng.random() < 0.5}


def err_fault(rng, kind, nth, code=None, echo=None):
    """an error response in the middle of the transfer: 4.00 / 4.08 / 4.13 / 5.00 / 5.03, diagnostic payload or none;
    on a Block1 request with the Block1 option echoed (possibly naming a smaller size) or without, 4.13 possibly
    with a Size1 hint"""
    code = rng.choice(ERRCODES) if code is None else code
    f = {"kind": kind, "nth": nth, "ecode": code, "elen": rng.choice([0, 5, 23])}
    if kind == "e1":
        f["echo"] = (rng.random() < 0.5) if echo is None else echo
        if f["echo"] and rng.random() < 0.6:
            f["hint"] = rng.randint(0, 6)
        if code == 141 and rng.random() < 0.6:
            f["size1"] = rng.choice([16, 100, 1024])
    return f


def lossy_net(rng, nonconfirmable=False):
    return {"p": rng.choice([0.1, 0.2, 0.3, 0.45]), "seed": rng.randint(0, 2 ** 30), "maxrun": rng.choice([1, 2, 3, 3])}


def blocks_len(rng, blocks, szx):
    size = 2 ** (szx + 4)
    n = blocks * size - rng.choice([0, 1, size - 1])
    return max(n, 1125) if szx == 6 and blocks > 1 else n


def one_transfer(rng, up, down, szx, **kw):
    """a fault-free transfer of `up` blocks up and `down` blocks down at exponent szx (0 blocks: no body that way)"""
    N = blocks_len(rng, up, szx) if up else 0
    M = blocks_len(rng, down, szx) if down else rng.choice([0, 3])
    d = {"code": (1 if rng.random() < 0.7 else 5) if N == 0 else rng.choice([2, 3, 5]), "N": N,
         "C": szx if rng.random() < 0.7 else rng.randint(szx, 6),
         "reps": [{"len": M, "etag": rng.random() < 0.8}, {"len": M + rng.choice([0, 1, 16]), "etag": True}],
         "query": rng.choice([["v=2"], ["a=1", "b=2"], None]), "accept": rng.choice([None, 60]),
         "s1": [szx] if rng.random() < 0.7 else [szx, max(0, szx - 1)],
         "s2": [szx] if rng.random() < 0.7 else [szx, max(0, szx - 1)],
         "fault": None, "ack": ack_style(rng), "ackcode": rng.choice([68, 65]), "con": True}
    d.update(kw)
    return d


def top(rng, d=None, **kw):
    out = {"mid0": rng.randint(0, 65535), "tok0": rng.randint(0, 65535), "net": {}, "dedup": rng.random() < 0.7}
    out.update(d or {})
    out.update(kw)
    return out


def random_multi(rng):
    """two or three concurrent transfers (different resources) from one context, the server answering in a random order"""
    n = rng.choice([2, 2, 2, 3])
    trs = []
    for i in range(n):
        shape = rng.choice(["up", "down", "both", "both"])
        szx = rng.randint(0, 6)
        d = one_transfer(rng, rng.choice([1, 2, 3, 5, 9]) if shape != "down" else 0, rng.choice([1, 2, 3, 5, 9]) if shape != "up" else 0, szx)
        if rng.random() < 0.3:
            d["N"] = rng.choice(LENS[:-1])
            d["C"] = max(d["C"], 3)
            d["s1"] = [max(3, x) for x in d["s1"]]
            if d["N"] == 0:
                d["code"] = 1
            elif d["code"] == 1:
                d["code"] = 2
        d["fault"] = random_fault(rng, 0.25)
        trs.append(d)
    # confirmable requests to one peer leave the client one at a time (NSTART = 1): only non-confirmable transfers
    # have requests pending at the server side by side
    kind = rng.choice(["con", "non", "non", "mixed"])
    for d in trs:
        d["con"] = kind == "con" or (kind == "mixed" and rng.random() < 0.5)
    net = {}
    if rng.random() < 0.3:
        for _ in range(rng.choice([1, 2, 3])):
            net[str(rng.randint(1, 20))] = rng.choice(["dropreq", "dropresp", "dupresp", "dupreq", "slow", "late"])
    s = top(rng, transfers=trs, order=[rng.randrange(n) for _ in range(rng.choice([0, 10, 40, 80]))], net=net)
    if not net and rng.random() < 0.15:
        s["lossy"] = lossy_net(rng)
        s["horizon"] = 4000
    return s


def xmatrix_schedules(rng, quick=True):
    """The situations of the second extension, each at a first / middle / final block with real sizes
    (quick: the smallest and the largest block size, fewer variants)."""
    out = []
    ends = (0, 6) if quick else (0, 3, 6)
    # (a) an error response instead of the acknowledgement of a Block1 request: every code x Block1 echoed or not x position
    for code in ERRCODES:
        for echo in (False, True):
            for pos in ("first", "middle", "final"):
                for szx in ends:
                    blocks = rng.choice([3, 5])
                    d = one_transfer(rng, blocks, rng.choice([0, 1, 3]), szx, C=szx, s1=[szx])
                    d["fault"] = err_fault(rng, "e1", {"first": 0, "middle": rng.randint(1, blocks - 2), "final": blocks - 1}[pos], code, echo)
                    out.append(top(rng, d))
    # (b) an error response to a Block2 continuation request (after a plain request and after an upload)
    for code in ERRCODES:
        for pos in (1, 2, "last"):
            for szx in ends:
                blocks = rng.choice([3, 4, 6])
                d = one_transfer(rng, rng.choice([0, 0, 2]), blocks, szx, C=szx, s2=[szx])
                d["fault"] = err_fault(rng, "e2", blocks - 1 if pos == "last" else pos, code)
                out.append(top(rng, d))
    # (c) the ETag of an unchanged representation on some blocks only; (d) a representation that shrinks to / below the
    # offset reached (4.00), or to just above it; (e) changes no ETag shows, to a shorter and to a longer representation
    for nth in (1, 2):
        for szx in ends:
            size = 2 ** (szx + 4)
            for et1 in (True, False):
                d = one_transfer(rng, 0, 4, szx, C=szx, s2=[szx])
                d["reps"][0]["etag"] = et1
                d["fault"] = {"kind": "etsome", "nth": nth}
                out.append(top(rng, d))
                for et2 in (True, False):
                    for m2 in ((5, nth * size, nth * size + 1, 9 * size) if quick else (0, 5, nth * size - 1, nth * size, nth * size + 1, 3 * size - 1, 9 * size)):
                        d = one_transfer(rng, rng.choice([0, 0, 2]), 4, szx, C=szx, s2=[szx])
                        d["reps"] = [{"len": d["reps"][0]["len"], "etag": et1}, {"len": m2, "etag": et2}]
                        d["fault"] = {"kind": "etag", "nth": nth}
                        out.append(top(rng, d))
    # (f) a server that answers a Block2 request above the requested exponent: continuation requests, and the
    # application's own Block2 option in the request; (g) the same in a Block1 acknowledgement
    for szx in ((0, 3, 5) if quick else (0, 1, 3, 5)):
        for nth in ((1, 2, 4) if quick else (1, 2, 3, 4)):
            for cmax in (szx, szx + 1, 6):
                d = one_transfer(rng, rng.choice([0, 0, 2]), 9, szx, C=cmax, s2=[szx])
                d["fault"] = {"kind": "b2grow", "nth": nth}
                out.append(top(rng, d))
        for cmax in (szx, 6):
            d = one_transfer(rng, 0, 5, szx, C=cmax, s2=[szx], b2req=szx)
            d["fault"] = {"kind": "b2grow", "nth": rng.choice([0, 0, 1])}
            out.append(top(rng, d))
            d = one_transfer(rng, 0, 5, szx, C=cmax, s2=[rng.randint(0, 6)], b2req=szx)
            out.append(top(rng, d))
        for nth in (0, 1, 2):
            d = one_transfer(rng, 5, rng.choice([0, 2]), szx, C=szx, s1=[szx])
            d["fault"] = {"kind": "b1grow", "nth": nth}
            out.append(top(rng, d))
    # (f') "restart bigger" (seeded change C05-seed4): after an odd number of small blocks the continuation request is
    # answered with the larger block that contains the offset -- the whole representation as block 0 / final, or a
    # block that announces more; the small size comes from the client maximum or from the application's Block2 option
    for szx in (0, 2, 4):
        size = 2 ** (szx + 4)
        for nth in (1, 3):
            for by in (1, 2, 6):
                big = 2 ** (min(6, szx + by) + 4)
                for M in (big - rng.choice([0, 1, 24]), max((nth + 1) * size + 1, big + rng.choice([1, big // 2, 3 * big]))):
                    if M <= nth * size:
                        continue
                    hint = rng.random() < 0.5
                    d = one_transfer(rng, rng.choice([0, 0, 2]), 1, szx, C=6 if hint else szx, s2=[szx], b2req=szx if hint else None)
                    d["reps"] = [{"len": M, "etag": rng.random() < 0.7}, {"len": M, "etag": True}]
                    d["fault"] = {"kind": "b2big", "nth": nth, "by": by}
                    out.append(top(rng, d))
    # (h) a large request body whose response is large too: the acknowledgement of the last Block1 request carries
    # Block2 0/more; reductions in both phases; some with a lost / duplicated / late datagram
    for up in (2, 3, 5):
        for down in (2, 3, 5):
            for szx in (0, 3, 6):
                for ack in ((rng.choice([["a"], ["s"]]),) if quick else (["a"], ["s"])):
                    d = one_transfer(rng, up, down, szx, ack=ack)
                    net = {}
                    if rng.random() < 0.3:
                        net[str(rng.randint(1, up + down))] = rng.choice(["dropreq", "dropresp", "dupresp", "dupreq", "slow", "late"])
                    out.append(top(rng, d, net=net))
    # (i) concurrent transfers: two uploads, upload + download, two downloads, two combined ones; the server answers
    # strictly alternating, one transfer first, the other first, at random
    for shapes in ((("up", "up"), ("up", "down"), ("down", "down"), ("both", "both"), ("down", "both"))):
        for szx in (0, 3):
            for pattern in ("alternate", "first", "second", "random"):
                for con in ((False, True) if pattern in ("alternate", "random") or not quick else (False,)):
                    trs = [one_transfer(rng, rng.choice([2, 3, 5]) if sh != "down" else 0, rng.choice([2, 3, 5]) if sh != "up" else 0, szx, con=con)
                           for sh in shapes]
                    order = {"alternate": [0, 1] * 12, "first": [0] * 30, "second": [1] * 30,
                             "random": [rng.randrange(2) for _ in range(30)]}[pattern]
                    out.append(top(rng, transfers=trs, order=order))
    # (j) lossy networks (seeded; up to MAX_RETRANSMIT - 1 consecutive losses of one exchange, duplicates, late and
    # slow copies), confirmable; non-confirmable transfers with duplicated, delayed and late copies only
    for i in range(24 if quick else 36):
        szx = rng.choice([0, 2, 4, 6])
        d = one_transfer(rng, rng.choice([0, 2, 4, 7]), rng.choice([0, 2, 4, 7]), szx)
        out.append(top(rng, d, lossy=lossy_net(rng), horizon=4000))
    for i in range(8 if quick else 12):
        szx = rng.choice([0, 2, 4, 6])
        d = one_transfer(rng, rng.choice([0, 2, 4]), rng.choice([0, 2, 4]), szx, con=False)
        out.append(top(rng, d, lossy=lossy_net(rng), horizon=4000))
    return out


def matrix_schedules(rng):
    """Every fault kind (length faults once and repeated) at the first / second / third occasion of short transfers (2, 3, 5 blocks in each direction)
    at small, medium and the largest block size: the faulted response is the first, a middle or the final one."""
    out = []
    # length faults: once and repeated; oversize: one byte too many and two whole blocks
    # ETag change: every combination of representation 1 / 2 with and without ETag
    variants = {k: [(False, "one", None)] for k in FAULTS}
    variants.update(b2short=[(False, "one", None), (True, "one", None)], b2empty=[(False, "one", None), (True, "one", None)],
                    b2over=[(False, "one", None), (True, "one", None), (False, "double", None), (True, "double", None)],
                    etag=[(False, "one", (True, True)), (False, "one", (False, True)), (False, "one", (True, False)),
                          (False, "one", (False, False))])
    for kind, repeat, over, ets, nth, blocks, szx in [(k, r, o, e, n, b, z) for k in FAULTS for (r, o, e) in variants[k]
                                                      for n in (0, 1, 2) for b in (2, 3, 5) for z in (0, 3, 6)]:
        ets = ets or (rng.random() < 0.8, True)
        if True:
            if True:
                if True:
                    size = 2 ** (szx + 4)
                    N = blocks * size - rng.choice([0, 1, size - 1])
                    if szx == 6 and N <= 1124:
                        N = 1125
                    M = blocks * size - rng.choice([0, 1, size - 1])
                    net = {}
                    if rng.random() < 0.3:
                        net[str(rng.randint(1, 2 * blocks))] = rng.choice(["dropreq", "dropresp", "dupresp", "dupreq"])
                    out.append({
                        "mid0": rng.randint(0, 65535), "tok0": rng.randint(0, 65535), "code": rng.choice([2, 3, 5]),
                        "N": N, "C": szx if rng.random() < 0.7 else rng.randint(szx, 6),
                        "reps": [{"len": M, "etag": ets[0]}, {"len": M + rng.choice([0, 1, size]), "etag": ets[1]}],
                        "query": rng.choice([["v=2"], ["v=2"], ["a=1", "b=2"], None]), "accept": rng.choice([None, 60]),
                        "s1": [szx] if rng.random() < 0.7 else [szx, max(0, szx - 1)],
                        "s2": [szx] if rng.random() < 0.7 else [szx, max(0, szx - 1)],
                        "net": net, "fault": {"kind": kind, "nth": nth, "short": rng.choice([1, size // 2, size - 1]),
                                              "over": over, "repeat": repeat},
                        "ack": ack_style(rng), "ackcode": rng.choice([68, 65]),
                        "dedup": rng.random() < 0.7, "con": True,
                    })
    # fault-free uploads of 2, 3, 5 (and after a reduction more) blocks against every acknowledgement style
    for ack in (["a"], ["s"], ["s", "a"], ["a", "s"], ["a", "s", "s"]):
        for blocks in (2, 3, 5):
            for szx in (0, 3, 6):
                size = 2 ** (szx + 4)
                N = max(blocks * size - rng.choice([0, 1, size - 1]), 1125 if szx == 6 else 0)
                out.append({
                    "mid0": rng.randint(0, 65535), "tok0": rng.randint(0, 65535), "code": rng.choice([2, 3]),
                    "N": N, "C": szx, "reps": [{"len": rng.choice([0, 5, size + 1, 3 * size]), "etag": rng.random() < 0.7}],
                    "query": ["v=2"], "accept": rng.choice([None, 0]),
                    "s1": [szx] if rng.random() < 0.6 else [szx, max(0, szx - 1)], "s2": [szx],
                    "net": {}, "fault": None, "ack": ack, "ackcode": rng.choice([68, 65]), "dedup": True, "con": True,
                })
    return out


# ------------------------------------------------------------------ signatures
def scenario(events):
    """normalised shape of a recorded execution: misbehaviour / environment decision (+ where), reduction,
    loss/duplication, number of transfers"""
    kind = "none"
    lastreqs = {}
    red = False
    loss = False
    trs = set()
    for e in events:
        lastreq = lastreqs.get(e["tr"])
        if e["k"] == "submit":
            trs.add(e["tr"])
        if e["k"] == "req" and not e["rt"]:
            if lastreq is not None:
                if 0 <= e["b1s"] < lastreq["b1s"] or (0 <= e["b2s"] < lastreq["b2s"]):
                    red = True
            lastreqs[e["tr"]] = e
        elif e["k"] == "resp" and not e["rt"]:
            if lastreq is not None and e["b2s"] >= 0 and lastreq["b2s"] > e["b2s"]:
                red = True
            if (e["x"] in FAULTS or e["x"] in XFAULTS or e["x"] == "shrunk") and kind == "none":
                where = ""
                if e["x"].startswith("b2") or e["x"] in ("etag", "etsome", "e2"):
                    where = "@later" if (lastreq is not None and lastreq["b2n"] > 0) else "@first"
                elif e["x"] in ("b1num", "e1"):
                    where = "@final" if (lastreq is not None and lastreq["b1m"] == 0) else "@intermediate"
                kind = e["x"] + where
        elif e["k"] == "lost" or (e["k"] in ("req", "resp") and e["rt"]):
            loss = True
    return kind, red, loss, len(trs)


def sig_of(clause, events):
    kind, red, loss, ntr = scenario(events)
    return "%s|fault=%s|reduction=%s|loss=%s%s" % (clause, kind, "yes" if red else "no", "yes" if loss else "no",
                                                    "|transfers=%d" % ntr if ntr > 1 else "")


def describe(s):
    if s.get("transfers"):
        return "%d concurrent transfers %s order=%s net=%s lossy=%s" % (
            len(s["transfers"]), [dict(N=t["N"], C=t["C"], representation=[x["len"] for x in t["reps"]][:1], s1=t["s1"], s2=t["s2"],
                                       fault=t.get("fault")) for t in s["transfers"]], (s.get("order") or [])[:24], s.get("net"), s.get("lossy"))
    return "N=%d C=%d representation %s s1=%s s2=%s fault=%s net=%s%s%s" % (
        s["N"], s["C"], [x["len"] for x in s["reps"]][:1], s["s1"], s["s2"], s.get("fault"), s.get("net"),
        " lossy=%s" % s["lossy"] if s.get("lossy") else "", " Block2 option in the request: szx %s" % s["b2req"] if s.get("b2req") is not None else "")


def judge(rep, wd, scheds, results):
    traces = [r["events"] for r in results]
    verdicts, r = tracecheck.validate(wd, "BlockClientTrace", "BlockClientTrace.cfg.tmpl", {}, traces, timeout=1500)
    facts = {}
    for v in tlc.printed_values(r, "FACTS"):
        for f in v[2]:
            facts[f] = facts.get(f, 0) + 1
    nviol = 0
    for s, res, v in zip(scheds, results, verdicts):
        for clause in sorted(v["bad"]):
            nviol += 1
            at = v["at"][clause]
            done = [short(e) for e in res["events"] if e["k"] == "done"]
            rep.violation(
                clause,
                sig_of(clause, res["events"]),
                "clause %s false at event %d of a recorded execution (%d events): %s; completion %s; failing event %s"
                % (clause, at, len(res["events"]), describe(s), done, short(res["events"][at - 1])),
                {"schedule": s, "events": res["events"], "meta": res["meta"]},
            )
    return nviol, r, facts


# ------------------------------------------------------------------ two concurrent transfers: model behaviour -> schedule
def pair_behaviour_to_schedule(beh, seed):
    sched = {"mid0": (seed * 151) & 0xFFFF, "tok0": (seed * 23) & 0xFFFF, "transfers": [], "order": [], "net": {}, "dedup": True}
    expected = []
    for label, st in beh[1:]:
        act = st.get("act")
        if not act or not act.get("a"):
            continue
        expected += list(st.get("emit", []))
        if act["a"] == "submit":
            for L in [st["loc"][act["i"] - 1]]:
                sched["transfers"].append({"code": 1 if L["N"] == 0 else 2, "N": L["N"], "C": L["C"],
                                           "reps": [{"len": L["M"], "etag": True}], "s1": [L["S"]], "s2": [L["S"]],
                                           "ack": [L["st"]], "ackcode": 68, "query": None, "accept": None, "fault": None, "con": False})
        elif act["a"] == "srv":
            sched["order"].append(act["i"] - 1)
    return sched, expected


def compare_pair(expected, real):
    """per transfer the same events in the same order, and the server answered in the same order"""
    real = [e for e in real if e["k"] != "loopexc"]
    for tr in (1, 2):
        d = compare([e for e in expected if e["tr"] == tr and e["k"] != "end"], [e for e in real if e["tr"] == tr and e["k"] != "end"])
        if d:
            return "transfer %d: %s" % (tr, d)
    xo = [e["tr"] for e in expected if e["k"] == "resp"]
    ro = [e["tr"] for e in real if e["k"] == "resp"]
    if xo != ro:
        return "the server answered in the order %s, the model behaviour has %s" % (ro, xo)
    return None


def exercised(results, scheds=()):
    """what the recorded executions contain (measured from the events)"""
    kinds = {}
    st = {"success": 0, "error": 0, "reductions": 0, "loss_or_dup": 0, "block1_transfers": 0, "block2_transfers": 0,
          "events": 0, "never_completed": 0, "stateless_block1_acks": 0, "atomic_block1_acks": 0,
          "transfers_with_both_ack_styles": 0,
          # second extension
          "transfers": 0, "error_response_returned": 0, "error_response_then_exception": 0,
          "error_responses_delivered": {}, "error_on_block1": {"first": 0, "middle": 0, "final": 0}, "error_on_block2_continuation": 0,
          "block1_and_block2_in_one_transfer": 0, "final_block1_ack_carrying_block2_more": 0,
          "server_growth_block2_delivered": 0, "client_followed_server_growth": 0, "server_growth_block1_delivered": 0,
          "restart_bigger_delivered": 0, "etag_on_some_blocks_only": 0, "representation_shrunk_4_00": 0,
          "request_with_own_block2_option": 0,
          "executions_with_concurrent_transfers": 0, "concurrent_answer_orders_distinct": 0, "concurrent_transfers_completed": 0,
          "max_requests_pending_at_once": 0,
          "lost_datagrams": 0, "retransmissions_seen": 0, "duplicate_or_late_responses": 0, "slow_or_late_copies_after_completion": 0,
          "max_consecutive_losses_of_one_exchange": 0, "nonconfirmable_transfers": 0}
    errclasses = {}
    orders = set()
    for res in results:
        ev = res["events"]
        st["events"] += len(ev)
        st["request_datagrams"] = st.get("request_datagrams", 0) + res["meta"].get("datagrams", 0)
        st["request_datagrams_with_request_tag"] = st.get("request_datagrams_with_request_tag", 0) + res["meta"].get("request_tag_datagrams", 0)
        k, red, loss, ntr = scenario(ev)
        kinds[k] = kinds.get(k, 0) + 1
        st["reductions"] += red
        st["loss_or_dup"] += loss
        st["transfers"] += ntr
        if ntr > 1:
            st["executions_with_concurrent_transfers"] += 1
            orders.add(tuple(e["tr"] for e in ev if e["k"] == "resp" and not e["rt"]))
            pend, mx = set(), 0
            for e in ev:
                if e["k"] == "req":
                    pend.add(e["tr"])
                elif e["k"] == "resp":
                    mx = max(mx, len(pend))
                    pend.discard(e["tr"])
            st["max_requests_pending_at_once"] = max(st["max_requests_pending_at_once"], mx)
        run = 0
        for e in ev:
            if e["k"] == "lost":
                st["lost_datagrams"] += 1
                run += 1
                st["max_consecutive_losses_of_one_exchange"] = max(st["max_consecutive_losses_of_one_exchange"], run)
            elif e["k"] == "req" and not e["rt"]:
                run = 0 if ntr == 1 else run
            if e["k"] == "req" and e["rt"]:
                st["retransmissions_seen"] += 1
            if e["k"] == "resp" and e["rt"]:
                st["duplicate_or_late_responses"] += 1
        for tr in range(1, ntr + 1):
            tev = [e for e in ev if e["tr"] == tr]
            up = any(e["k"] == "req" and e["b1n"] > 0 for e in tev)
            down = any(e["k"] == "req" and e["b2n"] > 0 for e in tev)
            st["block1_transfers"] += up
            st["block2_transfers"] += down
            st["block1_and_block2_in_one_transfer"] += up and down
            # acknowledgements of Block1 requests that are not the last one: 2.31/M=1 (atomic) or 2.xx/M=0 (stateless)
            lastreq, na, ns, grown, enverr = None, 0, 0, False, False
            first = True
            for e in tev:
                if e["k"] == "req":
                    if not e["rt"]:
                        if grown and lastreq is not None and e["b2s"] > lastreq["b2s"] >= 0:
                            st["client_followed_server_growth"] += 1
                        if first and e["b2n"] >= 0:
                            st["request_with_own_block2_option"] += 1
                        first = False
                        lastreq = e
                elif e["k"] == "resp" and not e["rt"] and lastreq is not None:
                    if lastreq["b1m"] == 1 and e["b1n"] >= 0 and e["code"] < 128:
                        if e["code"] == 95:
                            na += 1
                        elif e["b1m"] == 0 and 64 <= e["code"] < 96:
                            ns += 1
                    if lastreq["b1m"] == 0 and e["b1n"] >= 0 and e["b2m"] == 1:
                        st["final_block1_ack_carrying_block2_more"] += 1
                    if e["code"] >= 128:
                        key = "%d.%02d %s" % (e["code"] >> 5, e["code"] & 31, e["x"])
                        st["error_responses_delivered"][key] = st["error_responses_delivered"].get(key, 0) + 1
                        if e["x"] in ("e1", "e2", "shrunk"):
                            enverr = True
                        if e["x"] == "e1":
                            st["error_on_block1"]["final" if lastreq["b1m"] == 0 else "first" if lastreq["b1n"] == 0 else "middle"] += 1
                        if e["x"] == "e2":
                            st["error_on_block2_continuation"] += 1
                        if e["x"] == "shrunk":
                            st["representation_shrunk_4_00"] += 1
                    if e["x"] == "b2grow":
                        st["server_growth_block2_delivered"] += 1
                        grown = True
                    if e["x"] == "b1grow":
                        st["server_growth_block1_delivered"] += 1
                    if e["x"] == "b2big":
                        st["restart_bigger_delivered"] += 1
                    if e["x"] == "etsome":
                        st["etag_on_some_blocks_only"] += 1
            st["atomic_block1_acks"] += na
            st["stateless_block1_acks"] += ns
            st["transfers_with_both_ack_styles"] += bool(na and ns)
            dn = [e for e in tev if e["k"] == "done"]
            if not dn:
                st["never_completed"] += 1
            elif ntr > 1:
                st["concurrent_transfers_completed"] += 1
            for e in dn:
                if e["x"] == "resp":
                    st["success"] += 1
                    if e["code"] >= 128 and enverr:
                        st["error_response_returned"] += 1
                else:
                    st["error"] += 1
                    errclasses[e["x"]] = errclasses.get(e["x"], 0) + 1
                    if enverr:
                        st["error_response_then_exception"] += 1
            if dn:
                t_done = dn[0]["t"]
                st["slow_or_late_copies_after_completion"] += sum(1 for e in tev if e["k"] == "resp" and e["rt"] and e["t"] > t_done)
    st["concurrent_answer_orders_distinct"] = len(orders)
    for s in scheds:
        for t in (s.get("transfers") or [s]):
            st["nonconfirmable_transfers"] += not t.get("con", True)
        st["lossy_network_executions"] = st.get("lossy_network_executions", 0) + bool(s.get("lossy"))
    return kinds, st, errclasses


def work(rep, args):
    quick = args.tier == "quick"
    if args.replay:
        data = json.load(open(args.replay))
        s = data["replay"]["schedule"]
        res = run_all([s])
        if "error" in res[0]:
            raise MachineryError("driver failed on the replay schedule\n" + res[0]["error"])
        with tlc.Workdir() as wd:
            judge(rep, wd, [s], res)
        rep.coverage.update({"states": 0, "transitions": 0, "traces_validated_against_impl": 1, "samples": [{"schedule": s, "events": res[0]["events"][:12]}]})
        return
    rng = random.Random(args.seed * 7919 + 5)
    phases = {}
    t0 = time.time()

    def lap(name):
        nonlocal t0
        phases[name] = round(time.time() - t0, 1)
        t0 = time.time()

    allN = list(range(0, 131))
    # quick: every length within one byte of a block boundary of any modelled size; thorough: every length
    edgeN = sorted({x for b in range(0, 131, 16) for x in (b - 1, b, b + 1) if 0 <= x <= 130} | {130})
    if quick:
        shortN = [x for x in edgeN if x <= 81] + [130]
        consts = dict(Ns=shortN, Ms=shortN, NsWide=[65], MsFew=[0, 40], MsNoEtag=[40], styles=['"a"', '"s"'])
        ecodes, elens = [141], [0, 5]
        netc = dict(Ns=[0, 17, 33, 65], Ms=[0, 40], nb=3)
        pairc = dict(ns="0, 40", ms="0, 40", cs="1", ss="1")
    else:
        consts = dict(Ns=allN, Ms=allN, NsWide=[0, 70, 130], MsFew=[0, 40, 100], MsNoEtag=[40], styles=['"a"', '"s"', '"as"', '"sa"'])
        ecodes, elens = [128, 141, 163], [0, 5]
        netc = dict(Ns=edgeN, Ms=[0, 17, 40, 100], nb=4)
        pairc = dict(ns="0, 40, 65", ms="0, 40", cs="0, 1", ss="0, 1")
    common = dict(xf=XF_ALL, ecodes=cset(ecodes), elens=cset(elens))
    with tlc.Workdir() as wd:
        def mc():
            cfg = "BlockClient_mc.cfg"
            wd.write(cfg, CFG % dict({k: cset(v) for k, v in consts.items()}, at="0", comb="FALSE" if quick else "TRUE", nb=1, fbud=1,
                                     extra="VIEW View\nINVARIANT NoBad\nINVARIANT Completes", **common))
            return tlc.run(wd, "BlockClient.tla", cfg, timeout=900 if quick else 3000, heap="8g")

        def netmc():
            # several lost / duplicated datagrams per transfer (also the same one repeatedly), no fault
            cfg = "BlockClient_net.cfg"
            wd.write(cfg, CFG % dict(Ns=cset(netc["Ns"]), Ms=cset(netc["Ms"]), NsWide=cset(netc["Ns"]), MsFew="0", MsNoEtag="",
                                     styles='"a", "s"', at="0", comb="TRUE", nb=netc["nb"], fbud=0,
                                     extra="VIEW View\nINVARIANT NoBad\nINVARIANT Completes", xf="", ecodes="141", elens="0"))
            return tlc.run(wd, "BlockClient.tla", cfg, timeout=900 if quick else 2400, heap="4g", workers=4)

        wd.write("BlockClient_sim.cfg", CFG % dict(Ns=cset(allN), Ms=cset(edgeN + [7, 40, 100]), NsWide=cset(allN), MsFew="0", MsNoEtag=cset([16, 17, 33, 40, 64, 65, 100, 129]), at=cset(range(1, 15)), comb="TRUE", nb=1, fbud=1, styles='"a", "s", "as", "sa"', extra="",
                                                   xf=XF_ALL, ecodes=cset(ERRCODES), elens="0, 5"))
        simdir = wd.file("sim")
        os.makedirs(simdir)
        nsim = 150 if quick else 4000

        def sim():
            return tlc.run(wd, "BlockClient.tla", "BlockClient_sim.cfg", workers=1, timeout=900 if quick else 2400,
                           simulate="file=%s/tr,num=%d" % (simdir, nsim), depth=80, seed=args.seed + 1)

        def pairmc(fresh=True):
            cfg = "BlockClientPair_%s.cfg" % ("mc" if fresh else "bad")
            wd.write(cfg, PAIR_CFG % dict(pairc if fresh else dict(ns="0, 40", ms="0, 40", cs="1", ss="1"), fresh="TRUE" if fresh else "FALSE",
                                          extra="VIEW View\nINVARIANT NoBad\nINVARIANT Completes\nINVARIANT NoneStranded"))
            return tlc.run(wd, "BlockClientPair.tla", cfg, timeout=900 if quick else 2400, heap="4g", workers=4 if fresh else 1)

        wd.write("BlockClientPair_sim.cfg", PAIR_CFG % dict(ns="0, 17, 40, 65, 100", ms="0, 17, 40, 100", cs="0, 1, 2", ss="0, 1, 2", fresh="TRUE", extra=""))
        psimdir = wd.file("psim")
        os.makedirs(psimdir)
        npsim = 30 if quick else 1500

        def pairsim():
            return tlc.run(wd, "BlockClientPair.tla", "BlockClientPair_sim.cfg", workers=1, timeout=900 if quick else 2400,
                           simulate="file=%s/tr,num=%d" % (psimdir, npsim), depth=120, seed=args.seed + 2)

        with ThreadPoolExecutor(6) as ex:
            # (the known-bad variant of the pair model is re-checked in the thorough tier only)
            futs = [ex.submit(f) for f in (mc, sim, netmc, pairmc, pairsim)] + ([] if quick else [ex.submit(pairmc, False)])
            res = [f.result() for f in futs]
            mcr, simr, netr, pairr, psimr = res[:5]
            badr = res[5] if len(res) > 5 else None
        lap("tlc_exhaustive_and_simulation")
        for r, what in ((mcr, "BlockClient model check"), (netr, "BlockClient model check (loss budget)"), (pairr, "BlockClientPair model check")):
            tlc.need_ok_run(r, what)
            if r.violated:
                raise MachineryError("%s: the design violates %s\n%s" % (what, r.violated, r.out[-1500:]))
        if badr is not None:
            tlc.need_ok_run(badr, "BlockClientPair known-bad variant")
        if badr is not None and not badr.violated:
            raise MachineryError("BlockClientPair with a token handed out twice (FreshTokens = FALSE) violates nothing: the pair model is insensitive")
        tlc.need_ok_run(simr, "BlockClient simulation")
        tlc.need_ok_run(psimr, "BlockClientPair simulation")
        behaviours = tlc.read_sim_traces(os.path.join(simdir, "tr"))
        model = [behaviour_to_schedule(b, i) for i, b in enumerate(behaviours)]
        model = [(s, e) for s, e in model if e and e[-1]["k"] == "end"]
        if len(model) < nsim // 2:
            raise MachineryError("only %d of %d simulated behaviours are complete transfers" % (len(model), nsim))
        pmodel = [pair_behaviour_to_schedule(b, i) for i, b in enumerate(tlc.read_sim_traces(os.path.join(psimdir, "tr")))]
        pmodel = [(s, e) for s, e in pmodel if e and e[-1]["k"] == "end"]
        if len(pmodel) < npsim // 2:
            raise MachineryError("only %d of %d simulated two-transfer behaviours are complete" % (len(pmodel), npsim))
        rand = [random_schedule(rng, i) for i in range(200 if quick else 8000)]
        multi = [random_multi(rng) for i in range(40 if quick else 2500)]
        matrix = matrix_schedules(rng)
        xmatrix = xmatrix_schedules(rng, quick)
        if not quick:
            for _ in range(3):
                xmatrix += xmatrix_schedules(rng, quick)
        scheds = [s for s, _ in model] + [s for s, _ in pmodel] + rand + multi + matrix + xmatrix
        lap("schedules")
        results = run_all(scheds)
        lap("real_executions")
        for s, res in zip(scheds, results):
            if "error" in res:
                raise MachineryError("driver failed on schedule %s\n%s" % (json.dumps(s)[:600], res["error"]))
        ndrift = 0
        for (s, exp), res in zip(model, results):
            d = compare(exp, res["events"])
            if d:
                ndrift += 1
                rep.add_drift("model behaviour not reproduced by implementation (N=%d C=%d fault=%s net=%s): %s"
                              % (s["N"], s["C"], s["fault"], s["net"], d))
        npdrift = 0
        for (s, exp), res in zip(pmodel, results[len(model):]):
            d = compare_pair(exp, res["events"])
            if d:
                npdrift += 1
                rep.add_drift("two-transfer model behaviour not reproduced by implementation (%s): %s" % (describe(s), d))
        nviol, tr, facts = judge(rep, wd, scheds, results)
        lap("trace_validation")

        # ---- what was actually exercised
        kinds, stats, errclasses = exercised(results, scheds)
        if not nviol:
            missing = [f for f in FAULTS + XFAULTS + ["shrunk"] if not any(k.startswith(f) for k in kinds)]
            stats["fault_kinds_never_delivered"] = missing
            if len(missing) > 2:
                raise MachineryError("faults never delivered to the implementation: %s" % missing)
            for key in ("success", "error", "reductions", "loss_or_dup", "block1_transfers", "block2_transfers",
                        "stateless_block1_acks", "atomic_block1_acks", "transfers_with_both_ack_styles",
                        "error_response_returned", "error_on_block2_continuation", "block1_and_block2_in_one_transfer",
                        "final_block1_ack_carrying_block2_more", "server_growth_block2_delivered", "restart_bigger_delivered",
                        "etag_on_some_blocks_only", "representation_shrunk_4_00", "executions_with_concurrent_transfers",
                        "concurrent_transfers_completed", "lost_datagrams", "duplicate_or_late_responses", "request_with_own_block2_option",
                        "nonconfirmable_transfers", "lossy_network_executions", "slow_or_late_copies_after_completion"):
                if not stats[key]:
                    raise MachineryError("vacuous run: no recorded transfer with %s" % key)
            if min(stats["error_on_block1"].values()) == 0:
                raise MachineryError("vacuous run: error responses to Block1 requests %s" % stats["error_on_block1"])
            if stats["max_requests_pending_at_once"] < 2:
                raise MachineryError("vacuous run: the server never held requests of two transfers at once")
            for f in ("error-response-returned", "bodies", "bodies-after-hidden-change", "bodies-after-server-growth", "violation-delivered"):
                if not facts.get(f):
                    raise MachineryError("vacuous run: the monitor never reached the judgement %s (%s)" % (f, facts))
        rep.coverage.update(
            {
                "states": mcr.distinct, "transitions": mcr.generated, "depth": mcr.depth, "mc_wall_s": round(mcr.wall, 1),
                "mc_constants": {"block1_acknowledgement_styles": [x.strip('"') for x in consts["styles"]], "request_lengths": len(consts["Ns"]), "representation_lengths": len(consts["Ms"]),
                                 "request_lengths_combined_with_all_representation_lengths": consts["NsWide"],
                                 "representation_lengths_combined_with_all_request_lengths": consts["MsFew"],
                                 "size_exponents": [0, 1, 2], "faults_per_transfer": 1, "lost_or_duplicated_per_transfer": 1,
                                 "fault_and_loss_in_one_transfer": not quick,
                                 "environment_decisions_besides_the_faults": XF_ALL.replace('"', ""), "error_codes": ecodes,
                                 "diagnostic_payload_lengths": elens},
                "loss_budget_configuration": {"states": netr.distinct, "transitions": netr.generated, "depth": netr.depth,
                                              "wall_s": round(netr.wall, 1), "lost_or_duplicated_per_transfer": netc["nb"],
                                              "request_lengths": netc["Ns"], "representation_lengths": netc["Ms"]},
                "pair_model": {"states": pairr.distinct, "transitions": pairr.generated, "depth": pairr.depth, "wall_s": round(pairr.wall, 1),
                               "constants": pairc, "known_bad_variant_token_handed_out_twice_violates": badr.violated if badr is not None else "thorough tier only",
                               "known_bad_states": badr.distinct if badr is not None else 0},
                "traces_validated_against_impl": len(results),
                "phase_wall_s": phases,
                "schedules_from_model_behaviours": len(model),
                "model_behaviours_reproduced_exactly": len(model) - ndrift,
                "schedules_from_two_transfer_model_behaviours": len(pmodel),
                "two_transfer_model_behaviours_reproduced_exactly": len(pmodel) - npdrift,
                "random_schedules": len(rand), "random_concurrent_schedules": len(multi), "fault_matrix_schedules": len(matrix),
                "second_extension_matrix_schedules": len(xmatrix),
                "scenario_kinds": kinds, "exercised": stats, "error_classes": errclasses,
                "monitor_judgements_traces": facts,
                "samples": [{"schedule": scheds[0], "events": [short(e) for e in results[0]["events"][:12]]},
                            {"schedule": scheds[len(model)], "events": [short(e) for e in results[len(model)]["events"][:16]]},
                            {"schedule": scheds[-1], "events": [short(e) for e in results[-1]["events"][:12]]}],
                "exhaustive": True,
                "checker_cmd": "tlc BlockClient.tla (fault configuration + loss-budget configuration + -simulate); tlc BlockClientPair.tla (exhaustive, known-bad variant, -simulate); tlc BlockClientTrace.tla on recorded traces",
            }
        )
        rep.assumptions += [
            "the reference server of harness/blockclientdrive.py is a faithful RFC 7959 server (intervals, Block2 slices, ETag); it shares no code with aiocoap (own codec harness/wire.py)",
            "bodies are self-describing canonical strings (harness/drive.py canon/identify): misplaced, duplicated, missing or mixed bytes are visible",
            "which exception class ends a faulted transfer, whether Size1 is sent, the request method and whether the client honours its own maximum are not judged",
            "after an error response of the server (4.xx / 5.xx as acknowledgement of a Block1 request or as answer to a Block2 continuation) both a returned error response (it must be one the server sent, code and payload) and an exception are accepted; a restart of the upload at block 0 would be accepted too",
            "a server that answers above the requested size exponent with the right bytes has violated the protocol in a way the statement does not name: failing and going on (also at the server's larger exponent) are both accepted, the bodies are judged as usual",
            "a change of the representation that no ETag shows is outside the statement; the returned body is only required to consist of the server's bytes at their own positions and to end where one of the two representations ends",
            "concurrent transfers go to different resources (the client uses no Request-Tag; an RFC 7959 server cannot keep two uploads to one resource apart): requests are attributed to a transfer by their Uri-Path",
            "at most MAX_RETRANSMIT - 1 consecutive losses of one exchange (no transfer is driven into a message-layer timeout)",
        ]


if __name__ == "__main__":
    sys.exit(runner.main("C05", work))
