"""C03 -- confirmable messages: bounded exponential back-off that always terminates."""
import sys
from harness import runner
from checks import msgclient

def work(rep, args):
    msgclient.check(rep, args, "C03_", "c03")

if __name__ == "__main__":
    sys.exit(runner.main("C03", work))
