"""C02 -- a response reaches exactly the request it answers; every request completes once.

TLC checks spec/TokenLayer.tla exhaustively (adversarial peer: current /
retired / never-issued tokens, right / wrong source, CON / NON / piggy-backed,
Resets, ICMP errors, shutdown at any point); its simulated behaviours are
replayed on the real stack and compared; recorded traces of those and of
randomised schedules (many concurrent requests, forged responses, loss,
duplication, give-up, shutdown) are validated by TLC against TokenTrace.tla."""

import json
import os
import random
import sys

from harness import tlc, tracecheck, MachineryError, runner
from harness.drive import run_all

CFG = """SPECIFICATION Spec
CONSTANTS
  NRemotes = 2
  NReqs = %(nreqs)d
  MaxEnv = %(maxenv)d
%(extra)s
"""
INVS = "VIEW View\nINVARIANT NoBad\nINVARIANT TableAgrees"

TUNING = {"ACK_TIMEOUT": 2.0, "ACK_RANDOM_FACTOR": 1.5, "MAX_RETRANSMIT": 1}


def behaviour_to_schedule(beh):
    steps = []
    expected = []
    t = 0
    for label, st in beh[1:]:
        emit = st.get("emit", [])
        if not emit:
            continue
        e0 = emit[0]
        t += 8
        if e0["k"] == "submit":
            steps.append({"at": t, "do": "submit", "q": e0["q"], "r": e0["r"], "con": bool(e0["con"]), "f": 0.0})
            if len(emit) > 1 and emit[1]["k"] == "err":
                steps[-1]["fault"] = 1  # SubmitRefused: the first datagram is refused inside sendmsg
        elif e0["k"] == "rx":
            s = {"at": t, "do": "rx", "r": e0["r"], "ty": e0["ty"]}
            tokq = {"t1": 1, "t2": 2, "t3": 3}.get(e0["tok"])
            if e0["cls"] == "resp":
                s["code"] = 69
                s["tok"] = {"of": tokq} if tokq else "dead"
                s["mid"] = {"of": e0["mid"]} if e0["ty"] == "ACK" and e0["mid"] < 100 else 9000 + e0["mid"]
            else:
                s["code"] = 0
                s["mid"] = {"of": e0["mid"]}
            steps.append(s)
        elif e0["k"] == "err":
            steps.append({"at": t, "do": "err", "r": e0["r"]})
        elif e0["k"] == "shutdown":
            steps.append({"at": t, "do": "shutdown"})
        for e in emit:
            expected.append((e["k"], e["r"] if e["k"] in ("rx", "tx", "err", "submit") else 0, e["ty"], e["q"], e["cls"]))
    return {"tuning": dict(TUNING), "mid0": 300, "tok0": 77, "nremotes": 2, "steps": steps, "horizon": 64}, expected


def project(e):
    return (e["k"], e["r"] if e["k"] in ("rx", "tx", "err", "submit") else 0, e["ty"], e["q"], e["cls"])


def compare(expected, real):
    got = [project(e) for e in real if e["k"] in ("submit", "tx", "rx", "rxend", "done", "err", "shutdown")]
    for i, x in enumerate(expected):
        if i >= len(got):
            return "model predicts %d events, implementation produced %d; first missing %s" % (len(expected), len(got), x)
        if x != got[i]:
            return "event %d: model predicts %s, implementation produced %s" % (i + 1, x, got[i])
    return None


def random_schedule(rng):
    nrem = rng.choice([1, 2, 3, 5])
    nreq = rng.randint(1, 20 if rng.random() < 0.3 else 6)
    steps = []
    triggers = []
    t = 0
    shut_at = None
    for q in range(1, nreq + 1):
        r = rng.randint(1, nrem)
        con = rng.random() < 0.7
        t += rng.choice([0, 0, 1, 5, 100, 3000])
        steps.append({"at": t, "do": "submit", "q": q, "r": r, "con": con, "f": rng.choice([0.0, 0.5, 1.0])})
        fate = rng.choice(["piggy", "sep", "sepcon", "nonresp", "rst", "lost", "dupresp", "wrongsrc", "deadtok", "ackonly"])
        if rng.random() < 0.08:
            # the kernel refuses the datagram inside sendmsg (no route, EPERM, ...): the error is reported
            # synchronously, while the request is still being sent for the first time
            steps[-1]["fault"] = 1
        on = {"q": q, "copy": rng.choice([1, 1, 2])}
        d = rng.choice([1, 3, 40, 700])
        other = (r % max(nrem, 2)) + 1
        resp = lambda ty, src=r, mid=None, tok=None: {
            "r": src,
            "ty": ty,
            "code": 69,
            "mid": mid if mid is not None else rng.randint(0, 65535),
            "tok": tok if tok is not None else {"of": q},
        }
        if fate == "piggy" and con:
            triggers.append({"on": on, "delay": d, "rx": resp("ACK", mid={"of": q})})
        elif fate in ("sep", "sepcon") and con:
            triggers.append({"on": on, "delay": d, "rx": {"r": r, "ty": "ACK", "code": 0, "mid": {"of": q}}})
            triggers.append({"on": on, "delay": d + rng.choice([1, 200]), "rx": resp("CON" if fate == "sepcon" else "NON")})
        elif fate == "nonresp" or (not con and fate in ("piggy", "sep", "sepcon")):
            triggers.append({"on": on, "delay": d, "rx": resp(rng.choice(["NON", "CON"]))})
        elif fate == "rst":
            triggers.append({"on": on, "delay": d, "rx": {"r": r, "ty": "RST", "code": 0, "mid": {"of": q}}})
        elif fate == "dupresp":
            rx = resp(rng.choice(["NON", "CON"]))
            triggers.append({"on": on, "delay": d, "rx": rx})
            triggers.append({"on": on, "delay": d + rng.choice([0, 1, 50]), "rx": dict(rx)})
            triggers.append({"on": on, "delay": d + 2, "rx": {"r": r, "ty": "ACK", "code": 0, "mid": {"of": q}}})
        elif fate == "wrongsrc":
            # right token, wrong endpoint (different address, or same address other port), then maybe the real one
            if rng.random() < 0.5:
                triggers.append({"on": on, "delay": d, "rx": resp(rng.choice(["NON", "CON", "ACK"]), src=other, mid={"of": q})})
            else:
                rx = resp(rng.choice(["NON", "CON"]))
                rx["port"] = 6000
                triggers.append({"on": on, "delay": d, "rx": rx})
            if rng.random() < 0.5:
                triggers.append({"on": on, "delay": d + 5, "rx": resp("NON")})
        elif fate == "deadtok":
            triggers.append({"on": on, "delay": d, "rx": resp(rng.choice(["NON", "CON"]), tok="%04x" % rng.randint(0, 65535))})
        elif fate == "ackonly" and con:
            triggers.append({"on": on, "delay": d, "rx": {"r": r, "ty": "ACK", "code": 0, "mid": {"of": q}}})
        # "lost": nothing
        if rng.random() < 0.12:
            # role reversal with a colliding token: the peer's tokens are its own business, a request of the peer
            # may carry the very token of a request this endpoint has outstanding or still holds back for it
            steps.append({"at": t + rng.choice([1, 2, 30, 800]), "do": "rx", "r": r, "ty": rng.choice(["CON", "NON"]), "code": 1,
                          "mid": 40000 + q, "tok": {"of": q}, "path": ["nothere"]})
    if rng.random() < 0.25:
        steps.append({"at": rng.randint(0, max(1, t)) + rng.choice([0, 3, 2500]), "do": "err", "r": rng.randint(1, nrem)})
    if rng.random() < 0.3:
        shut_at = rng.randint(0, max(1, t)) + rng.choice([0, 2, 50, 4000])
        steps.append({"at": shut_at, "do": "shutdown"})
        if rng.random() < 0.5:
            steps.append({"at": shut_at + rng.choice([0, 1, 500]), "do": "submit", "q": nreq + 1, "r": 1, "con": True})
    steps.sort(key=lambda s: (s["at"], 0 if s["do"] != "submit" else 1))
    # late submissions must not precede earlier q numbers: renumber in order
    n = 0
    ren = {}
    for s in steps:
        if s["do"] == "submit":
            n += 1
            ren[s["q"]] = n
            s["q"] = n
    for st in steps:
        if st["do"] == "rx" and isinstance(st.get("tok"), dict):
            st["tok"] = {"of": ren[st["tok"]["of"]]}
    for tr in triggers:
        tr["on"]["q"] = ren[tr["on"]["q"]]
        for key in ("mid", "tok"):
            v = tr["rx"].get(key)
            if isinstance(v, dict) and "of" in v:
                tr["rx"][key] = {"of": ren[v["of"]]}
    return {
        "tuning": dict(TUNING, MAX_RETRANSMIT=rng.choice([0, 1, 2])),
        "mid0": rng.randint(0, 65535),
        "tok0": rng.choice([0, 255, 65535, rng.randint(0, 65535)]),
        "nremotes": 6,
        "steps": steps,
        "triggers": triggers,
    }


def allocator_schedule(tok0, n, con):
    """One request stays outstanding (acknowledged, never answered) while n further requests to the same endpoint
    come and go: the token allocator must not hand the pinned request's token out again."""
    steps = [{"at": 0, "do": "submit", "q": 1, "r": 1, "con": con, "f": 0.0}]
    for i in range(2, n + 2):
        steps.append({"at": 10 + 2 * i, "do": "submit", "q": i, "r": 1, "con": False})
    return {"tuning": dict(TUNING), "mid0": 4000, "tok0": tok0, "nremotes": 2, "steps": steps, "name": "allocator",
            "autoreply": [{"match": {"r": 1}, "skip": 1, "skip_ack": True, "code": 69, "delay": 1}], "horizon": 200 * 1024}


def forged_schedule(rng):
    """A lost confirmable request whose message ID an unrelated endpoint (or the right endpoint's other port) echoes
    in an empty ACK or Reset: it changes nothing, the request still times out."""
    steps = [{"at": 0, "do": "submit", "q": 1, "r": 1, "con": True, "f": 0.0}]
    trig = []
    for copy in (1, 2):
        rx = {"r": rng.choice([2, 3]), "ty": rng.choice(["ACK", "RST"]), "code": 0, "mid": {"of": 1}}
        if rng.random() < 0.3:
            rx = {"r": 1, "port": 6001, "ty": rng.choice(["ACK", "RST"]), "code": 0, "mid": {"of": 1}}
        trig.append({"on": {"q": 1, "copy": copy}, "delay": rng.choice([1, 40, 700]), "rx": rx})
    if rng.random() < 0.5:
        steps.append({"at": rng.choice([1, 500]), "do": "submit", "q": 2, "r": 1, "con": True, "f": 0.0})
    return {"tuning": dict(TUNING, MAX_RETRANSMIT=rng.choice([1, 2])), "mid0": rng.randint(0, 65535), "tok0": rng.randint(0, 65535),
            "nremotes": 4, "steps": steps, "triggers": trig, "name": "forged-empty"}


def sig_of(clause, sched):
    shape = [s["do"] for s in sched["steps"]][:12]
    trig = sorted({t["rx"]["ty"] + ("r" if t["rx"].get("code") else "e") for t in sched.get("triggers", ())})
    return "%s|%s|%s" % (clause, ",".join(shape), "".join(trig))


def work(rep, args):
    quick = args.tier == "quick"
    rng = random.Random(args.seed * 31337 + 2)
    consts = dict(nreqs=3, maxenv=3 if quick else 4)
    nsim = 300 if quick else 3000
    nrand = 600 if quick else 8000
    with tlc.Workdir() as wd:
        wd.write("Token_run.cfg", CFG % dict(consts, extra=INVS))
        mc = tlc.run(wd, "TokenLayer.tla", "Token_run.cfg", timeout=900)
        tlc.need_ok_run(mc, "TokenLayer model check")
        wd.write("Token_sim.cfg", CFG % dict(nreqs=3, maxenv=6, extra=""))
        simdir = wd.file("sim")
        os.makedirs(simdir)
        sim = tlc.run(wd, "TokenLayer.tla", "Token_sim.cfg", workers=1, timeout=600,
                      simulate="file=%s/tr,num=%d" % (simdir, nsim), depth=14, seed=args.seed + 1)
        tlc.need_ok_run(sim, "TokenLayer simulation")
        behaviours = tlc.read_sim_traces(os.path.join(simdir, "tr"))
        if mc.error_trace:
            behaviours.insert(0, mc.error_trace)
        model = [behaviour_to_schedule(b) for b in behaviours]
        model = [(s, e) for s, e in model if s["steps"]]
        rand = [random_schedule(rng) for _ in range(nrand)]
        rand += [forged_schedule(rng) for _ in range(20 if quick else 200)]
        rand += [allocator_schedule(1, 300, True), allocator_schedule(rng.choice([0, 255, 65535, rng.randint(0, 65535)]), 300, False)]
        if not quick:
            rand += [allocator_schedule(255, 700, True), allocator_schedule(65535, 1100, False)]
        scheds = [s for s, _ in model] + rand
        results = run_all(scheds)
        for s, res in zip(scheds, results):
            if "error" in res:
                raise MachineryError("driver failed on schedule %s\n%s" % (json.dumps(s)[:400], res["error"]))
        ndrift = 0
        for (s, exp), res in zip(model, results):
            d = compare(exp, res["events"])
            if d:
                ndrift += 1
                rep.add_drift("model behaviour not reproduced by implementation: " + d)
        traces = [r["events"] for r in results]
        verdicts, r = tracecheck.validate(wd, "TokenTrace", "TokenTrace.cfg.tmpl", {}, traces)
        shapes = set()
        for i, v in enumerate(verdicts):
            shapes.add(tuple(e["k"] + e["ty"] for e in traces[i] if e["k"] in ("rx", "done", "err", "shutdown")))
            for clause in sorted(v["bad"]):
                rep.violation(
                    clause,
                    sig_of(clause, scheds[i]),
                    "clause %s false at event %d of a recorded execution (%d events); loop exceptions %s"
                    % (clause, v["at"][clause], len(traces[i]), results[i]["meta"]["loop_exceptions"][:1]),
                    {"schedule": scheds[i], "events": traces[i], "meta": results[i]["meta"]},
                )
        if mc.violated and not rep.violations:
            raise MachineryError("TokenLayer model violates %s but no real trace does" % mc.violated)
        rep.coverage.update(
            {
                "states": mc.distinct,
                "transitions": mc.generated,
                "depth": mc.depth,
                "mc_constants": consts,
                "traces_validated_against_impl": len(traces),
                "schedules_from_model_behaviours": len(model),
                "model_behaviours_reproduced_exactly": len(model) - ndrift,
                "random_schedules": len(rand),
                "distinct_event_shapes": len(shapes),
                "samples": [{"schedule": scheds[0], "events": traces[0][:14]}, {"schedule": scheds[-1], "events": traces[-1][:14]}],
                "exhaustive": True,
                "checker_cmd": "tlc TokenLayer.tla (exhaustive + -simulate); tlc TokenTrace.tla on recorded traces",
            }
        )
        from checks import e2e
        e2e.run_phase(rep, args, {"E2E_ResponseMatchesRequest", "E2E_CompletesOnce", "E2E_CompletesUnderBoundedLoss",
                                  "E2E_ErrorsAreLibraryErrors", "E2E_DoneUnknown", "E2E_NoLoopException"})
        rep.assumptions += [
            "virtual-time event loop and fake UDP socket stand in for the OS",
            "requests to multicast addresses and observations are outside this check (C07/C10)",
            "a CON that was acknowledged, and a NON, may wait for their response indefinitely (no request timeout in CoAP); AllComplete is demanded only where the schedule decided the request's fate",
        ]


if __name__ == "__main__":
    sys.exit(runner.main("C02", work))
