"""C14 -- NSTART=1: one open confirmable exchange per peer, FIFO backlog, none forgotten."""
import sys
from harness import runner
from checks import msgclient

def work(rep, args):
    msgclient.check(rep, args, "C14_", "c14")

if __name__ == "__main__":
    sys.exit(runner.main("C14", work))
