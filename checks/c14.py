"""C14 -- NSTART=1: one open confirmable exchange per peer, FIFO backlog, none forgotten.

Phase 1 (checks/msgclient.py): MsgClient.tla exhaustively + behaviours replayed + traces validated
for client requests.  Phase 2 (here): the same promise for every confirmable message -- requests and
server-side separate responses share MessageManager's per-remote backlog -- on recorded executions
of a context that serves slow handlers and sends requests at the same time; TLC evaluates the
clauses of spec/NstartObs.tla on every trace (spec/NstartTrace.tla)."""
import json
import random
import sys

from harness import runner, tlc, tracecheck, MachineryError
from harness.drive import run_all
from checks import msgclient

EAD = 128
NEVER = 100000000  # GiveUp for schedules in which every exchange is acknowledged in time


def mixed_schedule(rng):
    nrem = rng.choice([1, 2])
    steps = []
    handlers = {}
    triggers = []
    t = 0
    hn = 0
    q = 0
    lastq = {}  # remote -> latest request submitted to it
    # role reversal with colliding tokens: the peer's token space is its own, so a request of the peer may
    # carry the very token of a request this endpoint has outstanding (or holds back) towards that peer
    collide = rng.random() < 0.35
    for i in range(rng.randint(2, 7)):
        r = rng.randint(1, nrem)
        t += rng.choice([0, 1, 10, 200, 900])
        if collide and r in lastq and rng.random() < 0.6:
            hn += 1
            handlers[str(hn)] = {"delay": rng.choice([0, 0, EAD + 1, 300]), "outcome": "ok", "len": 8}
            steps.append({"at": t, "do": "rx", "r": r, "ty": rng.choice(["CON", "NON"]), "code": 1,
                          "mid": 20000 + i, "tok": {"of": lastq[r]}, "path": ["h", str(hn)]})
        elif rng.random() < (0.4 if collide else 0.65):
            hn += 1
            con = rng.random() < 0.75
            # slow handlers: the response is a separate message subject to the backlog
            handlers[str(hn)] = {"delay": rng.choice([EAD + 1, 200, 300, 300, 500, 1500]) if rng.random() < 0.85 else 0,
                                 "outcome": "ok", "len": 8}
            steps.append({"at": t, "do": "rx", "r": r, "ty": "CON" if con else "NON", "code": 1,
                          "mid": 20000 + i, "tok": "%02x%02x" % (0xD0 + r, i), "path": ["h", str(hn)]})
        else:
            q += 1
            con = rng.random() < 0.7
            steps.append({"at": t, "do": "submit", "q": q, "r": r, "con": con, "f": rng.choice([0.0, 0.5, 1.0])})
            lastq[r] = q
            d = rng.choice([1, 40, 700, 1900])
            if con:
                triggers.append({"on": {"q": q, "copy": 1}, "delay": d, "rx": {"r": r, "ty": "ACK", "code": 0, "mid": {"of": q}}})
            triggers.append({"on": {"q": q, "copy": 1}, "delay": d + rng.choice([1, 300]),
                             "rx": {"r": r, "ty": "NON", "code": 69, "mid": 30000 + q, "tok": {"of": q}}})
    lossy = rng.random() < 0.4
    if lossy:
        # the peer may also reset a separate CON response or never acknowledge it: with ACK_RANDOM_FACTOR = 1 and
        # MAX_RETRANSMIT = 1 the exchange is given up exactly 3 x ACK_TIMEOUT after its first transmission, what is
        # held back behind it is dropped and the requests among it fail
        for tr in triggers:
            if tr["rx"]["ty"] == "ACK" and rng.random() < 0.3:
                tr["rx"]["ty"] = "RST" if rng.random() < 0.5 else "ACK"
                if rng.random() < 0.5:
                    tr["rx"]["mid"] = 1  # never matches: the request's acknowledgement is lost
        for nth in range(1, 12):
            fate = rng.choice(["ack", "ack", "rst", "never"])
            if fate != "never":
                triggers.append({"on": {"tx": {"ty": "CON", "cls": "resp", "nth": nth}}, "delay": rng.choice([1, 5, 100, 800, 1900, 2500, 5000]),
                                 "rx": {"ty": "ACK" if fate == "ack" else "RST", "code": 0, "mid": "same"}})
        tuning = {"EMPTY_ACK_DELAY": 0.125, "ACK_TIMEOUT": 2.0, "ACK_RANDOM_FACTOR": 1.0, "MAX_RETRANSMIT": 1}
    else:
        # the peer acknowledges every separate CON response, sooner or later (always before the first retransmission)
        for nth in range(1, 12):
            triggers.append({"on": {"tx": {"ty": "CON", "cls": "resp", "nth": nth}}, "delay": rng.choice([1, 5, 100, 800, 1900]),
                             "rx": {"ty": "ACK", "code": 0, "mid": "same"}})
        tuning = {"EMPTY_ACK_DELAY": 0.125}
    return {"tuning": tuning, "giveup": 3 * 2048 if lossy else NEVER, "mid0": rng.randint(0, 65535), "tok0": rng.randint(0, 60000),
            "nremotes": 3, "handlers": handlers, "steps": steps, "triggers": triggers, "horizon": 60 * 1024}


def sig_of(clause, events):
    kinds = []
    for e in events:
        if e["k"] == "submit":
            kinds.append("q")
        elif e["k"] == "rx" and e["cls"] == "req":
            kinds.append("s" + e["ty"][0])
    return "%s|mixed:%s" % (clause, "".join(kinds)[:14])


def phase2(rep, args):
    quick = args.tier == "quick"
    rng = random.Random(args.seed * 613 + 1414)
    scheds = [mixed_schedule(rng) for _ in range(400 if quick else 5000)]
    results = run_all(scheds)
    for s, res in zip(scheds, results):
        if "error" in res:
            raise MachineryError("driver failed on schedule %s\n%s" % (json.dumps(s)[:400], res["error"]))
    traces = [r["events"] for r in results]
    queued = 0
    verdicts = [None] * len(traces)
    with tlc.Workdir() as wd:
        for gu in sorted({s["giveup"] for s in scheds}):
            idxs = [i for i, s in enumerate(scheds) if s["giveup"] == gu]
            vs, r = tracecheck.validate(wd, "NstartTrace", "NstartTrace.cfg.tmpl", {"GiveUp": gu}, [traces[i] for i in idxs])
            for i, v in zip(idxs, vs):
                verdicts[i] = v
    gaveup = 0
    for i, v in enumerate(verdicts):
        if scheds[i]["giveup"] != NEVER and any(e["k"] == "done" and e["cls"] == "timeout" for e in traces[i]):
            gaveup += 1
        # a separate CON response that had to wait for an earlier exchange
        first = {}
        for e in traces[i]:
            if e["k"] == "release":
                first[e["inv"]] = e["t"]
        if any(e["k"] == "tx" and e["ty"] == "CON" and e["cls"] == "resp" for e in traces[i]):
            queued += 1
        for clause in sorted(v["bad"]):
            rep.violation(clause, sig_of(clause, traces[i]),
                          "clause %s false at event %d of a recorded execution with requests and separate responses sharing the backlog (%d events)"
                          % (clause, v["at"][clause], len(traces[i])),
                          {"schedule": scheds[i], "events": traces[i], "meta": results[i]["meta"]})
    rep.coverage["mixed_request_response_traces_validated"] = len(traces)
    rep.coverage["mixed_traces_with_separate_con_responses"] = queued
    rep.coverage["mixed_traces_with_a_request_failed_by_a_given_up_exchange"] = gaveup
    rep.coverage["traces_validated_against_impl"] = rep.coverage.get("traces_validated_against_impl", 0) + len(traces)
    rep.coverage["samples"].append({"schedule": scheds[0], "events": traces[0][:14]})


def work(rep, args):
    msgclient.check(rep, args, "C14_", "c14")
    phase2(rep, args)


if __name__ == "__main__":
    sys.exit(runner.main("C14", work))
