"""C09 -- every request gets exactly one final response reflecting the handler outcome.

TLC checks spec/Render.tla (the statement's table Expected(method, outcome),
requests in flight concurrently, handlers completing in any order) exhaustively;
simulated behaviours are replayed on a real server context (real Site,
Resource.render, error_to_message, run_driving_pipe) over the fake network and
compared; recorded traces of those and of randomised schedules over every
method x outcome x CON/NON with failing neighbours and slow completion after the
empty ACK are validated by TLC against RenderTrace.tla."""

import json
import os
import random
import sys

from harness import tlc, tracecheck, MachineryError, runner
from harness.drive import run_all

RENDERABLE = ["BadRequest", "Unauthorized", "BadOption", "Forbidden", "NotFound", "MethodNotAllowed", "NotAcceptable",
              "RequestEntityIncomplete", "Conflict", "PreconditionFailed", "RequestEntityTooLarge",
              "UnsupportedContentFormat", "UnprocessableEntity", "TooManyRequests", "InternalServerError",
              "NotImplemented", "BadGateway", "ServiceUnavailable", "GatewayTimeout", "ProxyingNotSupported",
              "HopLimitReached"]
BARE = ["raise:py:KeyError", "raise:py:AssertionError", "raise:py:ValueError", "raise:py:RuntimeError",
        "raise:py:Exception", "ret:none", "ret:str", "ret:bytes", "ret:int", "badrender",
            "unencodable:payload", "unencodable:option", "badrender:none", "badrender:nonmessage",
            "raise:lib:ResponseWrappingError", "raise:lib:NetworkError", "raise:lib:LibraryShutdown",
            "raise:lib:OSError", "raise:lib:TimeoutError", "raise:lib:ConnectionResetError"]
OUTCOMES = ["ok", "nocode"] + ["raise:" + n for n in RENDERABLE] + BARE
NAMES = {1: "GET", 2: "POST", 3: "PUT", 4: "DELETE", 5: "FETCH", 6: "PATCH", 7: "IPATCH"}

CFG = """SPECIFICATION Spec
CONSTANTS
  N = %(n)d
  Methods = {1, 2, 3, 4, 5, 6, 7}
  Outcomes = {%(outcomes)s}
  Kinds = {"", "nopath", "unimpl"}
%(extra)s
"""


def tla_set(xs):
    return ", ".join('"%s"' % x for x in xs)


def behaviour_to_schedule(beh):
    last = beh[-1][1]
    rq = last["rq"]
    rq = rq if isinstance(rq, list) else [rq[k] for k in sorted(rq)]
    handlers = {}
    steps = []
    expected = []
    t = 0
    for i, r in enumerate(rq, 1):
        if r["kind"] == "":
            handlers[str(i)] = {"delay": None, "len": 8}
        elif r["kind"] == "unimpl":
            handlers[str(i)] = {"delay": None, "methods": [m for c, m in NAMES.items() if c != r["method"]]}
    for label, st in beh[1:]:
        emit = st.get("emit", [])
        if not emit:
            continue
        e0 = emit[0]
        t += 300  # beyond EMPTY_ACK_DELAY: completions after the empty ACK as well
        i = e0["inv"]
        if e0["k"] == "rx":
            r = rq[i - 1]
            path = ["h", str(i)] if r["kind"] != "nopath" else ["nothere", str(i)]
            steps.append({"at": t, "do": "rx", "r": 1, "ty": "CON" if r["con"] else "NON", "code": r["method"],
                          "mid": 700 + i, "tok": "d%d" % i, "path": path})
        elif e0["k"] == "release":
            steps.append({"at": t, "do": "release", "h": i, "outcome": rq[i - 1]["outcome"]})
        for e in emit:
            if e["k"] == "tx":
                expected.append(("tx", e["tok"], e["code"]))
            elif e["k"] == "call":
                expected.append(("call", e["tok"], 0))
    trig = [{"on": {"tx": {"ty": "CON", "cls": "resp", "nth": n}}, "delay": 3, "rx": {"ty": "ACK", "code": 0, "mid": "same"}} for n in range(1, 5)]
    return {"tuning": {"EMPTY_ACK_DELAY": 0.125}, "mid0": 50, "tok0": 9, "nremotes": 2, "handlers": handlers,
            "steps": steps, "triggers": trig, "horizon": 4000}, expected


def compare(expected, real):
    got = []
    seen = set()
    for e in real:
        if e["k"] == "tx" and e["cls"] == "resp":
            key = (e["mid"], e["dig"])
            if key in seen:
                continue
            seen.add(key)
            got.append(("tx", e["tok"], e["code"]))
        elif e["k"] == "call":
            got.append(("call", e["tok"], 0))
    if sorted(got) != sorted(expected):
        return "model predicts %s, implementation produced %s" % (sorted(expected), sorted(got))
    return None


def random_schedule(rng):
    n = rng.choice([1, 1, 2, 3, 4])
    handlers = {}
    steps = []
    nosite = rng.random() < 0.05
    t = 0
    long_run = False
    for i in range(1, n + 1):
        method = rng.choice([1, 2, 3, 4, 5, 6, 7])
        outcome = rng.choice(OUTCOMES)
        kind = rng.choices(["", "nopath", "unimpl"], weights=[8, 1, 1])[0]
        if rng.random() < 0.06:
            # request codes no method is assigned to reach the server all the same: no resource implements them
            method = rng.choice([8, 9, 30, 31])
            kind = rng.choice(["unimpl", "unimpl", "nopath"])
        delay = rng.choice([0, 0, 20, 127, 129, 400, 1500])
        if rng.random() < 0.04:
            delay = rng.choice([100 * 1024, 250 * 1024, 300 * 1024])   # slower than MAX_TRANSMIT_WAIT / EXCHANGE_LIFETIME
            long_run = True
        plan = {"delay": delay, "outcome": outcome, "len": rng.choice([0, 8, 60])}
        if kind == "unimpl":
            plan["methods"] = [m for c, m in NAMES.items() if c != method]
        if kind != "nopath":
            handlers[str(i)] = plan
        t += rng.choice([0, 0, 1, 50, 200, 1000])
        steps.append({"at": t, "do": "rx", "r": rng.choice([1, 2]), "ty": rng.choice(["CON", "NON"]), "code": method,
                      "mid": 900 + i, "tok": "e%d" % i, "path": ["h", str(i)] if kind != "nopath" else ["x", "y", str(i)]})
    # the peer's ACK for a separate CON response may be late, so that the response is retransmitted while
    # other requests are being answered; it always comes eventually (a peer that never acknowledges makes
    # the message layer drop what is queued behind the exchange -- C14's subject, outside C09's quantifier)
    trig = [{"on": {"tx": {"ty": "CON", "cls": "resp", "nth": k}}, "delay": rng.choice([1, 4, 900, 2600, 7000]),
             "rx": {"ty": "ACK", "code": 0, "mid": "same"}} for k in range(1, 8)]
    return {"tuning": {"EMPTY_ACK_DELAY": 0.125}, "mid0": rng.randint(0, 65535), "tok0": 3, "nremotes": 2,
            "handlers": handlers, "nosite": nosite, "steps": steps, "triggers": trig, "horizon": (700 if long_run else 120) * 1024}


def systematic():
    """every method x every outcome x CON/NON, alone, fast and slow"""
    out = []
    for method in NAMES:
        for oc in OUTCOMES:
            for ty in ("CON", "NON"):
                for delay in (0, 300):
                    out.append({"tuning": {"EMPTY_ACK_DELAY": 0.125}, "mid0": 7, "tok0": 3, "nremotes": 1,
                                "handlers": {"1": {"delay": delay, "outcome": oc, "len": 8}},
                                "steps": [{"at": 10, "do": "rx", "r": 1, "ty": ty, "code": method, "mid": 77, "tok": "ab", "path": ["h", "1"]}],
                                "triggers": [{"on": {"tx": {"ty": "CON", "cls": "resp", "nth": 1}}, "delay": 2, "rx": {"ty": "ACK", "code": 0, "mid": "same"}}],
                                "horizon": 4000})
    # request codes without an assigned method, and handlers slower than the protocol's lifetimes
    for method in (8, 19, 31):
        for ty in ("CON", "NON"):
            out.append({"tuning": {"EMPTY_ACK_DELAY": 0.125}, "mid0": 7, "tok0": 3, "nremotes": 1,
                        "handlers": {"1": {"delay": 0, "outcome": "ok", "len": 8, "methods": list(NAMES.values())}},
                        "steps": [{"at": 10, "do": "rx", "r": 1, "ty": ty, "code": method, "mid": 77, "tok": "ab", "path": ["h", "1"]}],
                        "triggers": [], "horizon": 4000})
    for delay in (100 * 1024, 250 * 1024, 4000 * 1024):
        for ty in ("CON", "NON"):
            out.append({"tuning": {"EMPTY_ACK_DELAY": 0.125}, "mid0": 7, "tok0": 3, "nremotes": 1,
                        "handlers": {"1": {"delay": delay, "outcome": "nocode", "len": 8}},
                        "steps": [{"at": 10, "do": "rx", "r": 1, "ty": ty, "code": 3, "mid": 77, "tok": "ab", "path": ["h", "1"]}],
                        "triggers": [{"on": {"tx": {"ty": "CON", "cls": "resp", "nth": 1}}, "delay": 2, "rx": {"ty": "ACK", "code": 0, "mid": "same"}}],
                        "horizon": delay + 20 * 1024})
    # every outcome once more as the *second* separate response to one peer, produced while the first one is
    # still awaiting its (late) acknowledgement: the response is held back by NSTART=1 and goes out later
    for oc in OUTCOMES:
        out.append({"tuning": {"EMPTY_ACK_DELAY": 0.125}, "mid0": 7, "tok0": 3, "nremotes": 1,
                    "handlers": {"1": {"delay": 300, "outcome": "ok", "len": 8}, "2": {"delay": 600, "outcome": oc, "len": 8}},
                    "steps": [{"at": 10, "do": "rx", "r": 1, "ty": "CON", "code": 1, "mid": 77, "tok": "ab", "path": ["h", "1"]},
                              {"at": 20, "do": "rx", "r": 1, "ty": "CON", "code": 1, "mid": 78, "tok": "ac", "path": ["h", "2"]}],
                    "triggers": [{"on": {"tx": {"ty": "CON", "cls": "resp", "nth": 1}}, "delay": 2600, "rx": {"ty": "ACK", "code": 0, "mid": "same"}},
                                 {"on": {"tx": {"ty": "CON", "cls": "resp", "nth": 2}}, "delay": 2, "rx": {"ty": "ACK", "code": 0, "mid": "same"}},
                                 {"on": {"tx": {"ty": "CON", "cls": "resp", "nth": 3}}, "delay": 2, "rx": {"ty": "ACK", "code": 0, "mid": "same"}}],
                    "horizon": 12000})
    return out


def sig_of(clause, sched, events):
    outs = sorted({e["x"] for e in events if e["k"] == "release"})
    meth = sorted({e["code"] for e in events if e["k"] == "rx" and e["cls"] == "req"})
    return "%s|methods=%s|outcomes=%s%s" % (clause, meth[:3], outs[:3], "|nosite" if sched.get("nosite") else "")


def work(rep, args):
    quick = args.tier == "quick"
    rng = random.Random(args.seed * 9973 + 9)
    mc_out = ["ok", "nocode", "raise:NotFound", "raise:BadRequest", "raise:py:KeyError", "ret:none", "ret:str", "badrender"]
    with tlc.Workdir() as wd:
        wd.write("Render_run.cfg", CFG % dict(n=2 if quick else 2, outcomes=tla_set(mc_out if quick else OUTCOMES[:14]), extra="VIEW View\nINVARIANT NoBad\nINVARIANT Isolation"))
        mc = tlc.run(wd, "Render.tla", "Render_run.cfg", timeout=1500)
        tlc.need_ok_run(mc, "Render model check")
        if mc.violated:
            raise MachineryError("Render model violates %s" % mc.violated)
        wd.write("Render_sim.cfg", CFG % dict(n=3, outcomes=tla_set(OUTCOMES), extra=""))
        simdir = wd.file("sim")
        os.makedirs(simdir)
        nsim = 200 if quick else 2000
        sim = tlc.run(wd, "Render.tla", "Render_sim.cfg", workers=1, timeout=900,
                      simulate="file=%s/tr,num=%d" % (simdir, nsim), depth=10, seed=args.seed + 1)
        tlc.need_ok_run(sim, "Render simulation")
        behaviours = tlc.read_sim_traces(os.path.join(simdir, "tr"))
        model = [behaviour_to_schedule(b) for b in behaviours]
        syst = systematic()
        if quick:
            syst = rng.sample(syst, 300)
        rand = [random_schedule(rng) for _ in range(300 if quick else 5000)]
        scheds = [s for s, _ in model] + syst + rand
        results = run_all(scheds)
        for s, res in zip(scheds, results):
            if "error" in res:
                raise MachineryError("driver failed on schedule %s\n%s" % (json.dumps(s)[:400], res["error"]))
        ndrift = 0
        for (s, exp), res in zip(model, results):
            d = compare(exp, res["events"])
            if d:
                ndrift += 1
                rep.add_drift("model behaviour not reproduced by implementation: " + d)
        traces = [r["events"] for r in results]
        verdicts, r = tracecheck.validate(wd, "RenderTrace", "RenderTrace.cfg.tmpl", {}, traces)
        combos = set()
        for i, v in enumerate(verdicts):
            for e in traces[i]:
                if e["k"] == "release":
                    combos.add(e["x"])
            for clause in sorted(v["bad"]):
                rep.violation(
                    clause,
                    sig_of(clause, scheds[i], traces[i]),
                    "clause %s false at event %d of a recorded execution (%d events); log errors %s"
                    % (clause, v["at"][clause], len(traces[i]), results[i]["meta"]["log_errors"][:1]),
                    {"schedule": scheds[i], "events": traces[i], "meta": results[i]["meta"]},
                )
        rep.coverage.update(
            {
                "states": mc.distinct, "transitions": mc.generated, "depth": mc.depth,
                "traces_validated_against_impl": len(traces),
                "schedules_from_model_behaviours": len(model),
                "model_behaviours_reproduced_exactly": len(model) - ndrift,
                "systematic_method_x_outcome_x_type_x_speed": len(syst),
                "random_concurrent_schedules": len(rand),
                "distinct_outcomes_exercised": len(combos),
                "samples": [{"schedule": scheds[0], "events": traces[0][:12]}, {"schedule": scheds[-1], "events": traces[-1][:12]}],
                "exhaustive": True,
                "checker_cmd": "tlc Render.tla (exhaustive + -simulate); tlc RenderTrace.tla on recorded traces",
            }
        )
        from checks import pipe_phase
        pipe_phase.run_phase(rep, args)
        rep.assumptions += [
            "handler exceptions range over Exception subclasses (a handler raising CancelledError/BaseException is the application cancelling itself)",
            "requests carrying No-Response are judged by C10, not counted here",
            "virtual-time event loop and fake UDP socket stand in for the OS",
        ]


if __name__ == "__main__":
    sys.exit(runner.main("C09", work))
