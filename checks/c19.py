"""C19 -- the file server never touches anything outside its root directory.

spec/FileServer.tla holds (1) a global file-system tree with POSIX path
semantics in which the served root is a proper subtree, (2) the contract
clauses over one request's observation and (3) an implementation-shaped model
of aiocoap/cli/fileserver.py in two variants (Guard = FALSE: filter-then-join
as pinned; Guard = TRUE: additionally refusing an absolute relative part).

1. TLC model-checks both variants against the contract over all request
   histories of length MaxReq (every Uri-Path list over the component
   alphabet x the 7 CoAP request methods x write on/off x conditional-option
   settings, plus absolute, look-alike-sibling and decorated-dot probes).  A counterexample is only a candidate: it is replayed on
   the real FileServer.
2. spec -> code: TLC enumerates every request (FileServerTrace, mode enum);
   each is executed on a real FileServer rooted in a temp tree that mirrors
   the model's tree, with every path-taking call intercepted
   (harness/fileserverdrive.py).  Random histories and random Unicode
   components are added.
3. code -> spec: every observation goes back to TLC (mode judge), which
   computes the contract's verdict about the target, evaluates the clauses on
   the *real* effects, and compares the observation with both model variants.
   Only a clause false on a real observation is a VIOLATION; a mismatch with
   both model variants is DRIFT.
4. Block-wise: TLC's block tables say which files/sizes to walk; the blocks a
   real FileServer returns go back to TLC, which evaluates
   C19_BlockwiseIdentical on them."""

import json
import os
import random
import shutil
import sys
import tempfile
import threading
import time
from multiprocessing import Pool

from harness import tlc, MachineryError, runner

MC_CFG = """SPECIFICATION Spec
CONSTANTS
  MaxLen = %(maxlen)d
  LaterLen = %(laterlen)d
  MaxReq = %(maxreq)d
  Guard = %(guard)s
  BlockLens = %(blocklens)s
  CheckBlocks = %(guard)s
VIEW View
PROPERTY Step_Contained
PROPERTY Step_OutsideIsErrorNoEffect
PROPERTY Step_ReadOnlyNoWrite
INVARIANT Inv_OutsideUntouched
"""

TRACE_CFG = """SPECIFICATION TSpec
CONSTANTS
  MaxLen = %(maxlen)d
  LaterLen = 1
  MaxReq = 1
  Guard = TRUE
  BlockLens = %(blocklens)s
  CheckBlocks = FALSE
"""

# single-worker TLC runs: no need for one GC / JIT thread per core
SMALL_JVM = "-XX:ParallelGCThreads=2 -XX:CICompilerCount=2"

QUICK_LENS = [0, 64, 65 * 16 + 1]
THOROUGH_LENS = [0, 1, 15, 16, 17, 31, 32, 33, 63, 64, 65, 127, 128, 129, 1023, 1024, 1025, 1040, 1041, 1042, 2047, 2048, 2049, 4097]

# must equal FileServer!Methods and the request codes of aiocoap.Code (checked at run time)
METHODS = ["GET", "PUT", "DELETE", "POST", "FETCH", "PATCH", "iPATCH"]
CONDS = ["none", "stale", "any", "match", "inm"]
CONDS_OF = {"GET": ["none", "stale", "match"], "PUT": CONDS, "DELETE": ["none", "stale", "any", "match"], "POST": ["none"], "FETCH": ["none"], "PATCH": ["none"], "iPATCH": ["none"]}


def expand(steps):
    """A request that is to carry the *current* ETag of its target (condition
    "match") is preceded by the GET with which a client learns that ETag; the
    GET is a request of its own (executed, judged and signed as a GET)."""
    out = []
    for s in steps:
        if s["c"] == "match":
            out.append({"m": "GET", "w": s["w"], "c": "stale", "u": s["u"], "x_prep": True})
        out.append(s)
    return out


def tlc_run(*a, **kw):
    """tlc.run, repeated once if the JVM was killed from outside (SIGTERM/SIGKILL
    from a neighbour's clean-up), which is not a result."""
    r = tlc.run(*a, **kw)
    if r.rc in (143, 137, -15, -9) and not r.timed_out:
        r = tlc.run(*a, **kw)
    return r


def tla_set(xs):
    return "{" + ", ".join(str(x) for x in xs) + "}"


# -- signatures ------------------------------------------------------------------
def comp_class(c):
    """c: list of character tokens"""
    if c == []:
        return "empty"
    if c == ["."]:
        return "dot"
    if c == [".", "."]:
        return "dotdot"
    if "U+0000" in c:
        return "nul"
    if "/" in c:
        return "slash"
    return "name"


def shape(u):
    """Normalised shape of a Uri-Path: component classes, runs collapsed; empty
    components that are neither first nor last are dropped (they vanish when
    the components are joined and the path is parsed)."""
    out = []
    for i, c in enumerate(u):
        if c == [] and 0 < i < len(u) - 1:
            continue
        k = comp_class(c) + "+"
        if not out or out[-1] != k:
            out.append(k)
    return ",".join(out) if out else "nopath"


def signature(clause, method, u):
    return "%s|%s|%s" % (clause, method, shape(u))


# -- worker side -------------------------------------------------------------------
_TREE = None


def _init_worker(base):
    global _TREE
    from harness import fileserverdrive

    _TREE = fileserverdrive.Tree(tempfile.mkdtemp(prefix="w-", dir=base))


def _run_history(steps):
    try:
        return _TREE.run_history(steps)
    except Exception:
        import traceback

        return {"error": traceback.format_exc(), "steps": steps}


def _run_block(job):
    try:
        return _TREE.fetch_blockwise(job[0], job[1])
    except Exception:
        import traceback

        return {"error": traceback.format_exc(), "job": job}


# -- case generation (beyond TLC's enumeration) ----------------------------------------
def tok(s):
    from harness.fileserverdrive import tok as t

    return t(s)


STRUCTURAL = [
    "", "", ".", "..", "...", "/", "//", "/a", "a/", "../a", "a/..", "a/../..", "\0", "a\0b", "\0/", "\\", "..\\", "~",
    " ", "%2e%2e", "%2F", "%00", "\uff0e\uff0e", "\uff0f", "\u2215", "\u2024\u2024", "\u202e", "\ufeff", "\u00e9", "e\u0301",
    "\u00c9", "a", "A", "d", "f", "top", "srv", "tmp", "\n", "a\n", "a ", ".a", "a.", "..a", "a..", "d/f", "d/../a",
    "/etc", "etc", "\u00e9/", "\ud7ff", "\U0001f4c1", "\U0010ffff", "x" * 40,
    # names around the root: the look-alike sibling (root name + suffix), truncated / extended names
    "srv2", "srv2", "srv-private", "sr", "srv.", "to", "top2", "../srv2", "../srv2/a",
]  # fmt: skip
# characters that a sanitising / decoding step might remove or translate: every dot component is also
# generated *decorated* with them ("..\0", "\0..", ".\0.", ".\0"), not only the character next to letters
SANITISED = ["\0", " ", "\t", "\n", "\r", "%00", "%2e", "%2E", "\ufeff", "\u202e", "\u200b", "\u00ad", "\\", "\x7f"]
for _c in SANITISED:
    STRUCTURAL += [".." + _c, _c + "..", "." + _c + ".", "." + _c, _c + "."]
RANGES = [
    (0x21, 0x7E), (0x01, 0x1F), (0x7F, 0x9F), (0xA0, 0x24F), (0x370, 0x3FF), (0x590, 0x6FF), (0x300, 0x36F),
    (0x2000, 0x206F), (0x3040, 0x30FF), (0x4E00, 0x4FFF), (0xE000, 0xE0FF), (0xFF00, 0xFFEF), (0x1F300, 0x1F5FF),
    (0xE0000, 0xE007F),
]  # fmt: skip


def random_component(rng):
    r = rng.random()
    if r < 0.45:
        return tok(rng.choice(STRUCTURAL))
    n = rng.randint(1, 8)
    out = []
    for _ in range(n):
        lo, hi = rng.choice(RANGES)
        cp = rng.randint(lo, hi)
        out.append(chr(cp))
    s = "".join(out)
    if rng.random() < 0.2:
        s = rng.choice(["", ".", "..", "a", "d"]) + rng.choice(["/", "\0", ""]) + s
    return tok(s)


def random_unicode_case(rng):
    n = rng.choice([0, 1, 1, 2, 2, 3, 3, 4, 5])
    u = [random_component(rng) for _ in range(n)]
    r = rng.random()
    if r < 0.25 and u:
        u[0] = []
        if rng.random() < 0.5:
            u[1:1] = [["BASE1"], ["BASE2"]] + rng.choice([[], [tok("top")], [tok("top"), tok("srv")]])
    elif r < 0.35:
        u.append([])
    elif r < 0.45:
        u[0:0] = [tok(".."), tok(rng.choice(["srv2", "srv2", "srv", "d", "top"]))]
    m = rng.choice(["GET", "GET", "PUT", "PUT", "DELETE", "DELETE", "POST", "FETCH", "PATCH", "iPATCH"])
    return {"m": m, "w": rng.random() < 0.6, "c": rng.choice(CONDS_OF[m]), "u": u}


HIST_NAMES = ["a", "d", "f", "é", "new", "", "..", "d/f", "x\0", "srv2", "..\0"]


def random_history(rng):
    """2..4 requests biased towards the same few objects, so that later
    requests meet what earlier ones created, replaced or deleted."""
    steps = []
    for _ in range(rng.randint(2, 4)):
        r = rng.random()
        if r < 0.6:
            u = [tok(rng.choice(["a", "é", "new"]))] if rng.random() < 0.6 else [tok("d"), tok(rng.choice(["f", "a", "new"]))]
            if rng.random() < 0.1:
                u.append([])
        elif r < 0.75:
            u = [[]] if rng.random() < 0.5 else [tok("d"), []]
        else:
            u = [tok(rng.choice(HIST_NAMES)) for _ in range(rng.randint(0, 3))]
            if rng.random() < 0.4:
                u = [[], ["BASE1"], ["BASE2"]] + rng.choice([[], [tok("top")], [tok("top"), tok("srv")]]) + u
        m = rng.choice(["GET", "GET", "GET", "PUT", "PUT", "PUT", "DELETE", "DELETE", "DELETE", "POST", "PATCH", "iPATCH"])
        steps.append({"m": m, "w": rng.random() < 0.8, "c": rng.choice(CONDS_OF[m]), "u": u})
    return steps


# -- TLC helpers ------------------------------------------------------------------------
def run_trace_mode(wd, mode, blocklens, infile, outfile, timeout, tag="", maxlen=3):
    cfg = "FileServerTrace_run%s.cfg" % tag
    wd.write(cfg, TRACE_CFG % {"blocklens": tla_set(blocklens), "maxlen": maxlen})
    r = tlc_run(
        wd,
        "FileServerTrace.tla",
        cfg,
        workers=1,
        timeout=timeout,
        env={"C19_MODE": mode, "C19_IN": infile, "C19_OUT": outfile, "JAVA_TOOL_OPTIONS": SMALL_JVM},
        heap="3g",
    )
    tlc.need_ok_run(r, "FileServerTrace (%s)" % mode)
    if r.violated or not os.path.exists(outfile):
        raise MachineryError("FileServerTrace (%s) produced no result\n%s" % (mode, r.out[-3000:]))
    with open(outfile) as f:
        return json.load(f), r


def strip(obs):
    return {k: v for k, v in obs.items() if not k.startswith("x_")}


def _judge_one(wd, histories_obs, block_obs, blocklens, tag, timeout):
    inp = wd.file("judge-in-%s.json" % tag)
    outp = wd.file("judge-out-%s.json" % tag)
    with open(inp, "w") as f:
        json.dump(
            {"cases": [[strip(o) for o in h] for h in histories_obs], "blocks": [strip(b) for b in block_obs]},
            f,
            separators=(",", ":"),
        )
    res, r = run_trace_mode(wd, "judge", blocklens, inp, outp, timeout, tag=tag)
    if len(res["cases"]) != len(histories_obs) or len(res["blocks"]) != len(block_obs):
        raise MachineryError("judge returned %d/%d verdicts for %d/%d inputs" % (len(res["cases"]), len(res["blocks"]), len(histories_obs), len(block_obs)))
    for h, v in zip(histories_obs, res["cases"]):
        if len(h) != len(v):
            raise MachineryError("judge returned %d step verdicts for a history of %d" % (len(v), len(h)))
    return res, r


def judge(wd, histories_obs, block_obs, blocklens, tag, timeout, parts=1):
    """TLC evaluates the contract on every observation; large batches are cut
    into ``parts`` pieces judged by concurrent TLC processes."""
    if parts <= 1 or len(histories_obs) < 4 * parts:
        return _judge_one(wd, histories_obs, block_obs, blocklens, tag, timeout)
    n = len(histories_obs)
    cuts = [n * i // parts for i in range(parts + 1)]
    out = [None] * parts

    def go(i):
        try:
            out[i] = _judge_one(wd, histories_obs[cuts[i] : cuts[i + 1]], block_obs if i == 0 else [], blocklens, "%s%d" % (tag, i), timeout)
        except Exception as e:
            out[i] = e

    ths = [threading.Thread(target=go, args=(i,)) for i in range(parts)]
    for t in ths:
        t.start()
    for t in ths:
        t.join()
    for o in out:
        if isinstance(o, Exception):
            raise o
    res = {"cases": [v for o in out for v in o[0]["cases"]], "blocks": out[0][0]["blocks"]}
    r = max((o[1] for o in out), key=lambda x: x.wall)
    return res, r


def trace_to_history(error_trace):
    """TLC counterexample (list of (label, state)) -> request history"""
    steps = []
    for label, st in error_trace[1:]:
        last = st.get("last")
        if not isinstance(last, dict) or last.get("m") in (None, "none"):
            continue
        steps.append({"m": str(last["m"]), "w": bool(last["w"]), "c": str(last["c"]), "u": [list(c) for c in last["u"]]})
    return steps


def describe(obs, verdict):
    lines = [
        "%s write=%s cond=%s Uri-Path=%r -> %s (%s)" % (obs["m"], obs["w"], obs["c"], obs["x_uri_path"], obs["x_code"], obs["resp"]),
        "contract: target is %s%s" % (verdict["tk"], (" (" + "/" + "/".join("".join(n) for n in verdict["tp"]) + ")") if verdict["tk"] != "invalid" else ""),
        "file-system calls: " + ("; ".join(obs["x_calls"]) or "none"),
        "changed objects: " + (", ".join("/" + "/".join("".join(n) for n in p) for p in obs["chg"]) or "none"),
    ]
    if obs["resp"] == "ok" and obs["x_payload"]:
        lines.append("response payload (hex, first bytes): " + obs["x_payload"])
    return "\n".join(lines)


# -- the check ------------------------------------------------------------------------------
def work(rep, args):
    quick = args.tier == "quick"
    seed = args.seed
    rng = random.Random(seed * 1000003 + 19)
    blocklens = QUICK_LENS if quick else THOROUGH_LENS
    base = tempfile.mkdtemp(prefix="verif-c19-")
    try:
        # the worker processes are forked before any thread exists
        with Pool(1 if args.replay else min(16, os.cpu_count() or 4), initializer=_init_worker, initargs=(base,)) as pool:
            with tlc.Workdir() as wd:
                _work(rep, args, quick, rng, blocklens, base, wd, pool)
    finally:
        shutil.rmtree(base, ignore_errors=True)


def _work(rep, args, quick, rng, blocklens, base, wd, pool):
    t0 = time.time()
    timings = {}
    replay_only = None
    if args.replay:
        with open(args.replay) as f:
            replay_only = json.load(f)["replay"]

    # 1. model check both variants (threads: TLC runs as a subprocess)
    mc = {}

    def run_mc(name, guard, maxlen, laterlen, maxreq):
        cfg = "FileServer_%s.cfg" % name
        wd.write(cfg, MC_CFG % {"maxlen": maxlen, "laterlen": laterlen, "maxreq": maxreq, "guard": "TRUE" if guard else "FALSE", "blocklens": tla_set(blocklens)})
        try:
            # the unguarded variant is expected to fail in the very first state expansion: one worker stops at once
            mc[name] = tlc_run(
                wd,
                "FileServer.tla",
                cfg,
                timeout=900 if quick else 3000,
                workers=None if guard else 1,
                env={"JAVA_TOOL_OPTIONS": "-XX:ParallelGCThreads=4" if guard else SMALL_JVM},
            )
        except Exception as e:  # reported by the main thread
            mc[name] = e

    threads = []
    if replay_only is None:
        # first request of a history: Uri-Paths up to maxlen components; later ones up to laterlen
        maxlen, laterlen, maxreq = (3, 2, 2) if quick else (4, 3, 3)
        # unguarded: expected to fail in the first state expansion; a small request set keeps
        # TLC's reconstruction of the counterexample (which re-enumerates the successors) short
        threads = [
            threading.Thread(target=run_mc, args=("unguarded", False, 1, 1, 1)),
            threading.Thread(target=run_mc, args=("guarded", True, maxlen, laterlen, maxreq)),
        ]
        threads[0].start()

    # 2. TLC enumerates the requests and the block tables
    histories = []  # list of (origin, steps)
    block_jobs = []
    if replay_only is None:
        enum, r_enum = run_trace_mode(wd, "enum", blocklens, "/dev/null", wd.file("enum.json"), 600, maxlen=maxlen)
        timings["enum_s"] = round(r_enum.wall, 1)
        reqs = enum["requests"]
        if len(reqs) < 1000:
            raise MachineryError("enumeration produced only %d requests" % len(reqs))
        # the method domain: the spec's Methods, this module's METHODS and the request codes aiocoap knows must be
        # one and the same set, and every render_<method> handler of FileServer must be inside it -- otherwise a
        # method the server answers would silently fall out of "whatever its method"
        from harness.fileserverdrive import implemented_methods

        codes, handlers = implemented_methods()
        spec_methods = sorted({r["m"] for r in reqs})
        if not (spec_methods == sorted(METHODS) == codes):
            raise MachineryError(
                "method domain mismatch: FileServer!Methods = %s, checks.c19.METHODS = %s, request codes of aiocoap.Code = %s"
                % (spec_methods, sorted(METHODS), codes)
            )
        rep.coverage["methods"] = {"enumerated": spec_methods, "fileserver_handlers": handlers}
        for r in reqs:
            histories.append(("enumerated", expand([r])))
        for b in enum["blocks"]:
            block_jobs.append((b["len"], b["szx"], len(b["tbl"])))
        block_jobs.sort()
        threads[0].join()
        threads[1].start()  # the long run overlaps with the replay
        un = mc["unguarded"]
        if isinstance(un, Exception):
            raise MachineryError("TLC (unguarded variant) failed to run: %r" % un)
        tlc.need_ok_run(un, "FileServer model check, unguarded variant")
        if un.violated:
            h = trace_to_history(un.error_trace)
            if not h:
                raise MachineryError("could not read the counterexample of the unguarded variant\n" + un.out[-3000:])
            histories.append(("counterexample-unguarded", expand(h)))
        nhist = 300 if quick else 20000
        nuni = 1500 if quick else 120000
        for _ in range(nhist):
            histories.append(("random-history", expand(random_history(rng))))
        for _ in range(nuni):
            histories.append(("random-unicode", expand([random_unicode_case(rng)])))
    else:
        histories.append(("replay", replay_only["history"]))  # as executed (preparatory GETs included)

    # 3. replay on the real FileServer
    t1 = time.time()
    results = pool.map(_run_history, [h for _, h in histories], chunksize=max(1, min(200, len(histories) // 64 or 1)))
    blocks = pool.map(_run_block, block_jobs, chunksize=1) if block_jobs else []
    timings["replay_s"] = round(time.time() - t1, 1)
    for res in list(results) + list(blocks):
        if isinstance(res, dict) and "error" in res:
            raise MachineryError("driver failed: %s\n%s" % (json.dumps(res.get("steps", res.get("job")))[:300], res["error"]))

    # 4. TLC judges every observation
    verdicts, r_judge = judge(wd, results, blocks, blocklens, "main", 600 if quick else 2400, parts=4 if quick else 8)
    timings["judge_s"] = round(r_judge.wall, 1)

    seen_sig = set()
    counters = {
        "target_inside": 0,
        "target_outside": 0,
        "target_invalid": 0,
        "write_disabled": 0,
        "steps_with_object_effects": 0,
        "steps_modifying": 0,
        "responses_ok": 0,
        "responses_err": 0,
        "violating_steps": 0,
        "sandbox_blocked_steps": 0,
        "not_comparable_steps": 0,
    }
    match = {"guarded_only": 0, "unguarded_only": 0, "both": 0, "neither": 0}
    per_origin = {}
    classes = set()
    drift_groups = {}
    cex_reproduced = None
    for (origin, hist), obs_list, vlist in zip(histories, results, verdicts["cases"]):
        per_origin[origin] = per_origin.get(origin, 0) + 1
        for i, (obs, v) in enumerate(zip(obs_list, vlist)):
            counters["target_" + v["tk"]] += 1
            counters["write_disabled"] += 0 if obs["w"] else 1
            kinds = sorted({e["k"] for e in obs["eff"] if e["k"] != "probe"})
            counters["steps_with_object_effects"] += 1 if kinds else 0
            counters["steps_modifying"] += 1 if (obs["chg"] or set(kinds) & {"create", "replace", "delete"}) else 0
            counters["responses_" + ("ok" if obs["resp"] == "ok" else "err")] += 1
            classes.add((obs["m"], shape(obs["u"]), obs["resp"], tuple(kinds), v["tk"]))
            blocked = any("[blocked]" in c for c in obs["x_calls"])
            counters["sandbox_blocked_steps"] += 1 if blocked else 0
            if v["mu"] and v["mg"]:
                match["both"] += 1
            elif v["mg"]:
                match["guarded_only"] += 1
            elif v["mu"]:
                match["unguarded_only"] += 1
            elif blocked or obs["x_host"]:
                # the sandbox changed the course of the request, or it touched an object of the
                # host's file system that the model's tree does not contain: not comparable
                counters["not_comparable_steps"] += 1
            else:
                match["neither"] += 1
                key = (obs["m"], shape(obs["u"]), obs["c"])
                g = drift_groups.setdefault(key, [0, None])
                g[0] += 1
                if g[1] is None:
                    g[1] = "observed %s %s, effects %s; model predicts %s" % (
                        obs["x_uri_path"],
                        obs["resp"],
                        [(e["k"], "/" + "/".join("".join(n) for n in e["p"])) for e in obs["neff"]],
                        [(p["v"], p["resp"], sorted((e["k"], "/" + "/".join("".join(n) for n in e["p"])) for e in p["eff"])) for p in v["pred"]],
                    )
            if v["bad"]:
                counters["violating_steps"] += 1
                if origin == "counterexample-unguarded" and i == len(obs_list) - 1:
                    cex_reproduced = True
                for clause in sorted(v["bad"]):
                    sig = signature(clause, obs["m"], obs["u"])
                    if sig in seen_sig:
                        continue
                    seen_sig.add(sig)
                    rep.violation(
                        clause,
                        sig,
                        "clause %s is false on a real execution (%s, step %d of %d)\n%s"
                        % (clause, origin, i + 1, len(obs_list), describe(obs, v)),
                        {"history": hist[: i + 1], "observations": obs_list[: i + 1], "verdict": v},
                    )
        if origin == "counterexample-unguarded" and cex_reproduced is None:
            cex_reproduced = False

    # block-wise
    nblocks_fetched = 0
    for job, b, okv in zip(block_jobs, blocks, verdicts["blocks"]):
        nblocks_fetched += len(b["blocks"])
        kind = "empty" if job[0] == 0 else ("one" if job[2] == 1 else "many")
        if b["x_outside"]:
            sig = "C19_Contained|GET|blockwise"
            if sig not in seen_sig:
                seen_sig.add(sig)
                rep.violation("C19_Contained", sig, "block-wise GET touched %s" % b["x_outside"][:3], {"block_job": job})
        if not okv:
            sig = "C19_BlockwiseIdentical|GET|blocks=%s" % kind
            if sig in seen_sig:
                continue
            seen_sig.add(sig)
            got = [(x["n"], x["ok"], x["more"], len(x["payload"])) for x in b["blocks"]]
            rep.violation(
                "C19_BlockwiseIdentical",
                sig,
                "file of %d bytes fetched block by block with szx=%d (block size %d) differs from its content / block table: "
                "got (n, ok, more, len) = %s, expected %d blocks" % (job[0], job[1], 1 << (job[1] + 4), got[:8], job[2]),
                {"block_job": job, "blocks": b["blocks"][:8]},
            )

    for key, (cnt, example) in sorted(drift_groups.items(), key=lambda kv: -kv[1][0])[:12]:
        rep.add_drift("%d request(s) %s shape=%s cond=%s match neither model variant; e.g. %s" % (cnt, key[0], key[1], key[2], example))
    if len(drift_groups) > 12:
        rep.add_drift("... %d more groups of requests that match neither model variant" % (len(drift_groups) - 12))

    # 5. the model-checking results
    if replay_only is None:
        threads[1].join()
        g = mc["guarded"]
        if isinstance(g, Exception):
            raise MachineryError("TLC (guarded variant) failed to run: %r" % g)
        tlc.need_ok_run(g, "FileServer model check, guarded variant")
        un = mc["unguarded"]
        if g.violated:
            # the design alternative that is meant to satisfy the contract does not: replay before believing it
            h = trace_to_history(g.error_trace)
            h = expand(h)
            obs = _one_history(base, h)
            vv, _ = judge(wd, [obs], [], blocklens, "cex", 300)
            if vv["cases"][0] and vv["cases"][0][-1]["bad"]:
                o, v = obs[-1], vv["cases"][0][-1]
                for clause in sorted(v["bad"]):
                    sig = signature(clause, o["m"], o["u"])
                    if sig not in seen_sig:
                        seen_sig.add(sig)
                        rep.violation(clause, sig, "counterexample of the guarded model reproduced\n" + describe(o, v), {"history": h})
            else:
                raise MachineryError(
                    "the guarded model violates %s but the counterexample %s does not reproduce on the implementation" % (g.violated, json.dumps(h)[:400])
                )
        if un.violated:
            rep.notes.append(
                "model check of the unguarded variant (filter-then-join) reports %s; counterexample %s %s on the real FileServer"
                % (
                    un.violated,
                    json.dumps([dict(s, u=["".join(c) for c in s["u"]]) for s in trace_to_history(un.error_trace)]),
                    "REPRODUCED" if cex_reproduced else "did not reproduce (the implementation behaves like the guarded variant)",
                )
            )
        timings["mc_guarded_s"] = round(g.wall, 1)
        timings["mc_unguarded_s"] = round(un.wall, 1)
        rep.coverage.update(
            {
                "states": g.distinct,
                "transitions": g.generated,
                "depth": g.depth,
                "mc_constants": {"MaxLen": maxlen, "LaterLen": laterlen, "MaxReq": maxreq, "alphabet": 9, "requests": len(reqs), "unguarded_run": {"MaxLen": 1, "MaxReq": 1}},
                "mc_guarded": g.summary(),
                "mc_unguarded": dict(un.summary(), counterexample_reproduced_on_impl=cex_reproduced),
                "exhaustive": True,
            }
        )
    nsteps = sum(len(o) for o in results)
    samples = []
    for want in ("enumerated", "random-history", "random-unicode", "counterexample-unguarded", "replay"):
        for (origin, hist), obs_list, vlist in zip(histories, results, verdicts["cases"]):
            if origin == want and (want != "enumerated" or (obs_list[0]["eff"] and obs_list[0]["m"] == "PUT" and obs_list[0]["resp"] == "ok")):
                samples.append(
                    {
                        "origin": origin,
                        "steps": [
                            {
                                "request": "%s w=%s c=%s %r" % (o["m"], o["w"], o["c"], o["x_uri_path"]),
                                "response": o["x_code"],
                                "calls": o["x_calls"][:8],
                                "target": v["tk"],
                                "clauses_false": sorted(v["bad"]),
                            }
                            for o, v in zip(obs_list, vlist)
                        ],
                    }
                )
                break
    rep.coverage.update(
        {
            "traces_validated_against_impl": len(histories) + len(blocks),
            "requests_replayed": nsteps,
            "cases_by_origin": per_origin,
            "blockwise_walks": len(blocks),
            "blockwise_blocks_fetched": nblocks_fetched,
            "blockwise_lengths": blocklens,
            "evaluations": nsteps + len(blocks),
            "distinct_nontrivial": len(classes),
            "clause_antecedents": counters,
            "impl_matches_model_variant": match,
            "violating_signatures": sorted(seen_sig),
            "timings": timings,
            "samples": samples,
            "checker_cmd": "tlc FileServer.tla (Guard=TRUE and Guard=FALSE, VIEW + action properties); tlc FileServerTrace.tla (enum, judge)",
        }
    )
    rep.assumptions += [
        "the served tree contains no symbolic links (lexical and physical '..' agree); mount points and hard links are not modelled",
        "file-system effects are what passes the intercepted os/io names (os.stat lstat open listdir scandir rename replace unlink remove rmdir mkdir link symlink truncate chmod chown utime readlink access, io.open/builtins.open) plus a before/after comparison of the whole temp tree incl. sentinel files outside the root; calls made through other routes (file descriptors, subprocesses) are invisible to the interception but not to the tree comparison",
        "modifying calls that would succeed outside the temp tree are blocked by the harness sandbox (recorded as attempted effects and judged as effects)",
        "requests are handed to FileServer.render_to_pipe as Message objects through aiocoap's own Pipe/error_to_message plumbing (no UDP, no serialisation)",
        "exhaustive for Uri-Path lists of length <= 3 (thorough 4) over the 9-component alphabet plus absolute, sibling and decorated-dot probes, histories of length MaxReq in the model; real replays start from the pristine tree (plus seeded random histories)",
        "Observe registrations (add_observation / check_files_for_refreshes) and the .well-known/core special case are not exercised",
    ]


def _one_history(base, h):
    from harness import fileserverdrive

    t = fileserverdrive.Tree(tempfile.mkdtemp(prefix="m-", dir=base))
    try:
        return t.run_history(h)
    finally:
        t.close()


if __name__ == "__main__":
    sys.exit(runner.main("C19", work))
