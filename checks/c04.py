"""C04 -- duplicate requests are executed at most once and re-answered identically.

Phase 1 (checks/msgserver.py): MsgServer.tla exhaustively, behaviours replayed, traces validated.
Phase 2 (checks/e2e.py): the same promise end to end -- a real aiocoap client retransmitting through a
lossy / duplicating network to a real aiocoap server: the handler runs at most once however many copies
arrive, and copies are bounded (spec/EndToEnd.tla, clauses of EndToEndObs on recorded traces)."""
import sys
from harness import runner
from checks import msgserver, e2e


def work(rep, args):
    msgserver.check(rep, args, "C04_", "c04")
    e2e.run_phase(rep, args, {"E2E_AtMostOnceExecution", "E2E_CallWithoutRequest", "E2E_CopiesBounded"})


if __name__ == "__main__":
    sys.exit(runner.main("C04", work))
