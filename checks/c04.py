import sys
from harness import runner
from checks import msgserver

def work(rep, args):
    msgserver.check(rep, args, "C04_", "c04")

if __name__ == "__main__":
    sys.exit(runner.main("C04", work))
