"""C06 -- block-wise server: handlers see only complete bodies, blocks are exact slices.

TLC checks spec/BlockServer.tla (Block1Spool, Block2Cache and the exact
TimeoutDict bookkeeping, adversarial client) exhaustively; its behaviours are
replayed against real resources behind a real server context (raw-datagram
client of the harness) and compared; recorded traces of those and of
randomised real-parameter sequences (in order, restarted, repeated, skipped,
wrong sizes, last block first, several endpoints / methods / cache keys, idle
times around T and 2T with T = MAX_TRANSMIT_WAIT) are validated by TLC against
BlockServerTrace.tla.

Second part (harness/blockserverdrive.py): combined Block1 + Block2 transfers (an upload whose response is larger
than a block; follow-ups bare, with payload, repeating a Block1 option; restarts; second clients), FETCH / POST / PUT
with payload-bearing block-0 requests and follow-ups (each method its own state), size exponents changing in
mid-transfer, the reserved exponent 7, lifetimes of the rendering of a completed upload.  The model has one request
action that goes through spool and cache like Resource._render_to_pipe; `Mode' selects the alphabet of one
exhaustive run."""

import json
import os
import random
import sys

from harness import tlc, tracecheck, MachineryError, runner
from harness.drive import run_all, key_salt
from harness import blockserverdrive as bsd

CFG = """SPECIFICATION Spec
CONSTANTS
  T = 2
  NRemotes = %(nrem)d
  MaxNum = %(maxnum)d
  MaxEnv = %(maxenv)d
  MaxTime = %(maxtime)d
  Lens = {10, 40}
  Mode = "%(mode)s"
  FixGap = TRUE
  FixStale = TRUE
%(extra)s
"""

T_REAL = 93 * 1024


behaviour_to_schedule = bsd.behaviour_to_schedule
compare = bsd.compare


def oscillation_schedule(rng):
    """One cache key whose rendering oscillates between needing and not needing a block-wise transfer,
    with a later-block request placed around T after the FIRST rendering but well within T of the
    latest one (it must be served): exercises the interplay of Block2Cache's discard with the
    TimeoutDict timers."""
    big = rng.choice([40, 100, 1500])
    small = rng.choice([0, 5, 16])
    szx = rng.choice([0, 1])
    d1 = rng.choice([50, 1000, T_REAL // 2])
    d2 = d1 + rng.choice([50, 1000, T_REAL // 3])
    later = T_REAL + rng.choice([1, 1000, T_REAL // 4])
    pattern = rng.choice([[big, small, big], [big, small, small, big], [small, big, small, big]])
    times = [0, d1, d2, d2 + 40][: len(pattern)]
    steps = []
    n = 0
    for t, _l in zip(times, pattern):
        n += 1
        steps.append({"at": t, "do": "rx", "r": 1, "ty": "NON", "code": 1, "mid": 300 + n, "tok": "%04x" % (0xC000 + n),
                      "path": ["h", "2"], "b2": [0, 0, szx]})
        if rng.random() < 0.4:
            del steps[-1]["b2"]      # a plain request: the latest rendering all the same
    for num in (1, 2):
        n += 1
        steps.append({"at": later + num, "do": "rx", "r": 1, "ty": "NON", "code": 1, "mid": 300 + n, "tok": "%04x" % (0xC000 + n),
                      "path": ["h", "2"], "b2": [num, 0, szx]})
    handlers = {"1": {"delay": 0, "outcome": "nocode", "len": 0},
                "2": {"delay": 0, "canon": True, "outcome": "ok", "lens": pattern}}
    return {"tuning": {"EMPTY_ACK_DELAY": 0.125}, "mid0": rng.randint(0, 65535), "tok0": 5, "nremotes": 4,
            "handlers": handlers, "steps": steps, "triggers": [], "horizon": 300 * 1024}


def keepalive_schedule(rng):
    """An abandoned upload (and an abandoned rendering) while OTHER transfers keep the tables busy, each access less
    than the lifetime after the previous one: the abandoned state is still discarded within twice the lifetime of ITS
    last use, so its continuation at 2T and later is refused with 4.08."""
    steps = []
    n = [0]

    def rx(t, **kw):
        n[0] += 1
        steps.append(dict({"at": t, "do": "rx", "r": 1, "ty": "NON", "mid": (300 + n[0]) & 0xFFFF, "tok": "%04x" % (0xD000 + n[0])}, **kw))

    size = 16
    salt_a = key_salt(1, 3, 10)
    rx(0, code=3, path=["h", "1"], ckq=0, b1=[0, 1, 0], body={"cid": salt_a, "off": 0, "len": size})
    rx(1, code=1, path=["h", "2"], ckq=0, b2=[0, 0, 0])
    step = rng.choice([T_REAL // 3, T_REAL // 2, (2 * T_REAL) // 3, T_REAL - 5])
    t = step
    i = 0
    end = 2 * T_REAL + rng.choice([5, 1000, T_REAL // 2, T_REAL])
    while t < end + step:
        i += 1
        # other keys: another endpoint's upload block 0 and block-0 rendering, again and again
        salt_o = key_salt(2, 3, 11)
        rx(t, r=2, code=3, path=["h", "1"], ckq=1, b1=[0, 1, 0], body={"cid": salt_o, "off": 0, "len": size})
        rx(t + 1, r=2, code=1, path=["h", "2"], ckq=1, b2=[0, 0, 0])
        t += step
    rx(end, code=3, path=["h", "1"], ckq=0, b1=[1, 0, 0], body={"cid": salt_a, "off": size, "len": 7})
    rx(end + 2, code=1, path=["h", "2"], ckq=0, b2=[1, 0, 0])
    steps.sort(key=lambda s: s["at"])
    handlers = {"1": {"delay": 0, "outcome": "nocode", "len": 0},
                "2": {"delay": 0, "canon": True, "outcome": "ok", "lens": [100]}}
    return {"tuning": {"EMPTY_ACK_DELAY": 0.125}, "mid0": rng.randint(0, 65535), "tok0": 5, "nremotes": 4,
            "handlers": handlers, "steps": steps, "triggers": [], "horizon": 400 * 1024}


def random_schedule(rng):
    """Real parameters.  Each (endpoint, method, cache key) has its own canonical body."""
    if rng.random() < 0.12:
        return oscillation_schedule(rng)
    if rng.random() < 0.04:
        return keepalive_schedule(rng)
    steps = []
    nrem = rng.choice([1, 2, 3])
    t = 0
    n = 0
    handlers = {
        "1": {"delay": 0, "outcome": "nocode", "len": 0},
        "2": {"delay": 0, "canon": True, "outcome": "ok",
              "lens": [rng.choice([0, 5, 16, 17, 40, 100, 1023, 1024, 1025, 2500]) for _ in range(6)]},
        # a second resource of each kind: block-wise state is per resource as well
        "3": {"delay": 0, "outcome": "nocode", "len": 0},
        "4": {"delay": 0, "canon": True, "outcome": "ok",
              "lens": [rng.choice([0, 16, 40, 100, 1025, 2500]) for _ in range(6)]},
    }
    tworesources = rng.random() < 0.35
    twoports = rng.random() < 0.3      # peers n and n + 10: one address, two ports -- two endpoints
    ntransfers = rng.randint(1, 4)
    plan = []
    for _ in range(ntransfers):
        r = rng.randint(1, nrem)
        if twoports:
            r = rng.choice([1, 11])
        res = 2 if tworesources and rng.random() < 0.5 else 0     # 0: resources h/1, h/2; 2: h/3, h/4
        acc = rng.choice([None, 60, [12, "2a"], [292, "01"], [292, "02"]]) if rng.random() < 0.3 else None
        if rng.random() < 0.55:
            # a Block1 upload, possibly misbehaving
            code = rng.choice([3, 2])
            ckq = rng.choice([0, 0, 1])
            szx = rng.choice([0, 0, 1, 2, 6])
            size = 2 ** (szx + 4)
            nblocks = rng.randint(1, 4)
            last = rng.choice([1, size // 2, size, 7])
            seq = [(i, 1 if i < nblocks - 1 else 0, size if i < nblocks - 1 else last) for i in range(nblocks)]
            mis = rng.choice(["none", "none", "skip", "repeat", "restart", "lastfirst", "wrongsize", "overlap", "dupfinal"])
            if mis == "skip" and len(seq) > 2:
                del seq[1]
            elif mis == "repeat" and len(seq) > 1:
                seq.insert(1, seq[0] if rng.random() < 0.5 else seq[1])
            elif mis == "restart" and len(seq) > 1:
                seq = seq[: rng.randint(1, len(seq) - 1)] + seq
            elif mis == "lastfirst":
                seq = [seq[-1]] + seq[:-1]
            elif mis == "wrongsize" and len(seq) > 1:
                k = rng.randint(0, len(seq) - 2)
                seq[k] = (seq[k][0], 1, rng.choice([size - 1, size // 2, size + 1]))
            elif mis == "overlap" and len(seq) > 2:
                seq[2] = (1, seq[2][1], seq[2][2])
            elif mis == "dupfinal":
                seq.append(seq[-1])
            for num, more, plen in seq:
                plan.append(("b1", r, code, ckq, szx, num, more, plen, res, acc))
        else:
            code = rng.choice([1, 1, 5])
            ckq = rng.choice([0, 0, 1])
            szx = rng.choice([0, 1, 2, 4, 6])
            nums = rng.choice([[0, 1, 2], [0, 1, 2, 3, 4], [0, 0, 1], [1], [0, 2, 1], [0, 5], [0, 1, 0, 1], [0, 1, 1],
                               # a request without Block2 option: the server chunks on its own account when the
                               # rendering exceeds the maximum payload size (block 0 at size exponent 6), else answers whole
                               ["plain"], ["plain", 1, 2], ["plain", 1, 0, 1], ["plain", 3]])
            if nums[0] == "plain":
                szx = 6
            for num in nums:
                plan.append(("b2", r, code, ckq, szx if rng.random() < 0.85 else max(0, szx - 1), num, 0, 0, res, acc))
    # interleave a little
    if rng.random() < 0.4:
        rng.shuffle(plan)
        # keep per-key order of first occurrences plausible: no constraint needed, the monitor judges whatever comes
    if twoports or tworesources:
        # interleave two transfers that differ in the endpoint's port / the resource / the Accept option only:
        # the second one's blocks must not extend, nor be cut from, the first one's state
        k0 = rng.choice([0, 1])
        a = ("b1", 1, 3, k0, 0, 0, 1, 16, 0, None)
        b_r = 11 if twoports else 1
        b_res = 2 if (tworesources and not twoports) else 0
        plan += [a, ("b1", b_r, 3, k0, 0, 1, 0, 7, b_res, None), ("b1", 1, 3, k0, 0, 1, 0, 7, 0, None)]
        plan += [("b2", 1, 1, k0, 0, 0, 0, 0, 0, None), ("b2", b_r, 1, k0, 0, 1, 0, 0, b_res, None)]
    if rng.random() < 0.15:
        # two uploads of one endpoint that differ in one cache-key option only
        other = rng.choice([60, [12, "2a"], [292, "01"]])
        plan += [("b1", 1, 3, 0, 0, 0, 1, 16, 0, None), ("b1", 1, 3, 0, 0, 1, 0, 7, 0, other), ("b1", 1, 3, 0, 0, 1, 0, 7, 0, None)]
    for (kind, r, code, ckq, szx, num, more, plen, res, acc) in plan:
        n += 1
        t += rng.choice([0, 1, 50, 1000, T_REAL - 1, T_REAL, T_REAL + 1, 2 * T_REAL - 1, 2 * T_REAL, 2 * T_REAL + 1]
                        if rng.random() < 0.25 else [0, 1, 50, 1000])
        tok = "%04x" % (0xB000 + n)
        accq = 2 * {"None": 0, "60": 1, "[12, '2a']": 2, "[292, '01']": 3, "[292, '02']": 4}[str(acc)]
        if kind == "b1":
            salt = key_salt(r, code, (1 + res) * 10 + ckq + accq)
            size = 2 ** (szx + 4)
            steps.append({"at": t, "do": "rx", "r": r, "ty": rng.choice(["NON", "CON"]), "code": code, "mid": (300 + n) & 0xFFFF,
                          "tok": tok, "path": ["h", str(1 + res)], "ckq": ckq, "b1": [num, more, szx], "accept": acc,
                          "body": {"cid": salt, "off": num * size, "len": plen}})
        else:
            steps.append({"at": t, "do": "rx", "r": r, "ty": rng.choice(["NON", "CON"]), "code": code, "mid": (300 + n) & 0xFFFF,
                          "tok": tok, "path": ["h", str(2 + res)], "ckq": ckq, "b2": [num, 0, szx], "accept": acc})
            if num == "plain":
                del steps[-1]["b2"]
    trig = [{"on": {"tx": {"ty": "CON", "cls": "resp", "nth": k}}, "delay": 2, "rx": {"ty": "ACK", "code": 0, "mid": "same"}} for k in range(1, 12)]
    return {"tuning": {"EMPTY_ACK_DELAY": 0.125}, "mid0": rng.randint(0, 65535), "tok0": 5, "nremotes": 4,
            "handlers": handlers, "steps": steps, "triggers": trig, "horizon": 300 * 1024}


def sig_of(clause, sched, events, at):
    """clause + shape of the request the failing response answers"""
    e = events[at - 1] if 0 < at <= len(events) else {}
    req = None
    for x in events[:at]:
        if x["k"] == "rx" and x["cls"] == "req" and x.get("tok") == e.get("tok") and x.get("r") == e.get("r"):
            req = x
    if req is None:
        return clause + "|?"
    parts = []
    if req["b1n"] >= 0:
        parts.append("block1:%s%s" % ("first" if req["b1n"] == 0 else "continuation", ":more" if req["b1m"] else ":last"))
    if req["b2n"] >= 0:
        parts.append("block2:%s" % ("first" if req["b2n"] == 0 else "later"))
    if not parts:
        return clause + "|plain"
    return clause + "|" + "+".join(parts)


MODES = ("classic", "combined", "methods", "sizes")
# exhaustive constants per alphabet (T = 2 ticks; MaxTime beyond 2T so that "gone at 2T" is reached after a refresh)
MC_QUICK = {
    "classic": dict(nrem=1, maxnum=2, maxenv=3, maxtime=6),
    "combined": dict(nrem=1, maxnum=2, maxenv=3, maxtime=4),
    "methods": dict(nrem=1, maxnum=2, maxenv=4, maxtime=5),
    "sizes": dict(nrem=1, maxnum=2, maxenv=4, maxtime=5),
}
MC_THOROUGH = {
    "classic": dict(nrem=1, maxnum=2, maxenv=4, maxtime=6),
    "combined": dict(nrem=1, maxnum=2, maxenv=4, maxtime=5),
    "methods": dict(nrem=1, maxnum=2, maxenv=5, maxtime=5),
    "sizes": dict(nrem=1, maxnum=2, maxenv=5, maxtime=5),
}
SIM = dict(nrem=2, maxnum=3, maxenv=7, maxtime=10)
# judgements the extension is about: each must have been made on real executions, or the run says nothing about it
NEW_JUDGEMENTS = ("first_after_block1", "combined_first_slice", "later_payload_method", "later_with_payload",
                  "later_with_block1", "later_rebased", "szx7", "first_larger_than_rendering", "whole_body_no_block1")


def work(rep, args):
    from concurrent.futures import ThreadPoolExecutor
    import time

    quick = args.tier == "quick"
    rng = random.Random(args.seed * 7477 + 6)
    rng2 = random.Random(args.seed * 9151 + 60)      # the extension's schedules: the first part's stay what they were
    mcc = MC_QUICK if quick else MC_THOROUGH
    phases = {}
    with tlc.Workdir() as wd:
        t0 = time.time()
        # quick: the two large alphabets exhaustively, one simulation over the union of all four;
        # thorough: all four exhaustively, one simulation per alphabet
        mc_modes = ("classic", "combined") if quick else MODES
        sim_modes = ("all",) if quick else MODES
        nsim = {"all": 120} if quick else {"classic": 1500, "combined": 1500, "methods": 500, "sizes": 500}
        for mode in mc_modes:
            wd.write("BlockServer_mc_%s.cfg" % mode,
                     CFG % dict(mcc[mode], mode=mode, extra="VIEW View\nINVARIANT NoBad\nINVARIANT AliveIsPresent\nINVARIANT CacheIsLatest"))
        for mode in sim_modes:
            wd.write("BlockServer_sim_%s.cfg" % mode, CFG % dict(SIM, mode=mode, extra=""))
            os.makedirs(wd.file("sim_" + mode))

        def run_mc(mode):
            return tlc.run(wd, "BlockServer.tla", "BlockServer_mc_%s.cfg" % mode, workers=8 if quick else 8,
                           timeout=1200 if quick else 3000, heap="3g" if quick else "10g")

        def run_sim(mode):
            return tlc.run(wd, "BlockServer.tla", "BlockServer_sim_%s.cfg" % mode, workers=1, timeout=900,
                           simulate="file=%s/tr,num=%d" % (wd.file("sim_" + mode), nsim[mode]), depth=30,
                           seed=args.seed + 1 + sim_modes.index(mode))

        # the exhaustive runs and the simulations side by side
        with ThreadPoolExecutor(max_workers=3 if quick else 6) as ex:
            fm = {m: ex.submit(run_mc, m) for m in mc_modes}
            fs = {m: ex.submit(run_sim, m) for m in sim_modes}
            mcs = {m: f.result() for m, f in fm.items()}
            sims = {m: f.result() for m, f in fs.items()}
        for m in mc_modes:
            tlc.need_ok_run(mcs[m], "BlockServer model check (%s)" % m)
            if mcs[m].violated:
                raise MachineryError("BlockServer model (fixed design, alphabet %s) violates %s" % (m, mcs[m].violated))
        for m in sim_modes:
            tlc.need_ok_run(sims[m], "BlockServer simulation (%s)" % m)
        phases["tlc_model"] = round(time.time() - t0, 1)
        model = []
        model_mode = []
        for m in sim_modes:
            for b in tlc.read_sim_traces(os.path.join(wd.file("sim_" + m), "tr")):
                s_, e_ = behaviour_to_schedule(b)
                if s_["steps"]:
                    model.append((s_, e_))
                    model_mode.append(m)
        rand = [random_schedule(rng) for _ in range(300 if quick else 8000)]
        ext = [bsd.extension_schedule(rng2) for _ in range(300 if quick else 7000)]
        scheds = [s for s, _ in model] + rand + ext
        t0 = time.time()
        results = run_all(scheds)
        phases["driver"] = round(time.time() - t0, 1)
        for s, res in zip(scheds, results):
            if "error" in res:
                raise MachineryError("driver failed on schedule %s\n%s" % (json.dumps(s)[:400], res["error"]))
        ndrift = 0
        reproduced = {m: 0 for m in sim_modes}
        for (s, exp), res, m in zip(model, results, model_mode):
            d = compare(exp, res["events"])
            if d:
                ndrift += 1
                rep.add_drift("model behaviour (%s) not reproduced by implementation: %s" % (m, d))
            else:
                reproduced[m] += 1
        n0, n1 = len(model), len(model) + len(rand)
        groups = [("model", 2 * 1024, list(range(n0))), ("real", T_REAL, list(range(n0, len(scheds))))]

        def sub(gname, i):
            return gname if gname == "model" else ("random" if i < n1 else "extension")
        validated = 0
        kinds = set()
        judgements = {}
        t0 = time.time()
        for gname, Tval, idxs in groups:
            if not idxs:
                continue
            traces = [results[i]["events"] for i in idxs]
            verdicts, r = tracecheck.validate(wd, "BlockServerTrace", "BlockServerTrace.cfg.tmpl", {"T": Tval}, traces)
            validated += len(traces)
            ncount = 0
            for v in tlc.printed_values(r, "COUNT"):
                ncount += 1
                tot = judgements.setdefault(sub(gname, idxs[v[1] - 1]), {})
                for k, c in v[2].items():
                    tot[k] = tot.get(k, 0) + c
            if ncount != len(traces):
                raise MachineryError("BlockServerTrace: %d COUNT lines for %d traces" % (ncount, len(traces)))
            for i, v in zip(idxs, verdicts):
                for e in results[i]["events"]:
                    if e["k"] == "tx" and e["cls"] == "resp":
                        kinds.add((e["code"], e["b1n"] >= 0, e["b2n"] >= 0))
                for clause in sorted(v["bad"]):
                    rep.violation(
                        clause,
                        sig_of(clause, scheds[i], results[i]["events"], v["at"][clause]),
                        "clause %s false at event %d of a recorded execution (%d events, %s%s); T=%d; log errors %s"
                        % (clause, v["at"][clause], len(results[i]["events"]), sub(gname, i),
                           " " + scheds[i]["family"] if "family" in scheds[i] else "", Tval, results[i]["meta"]["log_errors"][:1]),
                        {"schedule": scheds[i], "events": results[i]["events"], "meta": results[i]["meta"], "T": Tval},
                    )
        phases["tlc_traces"] = round(time.time() - t0, 1)
        # what the extension is about has to have happened on the real code
        allj = {}
        for g in judgements.values():
            for k, c in g.items():
                allj[k] = allj.get(k, 0) + c
        missing = [k for k in NEW_JUDGEMENTS if not allj.get(k)]
        if missing:
            raise MachineryError("vacuous run: no real execution was judged for %s" % missing)
        fam = {}
        for s_ in ext:
            fam[s_["family"]] = fam.get(s_["family"], 0) + 1
        both = sum(1 for res in results for e in res["events"]
                   if e["k"] == "tx" and e["cls"] == "resp" and e["b1n"] >= 0 and e["b2n"] >= 0)
        rep.coverage.update(
            {
                "states": sum(mcs[m].distinct for m in mc_modes), "transitions": sum(mcs[m].generated for m in mc_modes),
                "depth": max(mcs[m].depth for m in mc_modes),
                "mc_per_alphabet": {m: {"constants": mcc[m], "states": mcs[m].distinct, "transitions": mcs[m].generated,
                                        "depth": mcs[m].depth, "wall_s": round(mcs[m].wall, 1)} for m in mc_modes},
                "mc_constants": mcc["classic"],
                "traces_validated_against_impl": validated,
                "schedules_from_model_behaviours": len(model),
                "model_behaviours_reproduced_exactly": len(model) - ndrift,
                "model_behaviours_reproduced_per_alphabet": reproduced,
                "random_schedules": len(rand),
                "extension_schedules": len(ext),
                "extension_families": dict(sorted(fam.items())),
                "responses_with_block1_and_block2": both,
                "judgements_by_tlc": {g: dict(sorted(c.items())) for g, c in judgements.items()},
                "distinct_response_kinds": len(kinds),
                "phases_wall_s": phases,
                "samples": [{"schedule": scheds[0], "events": results[0]["events"][:10]},
                            {"schedule": scheds[n1], "events": results[n1]["events"][:14]},
                            {"schedule": scheds[-1], "events": results[-1]["events"][:10]}],
                "exhaustive": True,
                "checker_cmd": "tlc BlockServer.tla (exhaustive per alphabet + -simulate); tlc BlockServerTrace.tla on recorded traces",
            }
        )
        rep.assumptions += [
            "request bodies of one (endpoint, method, cache key) are prefixes of one self-describing canonical string; renderings are canonical strings numbered by handler invocation (harness/drive.py canon/identify)",
            "between T and 2T after the last use both 'alive' and 'expired' are accepted; a rejected continuation may or may not count as a use",
            "where the latest block-0 rendering needed no block-wise transfer, a later-block request may be answered 4.00 or 4.08",
            "block 0 with more-flag and a payload shorter than its block size is not judged (the statement speaks of continuations)",
            "a request that completes a body and asks for a later block (Block1 final + Block2 NUM > 0) may be served from the kept rendering without the handler, or reach the handler (then that key's rendering is not judged until the next block-0 request)",
            "size exponent 7 (reserved / BERT) in Block2: 4.00 or 1024-byte slices are accepted, exponent 6 or 7 in the response; in Block1 it is not judged",
            "a Block2 option asking for a later block on the first of several request blocks makes the completing request unjudged",
            "handlers answer at once (no second request of the same key while a rendering is being made)",
        ]


if __name__ == "__main__":
    sys.exit(runner.main("C06", work))
