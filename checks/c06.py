"""C06 -- block-wise server: handlers see only complete bodies, blocks are exact slices.

TLC checks spec/BlockServer.tla (Block1Spool, Block2Cache and the exact
TimeoutDict bookkeeping, adversarial client) exhaustively; its behaviours are
replayed against real resources behind a real server context (raw-datagram
client of the harness) and compared; recorded traces of those and of
randomised real-parameter sequences (in order, restarted, repeated, skipped,
wrong sizes, last block first, several endpoints / methods / cache keys, idle
times around T and 2T with T = MAX_TRANSMIT_WAIT) are validated by TLC against
BlockServerTrace.tla."""

import json
import os
import random
import sys

from harness import tlc, tracecheck, MachineryError, runner
from harness.drive import run_all, key_salt

CFG = """SPECIFICATION Spec
CONSTANTS
  T = 2
  NRemotes = %(nrem)d
  MaxNum = %(maxnum)d
  MaxEnv = %(maxenv)d
  MaxTime = %(maxtime)d
  Lens = {10, 40}
  FixGap = TRUE
  FixStale = TRUE
%(extra)s
"""

T_REAL = 93 * 1024


def behaviour_to_schedule(beh):
    steps = []
    expected = []
    lens = []
    n = 0
    for label, st in beh[1:]:
        emit = st.get("emit", [])
        if not emit or emit[0]["k"] != "rx":
            continue
        e0 = emit[0]
        n += 1
        t = e0["t"] * 1024
        tok = "%02x" % (0xA0 + n)
        if e0["code"] == 3:
            salt = key_salt(e0["r"], 3, 10)
            steps.append({"at": t, "do": "rx", "r": e0["r"], "ty": "NON", "code": 3, "mid": 100 + n, "tok": tok,
                          "path": ["h", "1"], "b1": [e0["b1n"], e0["b1m"], 0],
                          "body": {"cid": salt, "off": e0["b1n"] * 16, "len": e0["plen"]}})
        else:
            steps.append({"at": t, "do": "rx", "r": e0["r"], "ty": "NON", "code": 1, "mid": 100 + n, "tok": tok,
                          "path": ["h", "2"], "b2": [e0["b2n"], 0, 0]})
        for e in emit:
            if e["k"] == "release" and e0["code"] == 1:
                lens.append(e["plen"])
            if e["k"] == "tx":
                expected.append((tok, e["code"], e["b1n"], e["b1m"], e["b2n"], e["b2m"], e["plen"] if e["code"] == 69 else -1,
                                 e["off"] if e["code"] == 69 and e["plen"] > 0 else -1))
            elif e["k"] == "call":
                expected.append((tok, "call", e["plen"] if e["code"] == 3 else 0))
    return {
        "tuning": {"MAX_TRANSMIT_WAIT": 2.0, "EMPTY_ACK_DELAY": 0.125},
        "mid0": 1, "tok0": 1, "nremotes": 2,
        "handlers": {"1": {"delay": 0, "outcome": "nocode", "len": 0}, "2": {"delay": 0, "canon": True, "lens": lens or [10], "outcome": "ok"}},
        "steps": steps, "horizon": 16 * 1024,
    }, expected


def project(real):
    out = []
    for e in real:
        if e["k"] == "tx" and e["cls"] == "resp":
            out.append((e["tok"], e["code"], e["b1n"], e["b1m"], e["b2n"], e["b2m"], e["plen"] if e["code"] == 69 else -1,
                        e["off"] if e["code"] == 69 and e["plen"] > 0 else -1))
        elif e["k"] == "call":
            out.append((e["tok"], "call", e["plen"] if e["code"] == 3 else 0))
    return out


def compare(expected, real):
    got = project(real)
    for i, x in enumerate(expected):
        if i >= len(got):
            return "model predicts %d events, implementation produced %d; first missing %s" % (len(expected), len(got), x)
        if x != got[i]:
            return "event %d: model predicts %s, implementation produced %s" % (i + 1, x, got[i])
    return None


def oscillation_schedule(rng):
    """One cache key whose rendering oscillates between needing and not needing a block-wise transfer,
    with a later-block request placed around T after the FIRST rendering but well within T of the
    latest one (it must be served): exercises the interplay of Block2Cache's discard with the
    TimeoutDict timers."""
    big = rng.choice([40, 100, 1500])
    small = rng.choice([0, 5, 16])
    szx = rng.choice([0, 1])
    d1 = rng.choice([50, 1000, T_REAL // 2])
    d2 = d1 + rng.choice([50, 1000, T_REAL // 3])
    later = T_REAL + rng.choice([1, 1000, T_REAL // 4])
    pattern = rng.choice([[big, small, big], [big, small, small, big], [small, big, small, big]])
    times = [0, d1, d2, d2 + 40][: len(pattern)]
    steps = []
    n = 0
    for t, _l in zip(times, pattern):
        n += 1
        steps.append({"at": t, "do": "rx", "r": 1, "ty": "NON", "code": 1, "mid": 300 + n, "tok": "%04x" % (0xC000 + n),
                      "path": ["h", "2"], "b2": [0, 0, szx]})
        if rng.random() < 0.4:
            del steps[-1]["b2"]      # a plain request: the latest rendering all the same
    for num in (1, 2):
        n += 1
        steps.append({"at": later + num, "do": "rx", "r": 1, "ty": "NON", "code": 1, "mid": 300 + n, "tok": "%04x" % (0xC000 + n),
                      "path": ["h", "2"], "b2": [num, 0, szx]})
    handlers = {"1": {"delay": 0, "outcome": "nocode", "len": 0},
                "2": {"delay": 0, "canon": True, "outcome": "ok", "lens": pattern}}
    return {"tuning": {"EMPTY_ACK_DELAY": 0.125}, "mid0": rng.randint(0, 65535), "tok0": 5, "nremotes": 4,
            "handlers": handlers, "steps": steps, "triggers": [], "horizon": 300 * 1024}


def keepalive_schedule(rng):
    """An abandoned upload (and an abandoned rendering) while OTHER transfers keep the tables busy, each access less
    than the lifetime after the previous one: the abandoned state is still discarded within twice the lifetime of ITS
    last use, so its continuation at 2T and later is refused with 4.08."""
    steps = []
    n = [0]

    def rx(t, **kw):
        n[0] += 1
        steps.append(dict({"at": t, "do": "rx", "r": 1, "ty": "NON", "mid": (300 + n[0]) & 0xFFFF, "tok": "%04x" % (0xD000 + n[0])}, **kw))

    size = 16
    salt_a = key_salt(1, 3, 10)
    rx(0, code=3, path=["h", "1"], ckq=0, b1=[0, 1, 0], body={"cid": salt_a, "off": 0, "len": size})
    rx(1, code=1, path=["h", "2"], ckq=0, b2=[0, 0, 0])
    step = rng.choice([T_REAL // 3, T_REAL // 2, (2 * T_REAL) // 3, T_REAL - 5])
    t = step
    i = 0
    end = 2 * T_REAL + rng.choice([5, 1000, T_REAL // 2, T_REAL])
    while t < end + step:
        i += 1
        # other keys: another endpoint's upload block 0 and block-0 rendering, again and again
        salt_o = key_salt(2, 3, 11)
        rx(t, r=2, code=3, path=["h", "1"], ckq=1, b1=[0, 1, 0], body={"cid": salt_o, "off": 0, "len": size})
        rx(t + 1, r=2, code=1, path=["h", "2"], ckq=1, b2=[0, 0, 0])
        t += step
    rx(end, code=3, path=["h", "1"], ckq=0, b1=[1, 0, 0], body={"cid": salt_a, "off": size, "len": 7})
    rx(end + 2, code=1, path=["h", "2"], ckq=0, b2=[1, 0, 0])
    steps.sort(key=lambda s: s["at"])
    handlers = {"1": {"delay": 0, "outcome": "nocode", "len": 0},
                "2": {"delay": 0, "canon": True, "outcome": "ok", "lens": [100]}}
    return {"tuning": {"EMPTY_ACK_DELAY": 0.125}, "mid0": rng.randint(0, 65535), "tok0": 5, "nremotes": 4,
            "handlers": handlers, "steps": steps, "triggers": [], "horizon": 400 * 1024}


def random_schedule(rng):
    """Real parameters.  Each (endpoint, method, cache key) has its own canonical body."""
    if rng.random() < 0.12:
        return oscillation_schedule(rng)
    if rng.random() < 0.04:
        return keepalive_schedule(rng)
    steps = []
    nrem = rng.choice([1, 2, 3])
    t = 0
    n = 0
    handlers = {
        "1": {"delay": 0, "outcome": "nocode", "len": 0},
        "2": {"delay": 0, "canon": True, "outcome": "ok",
              "lens": [rng.choice([0, 5, 16, 17, 40, 100, 1023, 1024, 1025, 2500]) for _ in range(6)]},
        # a second resource of each kind: block-wise state is per resource as well
        "3": {"delay": 0, "outcome": "nocode", "len": 0},
        "4": {"delay": 0, "canon": True, "outcome": "ok",
              "lens": [rng.choice([0, 16, 40, 100, 1025, 2500]) for _ in range(6)]},
    }
    tworesources = rng.random() < 0.35
    twoports = rng.random() < 0.3      # peers n and n + 10: one address, two ports -- two endpoints
    ntransfers = rng.randint(1, 4)
    plan = []
    for _ in range(ntransfers):
        r = rng.randint(1, nrem)
        if twoports:
            r = rng.choice([1, 11])
        res = 2 if tworesources and rng.random() < 0.5 else 0     # 0: resources h/1, h/2; 2: h/3, h/4
        acc = rng.choice([None, 60, [12, "2a"], [292, "01"], [292, "02"]]) if rng.random() < 0.3 else None
        if rng.random() < 0.55:
            # a Block1 upload, possibly misbehaving
            code = rng.choice([3, 2])
            ckq = rng.choice([0, 0, 1])
            szx = rng.choice([0, 0, 1, 2, 6])
            size = 2 ** (szx + 4)
            nblocks = rng.randint(1, 4)
            last = rng.choice([1, size // 2, size, 7])
            seq = [(i, 1 if i < nblocks - 1 else 0, size if i < nblocks - 1 else last) for i in range(nblocks)]
            mis = rng.choice(["none", "none", "skip", "repeat", "restart", "lastfirst", "wrongsize", "overlap", "dupfinal"])
            if mis == "skip" and len(seq) > 2:
                del seq[1]
            elif mis == "repeat" and len(seq) > 1:
                seq.insert(1, seq[0] if rng.random() < 0.5 else seq[1])
            elif mis == "restart" and len(seq) > 1:
                seq = seq[: rng.randint(1, len(seq) - 1)] + seq
            elif mis == "lastfirst":
                seq = [seq[-1]] + seq[:-1]
            elif mis == "wrongsize" and len(seq) > 1:
                k = rng.randint(0, len(seq) - 2)
                seq[k] = (seq[k][0], 1, rng.choice([size - 1, size // 2, size + 1]))
            elif mis == "overlap" and len(seq) > 2:
                seq[2] = (1, seq[2][1], seq[2][2])
            elif mis == "dupfinal":
                seq.append(seq[-1])
            for num, more, plen in seq:
                plan.append(("b1", r, code, ckq, szx, num, more, plen, res, acc))
        else:
            code = rng.choice([1, 1, 5])
            ckq = rng.choice([0, 0, 1])
            szx = rng.choice([0, 1, 2, 4, 6])
            nums = rng.choice([[0, 1, 2], [0, 1, 2, 3, 4], [0, 0, 1], [1], [0, 2, 1], [0, 5], [0, 1, 0, 1], [0, 1, 1],
                               # a request without Block2 option: the server chunks on its own account when the
                               # rendering exceeds the maximum payload size (block 0 at size exponent 6), else answers whole
                               ["plain"], ["plain", 1, 2], ["plain", 1, 0, 1], ["plain", 3]])
            if nums[0] == "plain":
                szx = 6
            for num in nums:
                plan.append(("b2", r, code, ckq, szx if rng.random() < 0.85 else max(0, szx - 1), num, 0, 0, res, acc))
    # interleave a little
    if rng.random() < 0.4:
        rng.shuffle(plan)
        # keep per-key order of first occurrences plausible: no constraint needed, the monitor judges whatever comes
    if twoports or tworesources:
        # interleave two transfers that differ in the endpoint's port / the resource / the Accept option only:
        # the second one's blocks must not extend, nor be cut from, the first one's state
        k0 = rng.choice([0, 1])
        a = ("b1", 1, 3, k0, 0, 0, 1, 16, 0, None)
        b_r = 11 if twoports else 1
        b_res = 2 if (tworesources and not twoports) else 0
        plan += [a, ("b1", b_r, 3, k0, 0, 1, 0, 7, b_res, None), ("b1", 1, 3, k0, 0, 1, 0, 7, 0, None)]
        plan += [("b2", 1, 1, k0, 0, 0, 0, 0, 0, None), ("b2", b_r, 1, k0, 0, 1, 0, 0, b_res, None)]
    if rng.random() < 0.15:
        # two uploads of one endpoint that differ in one cache-key option only
        other = rng.choice([60, [12, "2a"], [292, "01"]])
        plan += [("b1", 1, 3, 0, 0, 0, 1, 16, 0, None), ("b1", 1, 3, 0, 0, 1, 0, 7, 0, other), ("b1", 1, 3, 0, 0, 1, 0, 7, 0, None)]
    for (kind, r, code, ckq, szx, num, more, plen, res, acc) in plan:
        n += 1
        t += rng.choice([0, 1, 50, 1000, T_REAL - 1, T_REAL, T_REAL + 1, 2 * T_REAL - 1, 2 * T_REAL, 2 * T_REAL + 1]
                        if rng.random() < 0.25 else [0, 1, 50, 1000])
        tok = "%04x" % (0xB000 + n)
        accq = 2 * {"None": 0, "60": 1, "[12, '2a']": 2, "[292, '01']": 3, "[292, '02']": 4}[str(acc)]
        if kind == "b1":
            salt = key_salt(r, code, (1 + res) * 10 + ckq + accq)
            size = 2 ** (szx + 4)
            steps.append({"at": t, "do": "rx", "r": r, "ty": rng.choice(["NON", "CON"]), "code": code, "mid": (300 + n) & 0xFFFF,
                          "tok": tok, "path": ["h", str(1 + res)], "ckq": ckq, "b1": [num, more, szx], "accept": acc,
                          "body": {"cid": salt, "off": num * size, "len": plen}})
        else:
            steps.append({"at": t, "do": "rx", "r": r, "ty": rng.choice(["NON", "CON"]), "code": code, "mid": (300 + n) & 0xFFFF,
                          "tok": tok, "path": ["h", str(2 + res)], "ckq": ckq, "b2": [num, 0, szx], "accept": acc})
            if num == "plain":
                del steps[-1]["b2"]
    trig = [{"on": {"tx": {"ty": "CON", "cls": "resp", "nth": k}}, "delay": 2, "rx": {"ty": "ACK", "code": 0, "mid": "same"}} for k in range(1, 12)]
    return {"tuning": {"EMPTY_ACK_DELAY": 0.125}, "mid0": rng.randint(0, 65535), "tok0": 5, "nremotes": 4,
            "handlers": handlers, "steps": steps, "triggers": trig, "horizon": 300 * 1024}


def sig_of(clause, sched, events, at):
    """clause + shape of the request the failing response answers"""
    e = events[at - 1] if 0 < at <= len(events) else {}
    req = None
    for x in events[:at]:
        if x["k"] == "rx" and x["cls"] == "req" and x.get("tok") == e.get("tok") and x.get("r") == e.get("r"):
            req = x
    if req is None:
        return clause + "|?"
    if req["b1n"] >= 0:
        return "%s|block1:%s%s" % (clause, "first" if req["b1n"] == 0 else "continuation", ":more" if req["b1m"] else ":last")
    if req["b2n"] >= 0:
        return "%s|block2:%s" % (clause, "first" if req["b2n"] == 0 else "later")
    return clause + "|plain"


def work(rep, args):
    quick = args.tier == "quick"
    rng = random.Random(args.seed * 7477 + 6)
    consts = dict(nrem=1, maxnum=2, maxenv=4, maxtime=6) if quick else dict(nrem=1, maxnum=1, maxenv=5, maxtime=8)
    with tlc.Workdir() as wd:
        wd.write("BlockServer_run.cfg", CFG % dict(consts, extra="VIEW View\nINVARIANT NoBad\nINVARIANT AliveIsPresent"))
        mc = tlc.run(wd, "BlockServer.tla", "BlockServer_run.cfg", timeout=2400, heap="12g")
        tlc.need_ok_run(mc, "BlockServer model check")
        if mc.violated:
            raise MachineryError("BlockServer model (fixed design) violates %s" % mc.violated)
        wd.write("BlockServer_sim.cfg", CFG % dict(nrem=2, maxnum=3, maxenv=7, maxtime=10, extra=""))
        simdir = wd.file("sim")
        os.makedirs(simdir)
        nsim = 300 if quick else 3000
        sim = tlc.run(wd, "BlockServer.tla", "BlockServer_sim.cfg", workers=1, timeout=900,
                      simulate="file=%s/tr,num=%d" % (simdir, nsim), depth=30, seed=args.seed + 1)
        tlc.need_ok_run(sim, "BlockServer simulation")
        behaviours = tlc.read_sim_traces(os.path.join(simdir, "tr"))
        model = [behaviour_to_schedule(b) for b in behaviours]
        model = [(s, e) for s, e in model if s["steps"]]
        rand = [random_schedule(rng) for _ in range(500 if quick else 8000)]
        scheds = [s for s, _ in model] + rand
        results = run_all(scheds)
        for s, res in zip(scheds, results):
            if "error" in res:
                raise MachineryError("driver failed on schedule %s\n%s" % (json.dumps(s)[:400], res["error"]))
        ndrift = 0
        for (s, exp), res in zip(model, results):
            d = compare(exp, res["events"])
            if d:
                ndrift += 1
                rep.add_drift("model behaviour not reproduced by implementation: " + d)
        groups = {2 * 1024: list(range(len(model))), T_REAL: list(range(len(model), len(scheds)))}
        validated = 0
        kinds = set()
        for Tval, idxs in groups.items():
            if not idxs:
                continue
            traces = [results[i]["events"] for i in idxs]
            verdicts, r = tracecheck.validate(wd, "BlockServerTrace", "BlockServerTrace.cfg.tmpl", {"T": Tval}, traces)
            validated += len(traces)
            for i, v in zip(idxs, verdicts):
                for e in results[i]["events"]:
                    if e["k"] == "tx" and e["cls"] == "resp":
                        kinds.add((e["code"], e["b1n"] >= 0, e["b2n"] >= 0))
                for clause in sorted(v["bad"]):
                    rep.violation(
                        clause,
                        sig_of(clause, scheds[i], results[i]["events"], v["at"][clause]),
                        "clause %s false at event %d of a recorded execution (%d events); T=%d; log errors %s"
                        % (clause, v["at"][clause], len(results[i]["events"]), Tval, results[i]["meta"]["log_errors"][:1]),
                        {"schedule": scheds[i], "events": results[i]["events"], "meta": results[i]["meta"], "T": Tval},
                    )
        rep.coverage.update(
            {
                "states": mc.distinct, "transitions": mc.generated, "depth": mc.depth, "mc_constants": consts,
                "traces_validated_against_impl": validated,
                "schedules_from_model_behaviours": len(model),
                "model_behaviours_reproduced_exactly": len(model) - ndrift,
                "random_schedules": len(rand),
                "distinct_response_kinds": len(kinds),
                "samples": [{"schedule": scheds[0], "events": results[0]["events"][:10]}, {"schedule": scheds[-1], "events": results[-1]["events"][:10]}],
                "exhaustive": True,
                "checker_cmd": "tlc BlockServer.tla (exhaustive + -simulate); tlc BlockServerTrace.tla on recorded traces",
            }
        )
        rep.assumptions += [
            "request bodies of one (endpoint, method, cache key) are prefixes of one self-describing canonical string; renderings are canonical strings numbered by handler invocation (harness/drive.py canon/identify)",
            "between T and 2T after the last use both 'alive' and 'expired' are accepted; a rejected continuation may or may not count as a use",
            "where the latest block-0 rendering needed no block-wise transfer, a later-block request may be answered 4.00 or 4.08",
            "block 0 with more-flag and a payload shorter than its block size is not judged (the statement speaks of continuations)",
        ]


if __name__ == "__main__":
    sys.exit(runner.main("C06", work))
