"""C03 / C14: message layer, client role.

1. TLC exhaustively checks spec/MsgClient.tla (implementation-shaped model +
   monitor clauses of MsgClientObs) for small constants.
2. spec -> code: behaviours of that model (TLC -simulate) are turned into
   schedules and executed on the real stack at the model's exact instants; the
   events the model predicted are compared with the recorded ones (DRIFT if
   they differ) and
3. code -> spec: every recorded trace (those, plus randomised reactive-peer
   schedules with real tunings) is validated by TLC against
   MsgClientTrace.tla, i.e. the clauses are evaluated at every step of the
   real execution.  Only a clause false on a real trace is a VIOLATION."""

import json
import os
import random
import sys
from multiprocessing import Pool

from harness import tlc, tracecheck, MachineryError, runner
from harness.clientdrive import run_schedule, causal_order

MODEL_TUNING = {"ACK_TIMEOUT": 2.0, "ACK_RANDOM_FACTOR": 1.5}

MC_CFG = """SPECIFICATION Spec
CONSTANTS
  ATmin = 2
  ATmax = 3
  MaxRetransmit = %(mr)d
  Tol = 0
  NRemotes = 2
  NReqs = %(nreqs)d
  MidSpace = %(midspace)d
  MaxTime = %(maxtime)d
  MaxEnv = %(maxenv)d
VIEW View
INVARIANT NoBad
INVARIANT OneOpenState
INVARIANT BacklogIffExchange
INVARIANT OpenAgrees
"""

SIM_CFG = """SPECIFICATION Spec
CONSTANTS
  ATmin = 2
  ATmax = 3
  MaxRetransmit = %(mr)d
  Tol = 0
  NRemotes = 2
  NReqs = %(nreqs)d
  MidSpace = %(midspace)d
  MaxTime = %(maxtime)d
  MaxEnv = %(maxenv)d
INVARIANT NoBad
"""

LIVE_CFG = """SPECIFICATION FairSpec
CONSTANTS
  ATmin = 2
  ATmax = 3
  MaxRetransmit = 1
  Tol = 0
  NRemotes = 1
  NReqs = 2
  MidSpace = 3
  MaxTime = 20
  MaxEnv = 1
PROPERTY Terminates
"""


def _run(s):
    try:
        return run_schedule(s)
    except Exception as e:  # harness trouble: reported as machinery failure by the caller
        import traceback

        return {"error": traceback.format_exc()}


def run_all(scheds):
    if not scheds:
        return []
    with Pool(min(16, os.cpu_count() or 4)) as p:
        return p.map(_run, scheds, chunksize=max(1, len(scheds) // 64))


# -- spec -> code ---------------------------------------------------------------
def behaviour_to_schedule(beh, mr, mid0=100, tok0=50):
    """beh: list of (label, state) from TLC simulation.  Returns (schedule,
    expected events in trace units)."""
    steps = []
    expected = []
    prev_exch = {}
    nsub = 0

    def midref(m):
        # model message IDs are allocated 0,1,2.. in submission order
        return {"of": m + 1} if m < nsub else {"free": m}

    for label, st in beh:
        emit = st.get("emit", [])
        exch = st.get("exch", {})
        if isinstance(exch, list):
            exch = {}
        # initial timeout drawn in this action: the exchange that is new and has n = 0
        g = None
        for k, x in exch.items():
            if x["n"] == 0 and (k not in prev_exch or prev_exch[k]["q"] != x["q"]):
                g = x["gap"]
        prev_exch = exch
        if not emit:
            continue
        e0 = emit[0]
        t = e0["t"] * 1024
        f = None if g is None else float(g - 2)
        if e0["k"] == "submit":
            s = {"at": t, "do": "submit", "q": e0["q"], "r": e0["r"], "con": bool(e0["con"])}
            nsub += 1
        elif e0["k"] == "rx":
            s = {"at": t, "do": "rx", "r": e0["r"], "ty": e0["ty"], "mid": midref(e0["mid"])}
            if e0["cls"] == "resp":
                s["tok"] = {"of": e0["q"]} if e0["q"] else "dead"
                s["code"] = 69
        elif e0["k"] == "err":
            s = {"at": t, "do": "err", "r": e0["r"]}
        else:
            s = None  # timer / end: the implementation's own business
        if s is not None:
            if f is not None:
                s["f"] = f
            steps.append(s)
        for e in emit:
            expected.append(
                {
                    "k": e["k"],
                    "t": e["t"] * 1024,
                    "r": e["r"],
                    "ty": e["ty"],
                    "mid": midref(e["mid"]) if e["k"] in ("tx", "rx") else 0,
                    "q": e["q"],
                    "con": bool(e["con"]) if e["k"] == "submit" else False,
                    "cls": e["cls"],
                }
            )
    sched = {
        "tuning": dict(MODEL_TUNING, MAX_RETRANSMIT=mr),
        "mid0": mid0,
        "tok0": tok0,
        "nremotes": 2,
        "steps": steps,
    }
    return sched, expected


def _key(e):
    return (e["k"], e["t"], e["r"], e["ty"], e["mid"] if e["k"] in ("tx", "rx") else 0, e["q"], e["cls"])


def resolve_mids(expected, meta, mid0):
    out = []
    mids = {int(k): v for k, v in meta["mids"].items()}
    for e in expected:
        e = dict(e)
        m = e["mid"]
        if isinstance(m, dict):
            e["mid"] = mids.get(m["of"], -1) if "of" in m else (mid0 + 0x8000 + m["free"]) & 0xFFFF
        out.append(e)
    return out


def compare(expected, real):
    """None if the recorded events start with the predicted ones (events of
    one instant compared as multisets: timers of one instant may fire in any
    order); else a description of the first difference."""
    exp = [x for x in expected if x["k"] != "end"]
    got = [x for x in real if x["k"] != "end"]
    if len(got) < len(exp):
        return "model predicts %d events, implementation produced %d; first missing %s" % (
            len(exp),
            len(got),
            _key(exp[len(got)]),
        )
    # compare by instants
    i = 0
    while i < len(exp):
        t = exp[i]["t"]
        j = i
        while j < len(exp) and exp[j]["t"] == t:
            j += 1
        a = sorted(_key(x) for x in exp[i:j])
        last_block = j == len(exp)
        gj = i
        while gj < len(got) and got[gj]["t"] == t:
            gj += 1
        b = sorted(_key(x) for x in got[i:gj])
        if last_block:
            # the behaviour may have been cut inside this instant
            for x in a:
                if x in b:
                    b.remove(x)
                else:
                    return "at t=%d model predicts %s, implementation did not produce it" % (t, x)
            return None
        if a != b:
            return "at t=%d model predicts %s, implementation produced %s" % (t, a, b)
        i = j
    return None


# -- randomised reactive-peer schedules with real tunings -------------------------
TUNINGS = [
    {"ACK_TIMEOUT": 2.0, "ACK_RANDOM_FACTOR": 1.5, "MAX_RETRANSMIT": 4},
    {"ACK_TIMEOUT": 2.0, "ACK_RANDOM_FACTOR": 1.5, "MAX_RETRANSMIT": 2},
    {"ACK_TIMEOUT": 1.0, "ACK_RANDOM_FACTOR": 1.0, "MAX_RETRANSMIT": 0},
    {"ACK_TIMEOUT": 4.0, "ACK_RANDOM_FACTOR": 2.0, "MAX_RETRANSMIT": 1},
    {"ACK_TIMEOUT": 0.5, "ACK_RANDOM_FACTOR": 1.5, "MAX_RETRANSMIT": 6},
    {"ACK_TIMEOUT": 3.0, "ACK_RANDOM_FACTOR": 1.25, "MAX_RETRANSMIT": 3},
    # long timers: gaps beyond MAX_LATENCY / EXCHANGE_LIFETIME-sized values must still double
    {"ACK_TIMEOUT": 20.0, "ACK_RANDOM_FACTOR": 1.5, "MAX_RETRANSMIT": 4},
    {"ACK_TIMEOUT": 60.0, "ACK_RANDOM_FACTOR": 1.0, "MAX_RETRANSMIT": 3},
]


def tuning_consts(t):
    return {
        "ATmin": int(t["ACK_TIMEOUT"] * 1024),
        "ATmax": int(t["ACK_TIMEOUT"] * t["ACK_RANDOM_FACTOR"] * 1024),
        "MaxRetransmit": t["MAX_RETRANSMIT"],
    }


def random_schedule(rng, tuning, emphasis):
    """emphasis 'c03': few requests, rich ack/rst timing; 'c14': many requests
    per remote (backlog), mixed CON/NON."""
    c = tuning_consts(tuning)
    nrem = rng.choice([1, 2, 3])
    nreq = rng.randint(1, 3) if emphasis == "c03" else rng.randint(3, 7)
    steps = []
    triggers = []
    t = 0
    seen_con = set()
    for q in range(1, nreq + 1):
        r = rng.randint(1, nrem)
        con = rng.random() < (0.85 if emphasis == "c03" else 0.7)
        f = rng.choice([0.0, 0.25, 0.5, 0.75, 1.0])
        t += rng.choice([0, 0, 1, 300, c["ATmin"], c["ATmin"] * 3 + 5])
        steps.append({"at": t, "do": "submit", "q": q, "r": r, "con": con, "f": f})
        ito = c["ATmin"] + int((c["ATmax"] - c["ATmin"]) * f)
        maxcopy = 1 + tuning["MAX_RETRANSMIT"]
        fate = rng.choice(["ack", "ack", "rst", "piggy", "sep", "respnoack", "silent", "foreign", "ackdup", "piggywrongtok"])
        if not con:
            fate = rng.choice(["nonresp", "silent", "conresp"])
        k = rng.randint(1, maxcopy)
        gap_after_k = ito * (2 ** (k - 1))
        pos = rng.choice(["early", "late", "at", "mid"])
        delay = {"early": 1, "late": gap_after_k - 1, "at": gap_after_k, "mid": max(1, gap_after_k // 2)}[pos]
        f2 = rng.choice([0.0, 0.5, 1.0])
        on = {"q": q, "copy": k}
        if fate in ("ack", "ackdup"):
            triggers.append({"on": on, "delay": delay, "rx": {"r": r, "ty": "ACK", "mid": {"of": q}, "f": f2}})
            if fate == "ackdup":
                triggers.append({"on": on, "delay": delay + 3, "rx": {"r": r, "ty": "ACK", "mid": {"of": q}, "f": f2}})
        elif fate == "rst":
            triggers.append({"on": on, "delay": delay, "rx": {"r": r, "ty": "RST", "mid": {"of": q}, "f": f2}})
        elif fate == "piggy":
            triggers.append(
                {"on": on, "delay": delay, "rx": {"r": r, "ty": "ACK", "mid": {"of": q}, "tok": {"of": q}, "code": 69, "f": f2}}
            )
        elif fate == "piggywrongtok":
            # an ACK under the exchange's message ID that carries a response with a token of no request (or of
            # another one): it acknowledges the message all the same (the statement speaks of the message ID)
            wrong = {"of": rng.randint(1, q - 1)} if q > 1 and rng.random() < 0.5 else "%04x" % rng.randint(0, 65535)
            triggers.append({"on": on, "delay": delay, "rx": {"r": r, "ty": "ACK", "mid": {"of": q}, "tok": wrong, "code": 69, "f": f2}})
        elif fate == "sep":
            triggers.append({"on": on, "delay": delay, "rx": {"r": r, "ty": "ACK", "mid": {"of": q}, "f": f2}})
            triggers.append(
                {
                    "on": on,
                    "delay": delay + rng.choice([1, 500, 5000]),
                    "rx": {"r": r, "ty": rng.choice(["CON", "NON"]), "mid": rng.randint(0, 65535), "tok": {"of": q}, "code": 69},
                }
            )
        elif fate == "respnoack":
            triggers.append(
                {"on": on, "delay": delay, "rx": {"r": r, "ty": rng.choice(["CON", "NON"]), "mid": rng.randint(0, 65535), "tok": {"of": q}, "code": 69}}
            )
        elif fate == "foreign":
            other = (r % 3) + 1
            triggers.append({"on": on, "delay": delay, "rx": {"r": r, "ty": "ACK", "mid": {"wrong": q, "delta": rng.randint(1, 9)}}})
            triggers.append({"on": on, "delay": delay, "rx": {"r": other, "ty": rng.choice(["ACK", "RST"]), "mid": {"of": q}}})
        elif fate in ("nonresp", "conresp"):
            triggers.append(
                {
                    "on": {"q": q, "copy": 1},
                    "delay": rng.choice([1, 700]),
                    "rx": {"r": r, "ty": "NON" if fate == "nonresp" else "CON", "mid": rng.randint(0, 65535), "tok": {"of": q}, "code": 69},
                }
            )
    if rng.random() < 0.2:
        steps.append({"at": t + rng.choice([1, c["ATmin"] + 1, 4 * c["ATmax"]]), "do": "err", "r": rng.randint(1, nrem)})
        steps.sort(key=lambda s: s["at"])
    return {
        "tuning": tuning,
        "mid0": rng.choice([0, 1, 65533, 65535, rng.randint(0, 65535)]),
        "tok0": rng.randint(0, 65535),
        "nremotes": 4,
        "steps": steps,
        "triggers": triggers,
    }


def sig_of(clause, sched):
    """Stable identification of a failing history: clause + shape of the schedule."""
    shape = []
    for s in sched["steps"]:
        shape.append(s["do"] + (":con" if s.get("con") else "") + (":" + s["ty"] if "ty" in s else ""))
    for tr in sched.get("triggers", ()):
        shape.append("on%d:%s%s" % (tr["on"]["copy"], tr["rx"]["ty"], ":resp" if tr["rx"].get("code") else ""))
    return "%s|%s|mr=%s" % (clause, ",".join(shape), sched["tuning"].get("MAX_RETRANSMIT"))


def check(rep, args, prefix, emphasis):
    quick = args.tier == "quick"
    seed = args.seed
    rng = random.Random(seed * 7919 + (3 if prefix == "C03_" else 14))
    mc_consts = (
        dict(mr=1, nreqs=2, midspace=3, maxtime=10, maxenv=2)
        if quick
        else dict(mr=1, nreqs=2, midspace=3, maxtime=10, maxenv=3)
    )
    sim_consts = dict(mr=2, nreqs=3, midspace=4, maxtime=22, maxenv=6)
    nsim = 300 if quick else 3000
    nrand = 400 if quick else 6000
    with tlc.Workdir() as wd:
        # 1. exhaustive model check
        wd.write("MsgClient_run.cfg", MC_CFG % mc_consts)
        mc = tlc.run(wd, "MsgClient.tla", "MsgClient_run.cfg", timeout=900 if quick else 3000, coverage=False)
        tlc.need_ok_run(mc, "MsgClient model check")
        design_violation = None
        if mc.violated:
            design_violation = mc
        wd.write("MsgClient_live.cfg", LIVE_CFG)
        live = tlc.run(wd, "MsgClient.tla", "MsgClient_live.cfg", timeout=600)
        tlc.need_ok_run(live, "MsgClient liveness")
        # 2. behaviours of the model
        wd.write("MsgClient_sim.cfg", SIM_CFG % sim_consts)
        simdir = wd.file("sim")
        os.makedirs(simdir)
        sim = tlc.run(
            wd,
            "MsgClient.tla",
            "MsgClient_sim.cfg",
            workers=1,
            timeout=600,
            simulate="file=%s/tr,num=%d" % (simdir, nsim),
            depth=40,
            seed=seed + 1,
        )
        tlc.need_ok_run(sim, "MsgClient simulation")
        behaviours = tlc.read_sim_traces(os.path.join(simdir, "tr"))
        if mc.error_trace:
            behaviours.append(mc.error_trace)
        model_scheds = []
        for beh in behaviours:
            s, exp = behaviour_to_schedule(beh, sim_consts["mr"] if beh is not mc.error_trace else mc_consts["mr"])
            if s["steps"]:
                model_scheds.append((s, exp))
        # 3. random schedules
        rand_scheds = []
        for i in range(nrand):
            rand_scheds.append(random_schedule(rng, TUNINGS[i % len(TUNINGS)], emphasis))
        all_scheds = [s for s, _ in model_scheds] + rand_scheds
        results = run_all(all_scheds)
        for s, res in zip(all_scheds, results):
            if "error" in res:
                raise MachineryError("driver failed on schedule %s\n%s" % (json.dumps(s)[:400], res["error"]))
        # spec -> code comparison
        ndrift = 0
        for (s, exp), res in zip(model_scheds, results):
            d = compare(resolve_mids(exp, res["meta"], s["mid0"]), res["events"])
            if d:
                ndrift += 1
                rep.add_drift("model behaviour not reproduced by implementation: " + d)
        # code -> spec: TLC evaluates the clauses on every real trace, grouped by constants
        groups = {}
        offgrid = set()
        for idx, (s, res) in enumerate(zip(all_scheds, results)):
            c = dict(tuning_consts(s["tuning"]), Tol=0)
            if any(e["t"] < 0 for e in res["events"]):
                # a timer was armed with a value that is no multiple of 2^-10 s (the implementation draws its
                # random numbers in a way the harness does not steer): judge in units of 2^-20 s, with a
                # tolerance for the float rounding of loop.time() + delay
                offgrid.add(idx)
                for e in res["events"]:
                    e["t"] = e["tf"]
                c = dict(ATmin=c["ATmin"] * 1024, ATmax=c["ATmax"] * 1024, MaxRetransmit=c["MaxRetransmit"], Tol=8)
            groups.setdefault(tuple(sorted(c.items())), []).append(idx)
        if offgrid:
            rep.add_drift("%d of %d recorded executions have instants off the 2^-10 s grid (initial timeouts not drawn through "
                          "random.uniform/random.random as steered by the harness); judged at 2^-20 s with tolerance, strict validation skipped"
                          % (len(offgrid), len(all_scheds)))
        validated = 0
        nontrivial = set()
        for ckey, idxs in groups.items():
            consts = dict(ckey)
            traces = [results[i]["events"] for i in idxs]
            verdicts, r = tracecheck.validate(wd, "MsgClientTrace", "MsgClientTrace.cfg.tmpl", consts, traces)
            validated += len(traces)
            for i, v in zip(idxs, verdicts):
                ev = results[i]["events"]
                kinds = tuple(e["k"] + e["ty"] for e in ev)
                if sum(1 for e in ev if e["k"] == "tx") >= 2:
                    nontrivial.add(kinds)
                mine = sorted(c for c in v["bad"] if c.startswith(prefix))
                for clause in mine:
                    rep.violation(
                        clause,
                        sig_of(clause, all_scheds[i]),
                        "clause %s false at event %d of a recorded execution (%d events); consts %s"
                        % (clause, v["at"][clause], len(ev), consts),
                        {"schedule": all_scheds[i], "events": ev, "consts": consts, "meta": results[i]["meta"]},
                    )
                meta = results[i]["meta"]
                if meta["loop_exceptions"]:
                    rep.add_drift("exception in event loop during client schedule: %s" % meta["loop_exceptions"][:1])
        # strict validation: every recorded execution must be a behaviour of MsgClient itself (all in TLC)
        strict_total = strict_ok = 0
        for ckey, idxs in groups.items():
            consts = dict(ckey)
            if consts["Tol"]:
                continue
            straces = []
            for i in idxs:
                init = dict(results[i]["events"][0], k="init", t=0, mid=all_scheds[i]["mid0"] & 0xFFFF, q=0, r=0, ty="", cls="", con=False, g=0)
                straces.append([init] + causal_order(results[i]["events"]))
            prog = tracecheck.validate_strict(wd, "MsgClientStrict", "MsgClientStrict.cfg.tmpl", consts, straces)
            for i, (reached, n) in zip(idxs, prog):
                strict_total += 1
                if reached >= n:
                    strict_ok += 1
                else:
                    nxt = straces[idxs.index(i)][reached] if reached < n else None
                    rep.add_drift("recorded execution is not a behaviour of MsgClient.tla: %d of %d events explained; next event %s"
                                  % (reached, n, {k: nxt[k] for k in ("k", "t", "r", "ty", "mid", "q", "cls")} if nxt else None))
        rep.coverage["strict_traces_checked"] = strict_total
        rep.coverage["strict_traces_explained_by_model"] = strict_ok
        if design_violation is not None:
            # the model itself admits a bad state: only a reproduced real trace counts
            # (the counterexample was replayed above as part of model_scheds)
            rep.notes.append("model check reported %s; counterexample replayed on the implementation" % design_violation.violated)
            if not rep.violations:
                raise MachineryError(
                    "MsgClient model violates %s but the counterexample does not reproduce on the implementation"
                    % design_violation.violated
                )
        sample_i = len(model_scheds) if rand_scheds else 0
        rep.coverage.update(
            {
                "states": mc.distinct,
                "transitions": mc.generated,
                "depth": mc.depth,
                "mc_constants": mc_consts,
                "liveness_states": live.distinct,
                "traces_validated_against_impl": validated,
                "schedules_from_model_behaviours": len(model_scheds),
                "model_behaviours_reproduced_exactly": len(model_scheds) - ndrift,
                "random_schedules": len(rand_scheds),
                "distinct_event_shapes": len(nontrivial),
                "tunings": TUNINGS,
                "samples": [
                    {"schedule": all_scheds[0], "events": results[0]["events"][:12]},
                    {"schedule": all_scheds[sample_i], "events": results[sample_i]["events"][:12]},
                ],
                "exhaustive": True,
                "checker_cmd": "tlc MsgClient.tla (exhaustive + FairSpec liveness + -simulate) ; tlc MsgClientTrace.tla on recorded traces",
            }
        )
        rep.assumptions += [
            "virtual-time event loop and fake UDP socket stand in for the OS (harness/vloop.py, fakenet.py)",
            "peer never answers a request that has not been transmitted yet (forged early responses are C02's domain)",
            "exhaustive model check uses small constants %s; larger behaviours by simulation" % mc_consts,
        ]
