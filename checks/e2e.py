"""End-to-end phase shared by C02 and C04: spec/EndToEnd.tla (client, server, lossy/duplicating
network; safety + liveness under fairness) checked by TLC; its behaviours' network decisions replayed
between two REAL aiocoap contexts; recorded traces (those + random loss/duplication patterns) validated
by TLC against spec/EndToEndTrace.tla."""

import json
import os
import random

from harness import tlc, tracecheck, MachineryError
from harness import e2edrive

CFG = """SPECIFICATION %(spec)s
CONSTANTS
  MaxRetransmit = %(mr)d
  DropBudget = %(drop)d
  DupBudget = %(dup)d
  Slow = %(slow)s
%(extra)s
"""
SAFETY = "INVARIANT TypeOK\nINVARIANT AtMostOnceExecution\nINVARIANT DoneOnlyAfterExecution\nINVARIANT CopiesBounded"
LIVE = SAFETY + "\nPROPERTY CompletesUnderBoundedLoss\nPROPERTY NeverStuckAwaitingAck"


def decisions_from_hist(hist):
    per = {}
    pending = {}
    skip = {}
    for kind, what in hist:
        lst = per.setdefault(kind, [])
        if what == "dup":
            pending[kind] = pending.get(kind, 0) + 1
        elif what == "drop":
            if pending.get(kind, 0):
                pending[kind] -= 1
            else:
                lst.append("drop")
        else:
            if skip.get(kind, 0):
                skip[kind] -= 1
            elif pending.get(kind, 0):
                pending[kind] -= 1
                skip[kind] = skip.get(kind, 0) + 1
                lst.append("dup")
            else:
                lst.append("deliver")
    return per


def run_phase(rep, args, prefix_filter, mr_real=4):
    """prefix_filter: clause names (set) this property reports; others are ignored here."""
    quick = args.tier == "quick"
    rng = random.Random(args.seed * 4241 + 77)
    states = trans = 0
    behaviours = []
    with tlc.Workdir() as wd:
        for slow in ("TRUE", "FALSE"):
            # liveness + safety, exhaustively (the model is small)
            wd.write("E2E_live.cfg", CFG % dict(spec="FairSpec", mr=2 if quick else 3, drop=2 if quick else 3, dup=1, slow=slow, extra=LIVE))
            r = tlc.run(wd, "EndToEnd.tla", "E2E_live.cfg", timeout=1200)
            tlc.need_ok_run(r, "EndToEnd liveness")
            if r.violated:
                raise MachineryError("EndToEnd model violates %s" % r.violated)
            states += r.distinct
            trans += r.generated
            # loss beyond the budget: safety still holds
            wd.write("E2E_safe.cfg", CFG % dict(spec="Spec", mr=2, drop=4, dup=2, slow=slow, extra="VIEW View\n" + SAFETY))
            r2 = tlc.run(wd, "EndToEnd.tla", "E2E_safe.cfg", timeout=1200)
            tlc.need_ok_run(r2, "EndToEnd safety")
            if r2.violated:
                raise MachineryError("EndToEnd model violates %s" % r2.violated)
            states += r2.distinct
            trans += r2.generated
            wd.write("E2E_sim.cfg", CFG % dict(spec="Spec", mr=mr_real, drop=6, dup=0, slow=slow, extra=""))  # duplicates only in the random schedules: per-occurrence decisions then map exactly
            simdir = wd.file("sim" + slow)
            os.makedirs(simdir)
            sim = tlc.run(wd, "EndToEnd.tla", "E2E_sim.cfg", workers=1, timeout=600,
                          simulate="file=%s/tr,num=%d" % (simdir, 100 if quick else 1000), depth=60, seed=args.seed + 3)
            tlc.need_ok_run(sim, "EndToEnd simulation")
            for b in tlc.read_sim_traces(os.path.join(simdir, "tr")):
                behaviours.append((slow == "TRUE", b))
        model = []
        for slow, b in behaviours:
            last = b[-1][1]
            hist = [tuple(x) for x in last.get("hist", [])]
            sched = {"slow": slow, "net": decisions_from_hist(hist), "tuning": {"EMPTY_ACK_DELAY": 0.125}, "nreq": 1, "horizon": 420}
            quiet = all(v == 0 for v in (last["net"].values() if isinstance(last["net"], dict) else []))
            model.append((sched, last["c"]["st"], last["s"]["calls"], quiet))
        rand = []
        kinds = ["REQ", "PIGGY", "EACK", "SEP", "SACK", "RST"]
        for _ in range(200 if quick else 3000):
            net = {k: [rng.choices(["deliver", "drop", "dup"], weights=[5, 3, 1])[0] for _ in range(6)] for k in kinds}
            rand.append({"slow": rng.random() < 0.5, "net": net, "tuning": {"EMPTY_ACK_DELAY": 0.125}, "nreq": rng.choice([1, 1, 2]),
                         "delay": rng.choice([1, 8, 60]), "handler_delay": rng.choice([130, 300, 900]), "horizon": 420})
        scheds = [m[0] for m in model] + rand
        results = e2edrive.run_all(scheds)
        for s, res in zip(scheds, results):
            if "error" in res:
                raise MachineryError("e2e driver failed on %s\n%s" % (json.dumps(s)[:300], res["error"]))
        ndrift = 0
        for (sched, cst, calls, quiet), res in zip(model, results):
            if cst not in ("done", "failed"):
                continue  # behaviour cut before the request's fate was decided
            real_done = [e for e in res["events"] if e["k"] == "done"]
            real_calls = sum(1 for e in res["events"] if e["k"] == "call")
            got = "none" if not real_done else ("done" if real_done[0]["cls"] == "resp" else "failed")
            # the model abstracts from the magnitudes of the timers, so where two timers race it may give up
            # where the real timing still completes; the converse (model completes, code does not) and a
            # different number of handler executions are genuine disagreements
            if (cst == "done" and got != "done") or real_calls > 1 or (cst == "done" and real_calls != calls):
                ndrift += 1
                rep.add_drift("end-to-end behaviour: model ends with client %s / %d handler call(s), implementation %s / %d (network decisions %s)"
                              % (cst, calls, got, real_calls, json.dumps(sched["net"])[:200]))
        groups = {}
        nrun = 0
        for i, s in enumerate(scheds):
            if any(e["k"] == "runaway" for e in results[i]["events"]):
                nrun += 1      # not a run this model can judge: the other phases see the endpoint's reactions one by one
                continue
            groups.setdefault(s["nreq"], []).append(i)
        if nrun:
            rep.add_drift("%d of %d two-endpoint runs did not come to rest (the endpoints kept answering each other); not judged here" % (nrun, len(scheds)))
        nval = 0
        for nreq, idxs in groups.items():
            traces = [results[i]["events"] for i in idxs]
            verdicts, r = tracecheck.validate(wd, "EndToEndTrace", "EndToEndTrace.cfg.tmpl", {"MaxRetransmit": mr_real, "NReq": nreq}, traces)
            nval += len(traces)
            for i, v in zip(idxs, verdicts):
                for clause in sorted(v["bad"]):
                    if clause not in prefix_filter:
                        continue
                    drops = sum(1 for e in results[i]["events"] if e["k"] == "tx" and e["cls"] == "drop")
                    rep.violation(clause, "%s|e2e|slow=%s|drops=%d" % (clause, scheds[i]["slow"], min(drops, 9)),
                                  "clause %s false at event %d of a recorded two-endpoint execution (%d events, %d datagrams dropped)"
                                  % (clause, v["at"][clause], len(results[i]["events"]), drops),
                                  {"schedule": scheds[i], "events": results[i]["events"], "meta": results[i]["meta"]})
    rep.coverage["e2e_states"] = states
    rep.coverage["e2e_transitions"] = trans
    rep.coverage["e2e_traces_validated"] = nval
    rep.coverage["e2e_model_behaviours_replayed"] = len(model)
    rep.coverage["e2e_model_behaviours_agreeing"] = len(model) - ndrift
    rep.coverage["traces_validated_against_impl"] = rep.coverage.get("traces_validated_against_impl", 0) + nval
    rep.coverage.setdefault("samples", []).append({"schedule": scheds[-1], "events": results[-1]["events"][:14]})
    rep.assumptions.append("end-to-end phase: network delays (<= 60/1024 s) are short compared with the retransmission timers, as in spec/EndToEnd.tla")
