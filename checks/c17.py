"""C17 -- Site routing: exact match, longest prefix for nested sites, matching discovery.

1. TLC exhaustively checks spec/SiteRouting.tla for small bounds: every
   registration tree within the bound, every request path / model filter
   quantified inside the invariants (exact wins, longest prefix, removal falls
   back, routable => listed, listing sound, filter sanity).
2. spec -> code: behaviours of that model (tlc -simulate; every step carries
   the operation `act' and the expected outcome `exp' computed by the reference
   operators Route / Listing / Filter) are replayed on live aiocoap Site
   objects behind a real server Context on the fake network.
3. Randomised histories beyond the model's constants (deeper nesting, longer
   paths, other attributes, request queries) are generated here, their
   expected outcomes are computed by TLC (spec/SiteRoutingEval.tla folds the
   same operators over the JSON histories), and they are replayed both through
   a real Context and through Site.render directly.

A clause is reported only when the *real* Site gave an answer that differs
from what TLC evaluated from the specification."""

import json
import os
import random
import re
import sys
import time
import urllib.parse
from concurrent.futures import ThreadPoolExecutor
from multiprocessing import Pool

from harness import tlc, tlaval, runner, MachineryError

CONSTS = """CONSTANTS
  Root = "S0"
  SubSites = %(subsites)s
  Leaves = %(leaves)s
  ResIds = %(resids)s
  Segs <- %(segs)s
  MaxRegLen = %(reglen)d
  MaxReqLen = %(reqlen)d
  MaxEntries = %(entries)d
  WithQueries = %(queries)s
"""

INVARIANTS = [
    "TypeOK",
    "ExactWins",
    "LongestPrefix",
    "SeenIsSuffix",
    "AddTakesEffect",
    "RemovalFallsBack",
    "RoutableListed",
    "ListingSound",
    "HiddenNeverListed",
    "FilterSane",
]

MC_CFG = "SPECIFICATION Spec\n" + CONSTS + "VIEW View\n" + "".join("INVARIANT %s\n" % i for i in INVARIANTS)
SIM_CFG = "SPECIFICATION Spec\n" + CONSTS + "INVARIANT TypeOK\n"
EVAL_CFG = "SPECIFICATION EvalSpec\n" + CONSTS

EVAL_CONSTS = dict(subsites="{}", leaves="{}", resids="{}", segs="Segs2", reglen=0, reqlen=0, entries=0, queries="FALSE")

CLAUSES = [
    "C17_RouteExact",
    "C17_RouteLongestPrefix",
    "C17_NotFound404",
    "C17_AddRemoveImmediate",
    "C17_StrippedPath",
    "C17_ReconstructUri",
    "C17_WkcListsExactly",
    "C17_FilterExact",
]

MAX_REPORTED_PER_CLAUSE = 3


# -- conversions between the spec's character sequences and Python strings --------
def chars(s):
    return list(s)


def hist_to_tla_json(h):
    W = h["W"]
    return {
        "W": {
            "root": W["root"],
            "sites": W["sites"],
            "leaves": W["leaves"],
            "attrs": {
                r: {"hidden": a["hidden"], "bare": bool(a.get("bare", False)), "pairs": [[chars(k), chars(v)] for k, v in a["pairs"]]}
                for r, a in W["attrs"].items()
            },
        },
        "ops": [
            {
                "op": o["op"],
                "site": o["site"],
                "path": [chars(x) for x in o["path"]],
                "id": o["id"],
                "query": chars(o["query"]),
                "key": chars(o["key"]),
                "val": chars(o["val"]),
                "star": bool(o["star"]),
                "method": o.get("method", "GET"),
                "con": bool(o.get("con", False)),
                "host": chars(o.get("host", "")),
                "port": int(o.get("port", 0)),
            }
            for o in h["ops"]
        ],
    }


def _join(v):
    return "".join(v)


def act_to_op(a):
    return {
        "op": a["op"],
        "site": a["site"],
        "path": [_join(x) for x in a["path"]],
        "id": a["id"],
        "query": _join(a["query"]),
        "key": _join(a["key"]),
        "val": _join(a["val"]),
        "star": bool(a["star"]),
        "method": a["method"],
        "con": bool(a["con"]),
        "host": _join(a["host"]),
        "port": int(a["port"]),
    }


def exp_from_tla(e):
    """Expected outcome parsed by tlaval (sets are frozensets of frozen
    records) -> the JSON shape SiteRoutingEval writes."""
    if e["kind"] != "links":
        return e

    def links(fs):
        out = []
        for l in fs:
            d = dict(l)
            out.append({"href": d["href"], "pairs": [list(p) for p in d["pairs"]]})
        return out

    return {"kind": "links", "all": links(e["all"]), "sel": links(e["sel"])}


_re_var = re.compile(r"^/\\ (\w+) = ", re.M)


def read_behaviour(path):
    """[(op, exp)] from one `-simulate file=` output; only `act' and `exp' are
    parsed (st / prev are bulky and not needed for the replay)."""
    text = open(path).read()
    res = []
    for body in re.split(r"^STATE_\d+ ==", text, flags=re.M)[1:]:
        a = e = None
        for m in _re_var.finditer(body):
            if m.group(1) == "act":
                a, _ = tlaval.parse_prefix(body, m.end())
            elif m.group(1) == "exp":
                e, _ = tlaval.parse_prefix(body, m.end())
        if a is None or e is None:
            raise MachineryError("simulation file %s: state without act/exp" % path)
        if a["op"] == "init":
            continue
        res.append((act_to_op(a), exp_from_tla(e)))
    return res


# -- judging one operation ----------------------------------------------------------
def _norm_links(L):
    return frozenset((l["href"], frozenset((k, v) for k, v in l["pairs"])) for l in L)


def _norm_obs_links(L):
    return frozenset((href, frozenset((k, v) for k, v in pairs)) for href, pairs in L)


def _fmt_links(S):
    return sorted("<%s>%s" % (h, "".join(';%s="%s"' % p for p in sorted(a, key=str))) for h, a in S)


def uri_ok(observed, expected, host="", port=0):
    """The URI the handler reconstructed denotes the original path (+ query)
    and -- where the request named them in Uri-Host / Uri-Port -- the original
    authority (otherwise any authority is accepted)."""
    try:
        u = urllib.parse.urlsplit(observed)
        uport = u.port
    except ValueError:
        return False
    if u.scheme != "coap" or not u.netloc:
        return False
    if host and (u.hostname or "") != host.lower():
        return False
    if port and uport != port:
        return False
    got = u.path + ("?" + u.query if u.query else "")
    if got == expected:
        return True
    # an empty path and "/" are the same URI (RFC 3986 6.2.3)
    return ("/" + got if not got.startswith("/") else got) == expected


def filter_class(o, extra, missing, exp_all):
    key = o["key"] if o["key"] in ("href", "rt", "if", "ct", "title", "rel", "anchor", "type", "sz") else "custom"
    if extra and missing:
        kind = "both"
    elif extra:
        lack = all(o["key"] not in {k for k, _ in a} for _, a in extra) and o["key"] != "href"
        kind = "extra-lacking-attr" if lack else "extra"
    else:
        kind = "missing"
    return "%s|%s|%s|%s" % (key, "prefix" if o["star"] else "exact", "empty" if not o["val"] else "nonempty", kind)


def judge(o, exp, obs):
    """-> list of (clause, sigclass or None, detail)"""
    out = []
    if exp["kind"] == "domain":
        raise MachineryError("history left the statement's domain at %r" % (o,))
    if o["op"] in ("add", "addsite", "remove"):
        if obs["kind"] != "ok":
            out.append(("C17_AddRemoveImmediate", None, "%s: %s" % (o["op"], obs.get("what"))))
        return out
    if o["op"] == "request":
        stale = exp["stale"]
        eshort = (exp["kind"], exp["id"], exp["seen"])
        sshort = (stale["kind"], stale["id"], stale["seen"])
        oshort = (obs["kind"], obs.get("id", ""), obs.get("seen", []))
        what = "%s%s %s: expected %s, observed %s" % (
            "CON " if o.get("con") else "",
            o.get("method", "GET"),
            "/" + "/".join(o["path"]),
            "4.04" if exp["kind"] == "nf" else "resource %s given Uri-Path %s" % (exp["id"], exp["seen"]),
            {"nf": "4.04", "hit": "resource %s given Uri-Path %s" % (obs.get("id"), obs.get("seen"))}.get(obs["kind"], obs.get("what")),
        )
        if exp["kind"] == "nf":
            if obs["kind"] != "nf":
                cl = "C17_AddRemoveImmediate" if (sshort != eshort and oshort == sshort) else "C17_NotFound404"
                out.append((cl, None, what))
            return out
        if obs["kind"] != "hit" or obs["id"] != exp["id"]:
            if sshort != eshort and oshort == sshort:
                cl = "C17_AddRemoveImmediate"
            else:
                cl = "C17_RouteExact" if exp["via"] == "exact" else "C17_RouteLongestPrefix"
            out.append((cl, None, what))
            return out
        if list(obs["seen"]) != list(exp["seen"]):
            out.append(("C17_StrippedPath", None, what))
        if not uri_ok(obs["uri"], exp["uri"], exp.get("host", ""), exp.get("port", 0)):
            out.append(
                (
                    "C17_ReconstructUri",
                    None,
                    "request %s: handler reconstructed %r, original URI has path/query %r%s%s"
                    % (
                        "/" + "/".join(o["path"]),
                        obs["uri"],
                        exp["uri"],
                        ", host %r" % exp["host"] if exp.get("host") else "",
                        ", port %d" % exp["port"] if exp.get("port") else "",
                    ),
                )
            )
        return out
    if o["op"] == "discover":
        if obs["kind"] != "links" and "all" not in obs:
            out.append(("C17_WkcListsExactly", None, "no listing: %s" % obs.get("what")))
            return out
        eall, oall = _norm_links(exp["all"]), _norm_obs_links(obs["all"])
        if eall != oall:
            out.append(
                (
                    "C17_WkcListsExactly",
                    None,
                    "listing differs: missing %s, unexpected %s" % (_fmt_links(eall - oall), _fmt_links(oall - eall)),
                )
            )
            return out
        if o["key"]:
            q = "%s=%s%s" % (o["key"], o["val"], "*" if o["star"] else "")
            if obs["kind"] != "links":
                out.append(("C17_FilterExact", "%s|noanswer" % o["key"], "?%s: %s" % (q, obs.get("what"))))
                return out
            esel, osel = _norm_links(exp["sel"]), _norm_obs_links(obs["sel"])
            if esel != osel:
                extra, missing = osel - esel, esel - osel
                out.append(
                    (
                        "C17_FilterExact",
                        filter_class(o, extra, missing, eall),
                        "?%s on listing %s: missing %s, unexpected %s" % (q, _fmt_links(eall), _fmt_links(missing), _fmt_links(extra)),
                    )
                )
        return out
    raise MachineryError("unknown op %r" % (o,))


def _path(p):
    return "/".join(x if x else "''" for x in p) if p else "()"


def history_text(ops):
    t = []
    for o in ops:
        if o["op"] == "add":
            t.append("%s+%s=%s" % (o["site"], _path(o["path"]), o["id"]))
        elif o["op"] == "addsite":
            t.append("%s+%s>%s" % (o["site"], _path(o["path"]), o["id"]))
        elif o["op"] == "remove":
            t.append("%s-%s" % (o["site"], _path(o["path"])))
        elif o["op"] == "request":
            how = "" if o.get("method", "GET") == "GET" else o["method"] + " "
            auth = ("@" + o.get("host", "") + (":%d" % o["port"] if o.get("port") else "")) if (o.get("host") or o.get("port")) else ""
            t.append("?%s%s%s%s" % (how, _path(o["path"]), "?" + o["query"] if o["query"] else "", auth))
        else:
            t.append("wkc?%s=%s%s" % (o["key"], o["val"], "*" if o["star"] else "") if o["key"] else "wkc")
    return ";".join(t)


def examine(item):
    """Worker: replay one history on the real code and judge every operation.
    item = {"src", "mode", "W", and either "file" (simulation file) or "ops"+"exps"}"""
    try:
        from harness import sitedrive

        if "file" in item:
            pairs = read_behaviour(item["file"])
            ops = [p[0] for p in pairs]
            exps = [p[1] for p in pairs]
        else:
            ops, exps = item["ops"], item["exps"]
        if len(ops) != len(exps):
            raise MachineryError("history with %d operations but %d expectations" % (len(ops), len(exps)))
        hist = {"W": item["W"], "ops": ops, "mode": item["mode"]}
        res = sitedrive.run_history(hist)
        obs = res["obs"]
        if len(obs) != len(ops):
            raise MachineryError("driver returned %d observations for %d operations" % (len(obs), len(ops)))
        stats = {}

        def bump(k, n=1):
            stats[k] = stats.get(k, 0) + n

        viol = []
        asked_before = set()
        bare = {r for r, a in item["W"]["attrs"].items() if a.get("bare")}
        for i, (o, e, b) in enumerate(zip(ops, exps, obs)):
            bump("ops")
            if o["op"] == "request":
                bump("requests")
                bump("expect_" + e["via"])
                changed = (e["stale"]["kind"], e["stale"]["id"], e["stale"]["seen"]) != (e["kind"], e["id"], e["seen"])
                if tuple(o["path"]) in asked_before:
                    bump("requests_asked_before")
                    if changed:
                        bump("requests_asked_before_whose_answer_the_last_mutation_changed")
                        if e["kind"] == "hit" and e["via"] == "prefix" and e["stale"]["kind"] == "hit":
                            bump("reasked_prefix_route_changed_by_last_mutation")
                asked_before.add(tuple(o["path"]))
                if o.get("method", "GET") != "GET":
                    bump("requests_not_GET")
                    if e["kind"] == "nf":
                        bump("expect_none_not_GET")
                if o.get("con"):
                    bump("requests_CON")
                if (o.get("host") or o.get("port")) and e["kind"] == "hit" and e["via"] == "prefix":
                    bump("named_authority_through_nested_site")
                if e["kind"] == "hit" and e["id"] in bare:
                    bump("expect_bare_resource")
                if e["kind"] == "hit" and e["seen"]:
                    bump("expect_nonempty_stripped_path")
                if (e["stale"]["kind"], e["stale"]["id"], e["stale"]["seen"]) != (e["kind"], e["id"], e["seen"]):
                    bump("requests_whose_answer_the_last_mutation_changed")
            elif o["op"] == "discover":
                bump("listings")
                bump("links_expected", len(e["all"]))
                if any(not l["pairs"] for l in e["all"]):
                    bump("listings_with_attributeless_link")
                if o["key"]:
                    bump("filters")
                    if o["key"] not in MULTI_VALUED and o["key"] != "href" and " " in o["val"]:
                        bump("filters_single_valued_with_space")
                    if 0 < len(e["sel"]) < len(e["all"]):
                        bump("filters_selecting_proper_subset")
            else:
                bump("mutations")
            for clause, sigclass, detail in judge(o, e, b):
                # replay data: the mutations so far plus the failing operation
                # (and earlier requests for the same path: the implementation may remember them)
                core = [
                    x
                    for x in ops[:i]
                    if x["op"] in ("add", "addsite", "remove") or (x["op"] == "request" and o["op"] == "request" and x["path"] == o["path"])
                ] + [o]
                viol.append(
                    {
                        "clause": clause,
                        "sigclass": sigclass,
                        "detail": detail,
                        "history": {"W": item["W"], "ops": core, "mode": item["mode"]},
                        "expected": e,
                        "observed": b,
                        "src": item["src"],
                    }
                )
        sample = None
        if item.get("want_sample"):
            sample = [
                {"op": history_text([o]), "expected": e if e["kind"] != "links" else {"kind": "links", "sel": sorted(l["href"] for l in e["sel"])}, "observed": b if b["kind"] != "links" else {"kind": "links", "sel": sorted(l[0] for l in b["sel"])}}
                for o, e, b in list(zip(ops, exps, obs))[:14]
            ]
        return {"viol": viol, "stats": stats, "loop_exceptions": res["loop_exceptions"], "log_errors": res["log_errors"], "sample": sample}
    except Exception:
        import traceback

        return {"error": traceback.format_exc()}


# -- randomised histories beyond the model's constants --------------------------------
SEGS = ["a", "b", "c", "d", "s1", "temp", "x", "", "", ".well-known", "core", "a", "A", "Temp"]
KEYS = ["rt", "if", "ct", "title", "foo", "sz"]
VALUES = {
    "rt": ["temperature", "Temperature", "temp", "core.rd", "core.rd core.rd-lookup", "t1 t2 t3", "x", "ab abc"],
    "if": ["sensor", "core.ll", "core.b core.ll", "s"],
    "ct": ["0", "40", "0 41", "41 60 0", "4"],
    # single-valued attributes: a space is part of the value
    "title": ["Sensor", "sensor", "Light", "S", "Living room", "room"],
    "foo": ["bar", "barley", "b", "ar", "bar baz", "baz"],
    "sz": ["1", "100", "10"],
}


MULTI_VALUED = ("rt", "if", "ct")
METHODS = ["GET", "GET", "GET", "POST", "PUT", "PUT", "DELETE", "DELETE", "FETCH"]


def gen_world(rng):
    nsites = rng.randint(2, 5)
    sites = ["S%d" % i for i in range(nsites)]
    leaves = ["L%d" % i for i in range(1, rng.randint(1, 3) + 1)]
    attrs = {"wkc": {"hidden": False, "bare": False, "pairs": [["ct", "40"]]}}
    for i in range(1, rng.randint(4, 9) + 1):
        keys = [k for k in KEYS if rng.random() < 0.35]
        attrs["r%d" % i] = {"hidden": rng.random() < 0.2, "bare": False, "pairs": [[k, rng.choice(VALUES[k])] for k in keys]}
    # one resource that implements interfaces.Resource only (no link description method)
    attrs["r%d" % (len(attrs))] = {"hidden": False, "bare": True, "pairs": []}
    # nested sites that are registered through a PathCapable wrapper which is not a Site
    wrapped = [s for s in sites[1:] if rng.random() < 0.4]
    return {"root": "S0", "sites": sites, "leaves": leaves, "wrapped": wrapped, "attrs": attrs}


def gen_history(rng, nops, mode):
    """Generator bookkeeping (res/sub) only serves to stay inside the domain
    and to aim requests near registered paths; expectations come from TLC."""
    W = gen_world(rng)
    sites, leaves = W["sites"], W["leaves"]
    rids = [r for r in W["attrs"] if r != "wkc"]
    res = {s: {} for s in sites}
    sub = {s: {} for s in sites}
    res["S0"][(".well-known", "core")] = "wkc"
    ops = []

    def mk(op, site="S0", path=(), id="", query="", key="", val="", star=False, method="GET", con=False, host="", port=0):
        return {
            "op": op, "site": site, "path": list(path), "id": id, "query": query, "key": key, "val": val, "star": star,
            "method": method, "con": con, "host": host, "port": port,
        }  # fmt: skip

    recent = []  # request paths issued lately (distinct, newest last)

    def request(p, q=""):
        p = tuple(p)
        if p in recent:
            recent.remove(p)
        recent.append(p)
        del recent[:-6]
        ops.append(
            mk(
                "request", "S0", p, query=q,
                method=rng.choice(METHODS),
                con=rng.random() < 0.3,
                host=rng.choice(["", "", "v.example", "sensors.example.org"]),
                port=rng.choice([0, 0, 0, 61616, 5684]),
            )
        )  # fmt: skip

    def ask_again():
        """after a mutation: what was asked before is asked again"""
        for p in rng.sample(recent, min(3, len(recent))):
            request(p)

    def below(c):
        seen, todo = {c}, [c]
        while todo:
            x = todo.pop()
            for v in sub[x].values():
                if v in sub and v not in seen:
                    seen.add(v)
                    todo.append(v)
        return seen

    def known_paths():
        ps = [p for s in sites for p in list(res[s]) + list(sub[s])]
        return ps or [()]

    def reg_path(minlen):
        if rng.random() < 0.5:
            p = list(rng.choice(known_paths()))
            r = rng.random()
            if r < 0.4 and p:
                p = p[:-1]
            elif r < 0.8:
                p = p + [rng.choice(SEGS)]
        else:
            p = [rng.choice(SEGS) for _ in range(rng.randint(0, 3))]
        p = p[:4]
        while len(p) < minlen:
            p.append(rng.choice([s for s in SEGS if s]))
        return tuple(p)

    def full_paths():
        """request paths that reach registered things, through nested sites"""
        out = []
        todo = [("S0", (), 0)]
        while todo:
            s, pre, d = todo.pop()
            for p, r in res[s].items():
                out.append(pre + (p if (p or not pre) else ("",)))
            for p, c in sub[s].items():
                if c in sub:
                    if d < 5:
                        todo.append((c, pre + p, d + 1))
                else:
                    out.append(pre + p + tuple(rng.choice(SEGS) for _ in range(rng.randint(0, 2))))
        return out or [()]

    def req_path():
        if rng.random() < 0.75:
            p = list(rng.choice(full_paths()))
            r = rng.random()
            if r < 0.45:
                pass
            elif r < 0.55:
                p = p + [""]
            elif r < 0.65:
                p = p[:-1]
            elif r < 0.8:
                p = p + [rng.choice(SEGS)]
            elif r < 0.9 and p:
                p[rng.randrange(len(p))] = rng.choice(SEGS)
            else:
                p = p + [rng.choice(SEGS), rng.choice(SEGS)]
        else:
            p = [rng.choice(SEGS) for _ in range(rng.randint(0, 5))]
        p = tuple(p[:8])
        return () if p == (".well-known", "core") else p

    def a_filter():
        used = [(k, v) for a in W["attrs"].values() for k, v in a["pairs"]]
        r = rng.random()
        if r < 0.25:
            hrefs = ["/" + "/".join(p) for p in full_paths()]
            h = rng.choice(hrefs)
            m = rng.random()
            if m < 0.35:
                return "href", h, False
            if m < 0.7:
                return "href", h[: rng.randint(0, len(h))], True
            if m < 0.85:
                return "href", h[rng.randint(0, len(h)) :], True
            return "href", h.swapcase(), rng.random() < 0.5  # paths are case-sensitive
        if r < 0.35 or not used:
            return rng.choice(["zz", "rt", "if", "ct", "title", "foo"]), rng.choice(["", "x", "4"]), rng.random() < 0.6
        k, v = rng.choice(used)
        # an item of the value; for single-valued attributes also the whole value (spaces included)
        part = rng.choice(v.split(" ")) if (k in MULTI_VALUED or rng.random() < 0.5) else v
        m = rng.random()
        if m < 0.3:
            return k, part, False
        if m < 0.55:
            return k, part[: rng.randint(0, len(part))], True
        if m < 0.7:
            return k, part[rng.randint(0, len(part)) :], True  # a suffix: prefix test must not be a substring test
        if m < 0.8:
            return k, part + "x", rng.random() < 0.5
        if m < 0.92:
            return k, part.swapcase(), rng.random() < 0.5  # values are case-sensitive
        return k, "", True

    guard = 0
    while len(ops) < nops and guard < 20 * nops:
        guard += 1
        build_phase = len(ops) < 10
        r = rng.random()
        if r < (0.85 if build_phase else 0.3):
            before = len(ops)
            m = rng.random()
            aim = [p for p in recent if len(p) >= 2]
            if not build_phase and aim and m < 0.3:
                # aimed at a path that was asked before: a nested site at one of its
                # proper prefixes / a resource at exactly that path, at the root
                P = rng.choice(aim)
                if rng.random() < 0.7:
                    p = P[: rng.randint(1, len(P) - 1)]
                    c = rng.choice(sites[1:] + leaves)
                    sub["S0"][p] = c
                    ops.append(mk("addsite", "S0", p, c))
                elif P != (".well-known", "core"):
                    rid = rng.choice(rids)
                    res["S0"][P] = rid
                    ops.append(mk("add", "S0", P, rid))
            elif m < 0.55:
                s = rng.choice(sites)
                p = reg_path(0)
                if s == "S0" and p == (".well-known", "core"):
                    continue
                rid = rng.choice(rids)
                res[s][p] = rid
                ops.append(mk("add", s, p, rid))
            elif m < 0.8:
                s = rng.choice(sites)
                c = rng.choice(sites[1:] + leaves)
                if c == s or (c in sub and s in below(c)):
                    continue
                p = reg_path(1)
                sub[s][p] = c
                ops.append(mk("addsite", s, p, c))
            else:
                cands = [
                    (s, p)
                    for s in sites
                    for p in set(res[s]) ^ set(sub[s])
                    if not (s == "S0" and p == (".well-known", "core"))
                ]
                if not cands:
                    continue
                s, p = rng.choice(sorted(cands))
                if p in sub[s]:
                    del sub[s][p]
                else:
                    del res[s][p]
                ops.append(mk("remove", s, p))
            if len(ops) > before and not build_phase:
                ask_again()
        elif r < 0.8:
            q = rng.choice(["k=1", "a=b"]) if rng.random() < 0.2 else ""
            request(req_path(), q)
        else:
            if rng.random() < 0.15:
                ops.append(mk("discover", "S0", (".well-known", "core")))
            else:
                k, v, st = a_filter()
                if " " in v and k in MULTI_VALUED:
                    v = v.split(" ")[0]
                ops.append(mk("discover", "S0", (".well-known", "core"), key=k, val=v, star=st))
    return {"W": W, "ops": ops, "mode": mode}


# -- TLC as evaluator -------------------------------------------------------------------
def evaluate(wd, hists, tag, timeout=900, jvm=None):
    """Expected outcomes of every operation of every history, computed by TLC
    from SiteRoutingEval.tla."""
    if not hists:
        return [], None
    inp = wd.file("c17-hist-%s.json" % tag)
    outp = wd.file("c17-exp-%s.json" % tag)
    tlc.dump_json(inp, [hist_to_tla_json(h) for h in hists])
    cfg = "SiteRoutingEval_%s.cfg" % tag
    wd.write(cfg, EVAL_CFG % EVAL_CONSTS)
    r = tlc.run(wd, "SiteRoutingEval.tla", cfg, workers=1, timeout=timeout, env=dict(jvm or {}, C17_HIST=inp, C17_OUT=outp))
    tlc.need_ok_run(r, "SiteRoutingEval")
    done = tlc.printed_values(r, "C17EVAL")
    if not done or done[0][1] != len(hists) or not os.path.exists(outp):
        raise MachineryError("SiteRoutingEval did not evaluate all %d histories\n%s" % (len(hists), r.out[-1500:]))
    exps = json.load(open(outp))
    if len(exps) != len(hists) or any(len(e) != len(h["ops"]) for e, h in zip(exps, hists)):
        raise MachineryError("SiteRoutingEval output does not line up with its input")
    return exps, r


def run_items(items):
    if not items:
        return []
    with Pool(min(16, os.cpu_count() or 4)) as p:
        return p.map(examine, items, chunksize=max(1, len(items) // 128))


def signature(v):
    if v["sigclass"] is not None:
        return "%s|%s" % (v["clause"], v["sigclass"])
    return "%s|%s" % (v["clause"], history_text(v["history"]["ops"]))


def report_violations(rep, viols):
    """Class-signed violations (filters) once per class; history-signed ones:
    the smallest few per clause."""
    by_sig = {}
    for v in viols:
        s = signature(v)
        if s not in by_sig or len(history_text(v["history"]["ops"])) < len(history_text(by_sig[s]["history"]["ops"])):
            by_sig[s] = v
    per_clause = {}
    for s in sorted(by_sig, key=lambda s: (len(s), s)):
        v = by_sig[s]
        if v["sigclass"] is None:
            n = per_clause.get(v["clause"], 0)
            if n >= MAX_REPORTED_PER_CLAUSE:
                continue
            per_clause[v["clause"]] = n + 1
        rep.violation(
            v["clause"],
            s,
            "%s\n  history (%s, %s): %s" % (v["detail"], v["src"], v["history"]["mode"], history_text(v["history"]["ops"])),
            {"history": v["history"], "expected": v["expected"], "observed": v["observed"]},
        )


def replay(rep, args):
    data = json.load(open(args.replay))
    hist = data["replay"]["history"]
    with tlc.Workdir() as wd:
        exps, _ = evaluate(wd, [hist], "replay")
    res = examine({"src": "replay", "mode": hist.get("mode", "ctx"), "W": hist["W"], "ops": hist["ops"], "exps": exps[0], "want_sample": True})
    if "error" in res:
        raise MachineryError("replay failed\n" + res["error"])
    report_violations(rep, res["viol"])
    rep.coverage.update({"states": 0, "transitions": 0, "traces_validated_against_impl": 1, "samples": res["sample"], "replayed": args.replay})


def work(rep, args):
    if args.replay:
        return replay(rep, args)
    quick = args.tier == "quick"
    seed = args.seed
    rng = random.Random(seed * 7919 + 17)
    mc_consts = (
        dict(subsites='{"S1"}', leaves='{"L1"}', resids='{"r1", "r2", "r3"}', segs="Segs3", reglen=2, reqlen=3, entries=2, queries="FALSE")
        if quick
        else dict(subsites='{"S1", "S2"}', leaves='{"L1"}', resids='{"r1", "r2", "r3"}', segs="Segs2", reglen=2, reqlen=3, entries=3, queries="FALSE")
    )
    mc2_consts = None if quick else dict(subsites='{"S1", "S2"}', leaves='{"L1", "L2"}', resids='{"r1", "r2", "r3", "r4"}', segs="Segs3", reglen=2, reqlen=3, entries=2, queries="FALSE")
    sim_consts = dict(subsites='{"S1", "S2"}', leaves='{"L1", "L2"}', resids='{"r1", "r2", "r3", "r4"}', segs="Segs3", reglen=2, reqlen=3, entries=6, queries="TRUE")
    nsim, simdepth = (64, 40) if quick else (1200, 60)
    nrand, randlen = (160, 60) if quick else (3000, 80)
    nchunks = 2 if quick else 8
    # short TLC jobs spend most of their CPU in JIT compilation and GC threads
    jvm_short = {"JAVA_TOOL_OPTIONS": "-XX:ParallelGCThreads=2 -XX:TieredStopAtLevel=1 -Xss16m"}
    jvm_mc = {"JAVA_TOOL_OPTIONS": "-XX:ParallelGCThreads=4 -XX:TieredStopAtLevel=1"} if quick else None

    hists = [gen_history(rng, randlen, "ctx" if i % 2 == 0 else "direct") for i in range(nrand)]

    with tlc.Workdir() as wd:
        wd.write("SiteRouting_mc.cfg", MC_CFG % mc_consts)
        if mc2_consts:
            wd.write("SiteRouting_mc2.cfg", MC_CFG % mc2_consts)
        wd.write("SiteRouting_sim.cfg", SIM_CFG % sim_consts)
        nsimjobs = 2 if quick else 8
        simdirs = []
        for j in range(nsimjobs):
            d = wd.file("sim%d" % j)
            os.makedirs(d)
            simdirs.append(d)
        per_job = (nsim + nsimjobs - 1) // nsimjobs
        # the TLC jobs are independent: run them side by side
        with ThreadPoolExecutor(24) as ex:
            f_mc = ex.submit(tlc.run, wd, "SiteRouting.tla", "SiteRouting_mc.cfg", workers=6 if quick else 12, timeout=600 if quick else 3000, coverage=False, env=jvm_mc)
            f_mc2 = ex.submit(tlc.run, wd, "SiteRouting.tla", "SiteRouting_mc2.cfg", workers=4, timeout=3000) if mc2_consts else None
            f_sims = [
                ex.submit(
                    tlc.run,
                    wd,
                    "SiteRouting.tla",
                    "SiteRouting_sim.cfg",
                    workers=1,
                    timeout=600 if quick else 3000,
                    simulate="file=%s/tr,num=%d" % (d, per_job),
                    depth=simdepth,
                    seed=seed * 100 + 1 + j,
                    env=jvm_short,
                )
                for j, d in enumerate(simdirs)
            ]
            chunks = [hists[i::nchunks] for i in range(nchunks)]
            f_eval = [ex.submit(evaluate, wd, ch, "rand%d" % i, 600 if quick else 3000, jvm_short) for i, ch in enumerate(chunks)]
            mc, sims = f_mc.result(), [f.result() for f in f_sims]
            mc2 = f_mc2.result() if f_mc2 else None
            exps = [None] * len(hists)
            eval_wall = 0.0
            for i, f in enumerate(f_eval):
                e, r = f.result()
                exps[i::nchunks] = e
                eval_wall = max(eval_wall, r.wall if r else 0.0)
        tlc.need_ok_run(mc, "SiteRouting model check")
        if mc2 is not None:
            tlc.need_ok_run(mc2, "SiteRouting model check (second configuration)")
        for sim in sims:
            tlc.need_ok_run(sim, "SiteRouting simulation")
        for r, what in [(mc, "model check"), (mc2, "second model check")] + [(x, "simulation") for x in sims]:
            if r is not None and r.violated:
                # the reference operators contradict their own restatement: the
                # specification is wrong, not the code
                raise MachineryError("SiteRouting %s: %s violated\n%s" % (what, r.violated, r.out[-3000:]))
        world = tlc.printed_values(sims[0], "C17WORLD")
        if not world:
            raise MachineryError("simulation run did not print the model's world")
        mw = world[0][1]
        MW = {
            "root": mw["root"],
            "sites": sorted(mw["sites"]),
            "leaves": sorted(mw["leaves"]),
            "wrapped": sorted(mw["wrapped"]),
            "attrs": {r: {"hidden": bool(a["hidden"]), "bare": bool(a["bare"]), "pairs": [list(p) for p in a["pairs"]]} for r, a in mw["attrs"].items()},
        }
        files = sorted(os.path.join(d, f) for d in simdirs for f in os.listdir(d) if f.startswith("tr_"))
        if len(files) < nsim:
            raise MachineryError("simulation produced %d behaviours, expected %d" % (len(files), nsim))
        items = [
            {"src": "model-behaviour", "mode": "ctx", "W": MW, "file": f, "want_sample": i == 0}
            for i, f in enumerate(files)
        ]
        items += [
            {"src": "random-history", "mode": h["mode"], "W": h["W"], "ops": h["ops"], "exps": e, "want_sample": i == 0}
            for i, (h, e) in enumerate(zip(hists, exps))
        ]
        t_replay = time.time()
        results = run_items(items)
        t_replay = time.time() - t_replay

    stats = {}
    viols = []
    samples = []
    loop_exc = 0
    for it, res in zip(items, results):
        if "error" in res:
            raise MachineryError("replay of a %s failed\n%s" % (it["src"], res["error"]))
        for k, v in res["stats"].items():
            stats[it["src"] + "." + k] = stats.get(it["src"] + "." + k, 0) + v
            stats["total." + k] = stats.get("total." + k, 0) + v
        viols += res["viol"]
        if res["sample"]:
            samples.append({"source": it["src"], "mode": it["mode"], "steps": res["sample"]})
        loop_exc += res["loop_exceptions"]
        if res["loop_exceptions"] or res["log_errors"]:
            rep.add_drift("event-loop exception / error log while serving a %s: %s" % (it["src"], res["log_errors"][:1]))
    # vacuity: the replayed material must actually exercise every rule
    per_source = (
        "expect_exact",
        "expect_prefix",
        "expect_none",
        "expect_nonempty_stripped_path",
        "filters_selecting_proper_subset",
        "mutations",
        "requests_asked_before_whose_answer_the_last_mutation_changed",
        "expect_none_not_GET",
        "requests_CON",
        "named_authority_through_nested_site",
        "expect_bare_resource",
        "listings_with_attributeless_link",
        "filters_single_valued_with_space",
    )
    for k in per_source:
        for src in ("model-behaviour", "random-history"):
            if not stats.get("%s.%s" % (src, k)):
                raise MachineryError("vacuous run: no %s among the %s cases" % (k, src))
    for k in ("reasked_prefix_route_changed_by_last_mutation",):
        if not stats.get("total." + k):
            raise MachineryError("vacuous run: no %s" % k)
    report_violations(rep, viols)
    per_clause = {c: 0 for c in CLAUSES}
    for v in viols:
        per_clause[v["clause"]] = per_clause.get(v["clause"], 0) + 1
    rep.coverage.update(
        {
            "states": mc.distinct + (mc2.distinct if mc2 else 0),
            "transitions": mc.generated + (mc2.generated if mc2 else 0),
            "depth": mc.depth,
            "mc_constants": [mc_consts] + ([mc2_consts] if mc2_consts else []),
            "mc_runs": [mc.summary()] + ([mc2.summary()] if mc2 else []),
            "mc_invariants": INVARIANTS,
            "exhaustive": True,
            "simulation_constants": sim_consts,
            "model_behaviours_replayed": len(files),
            "random_histories_evaluated_by_tlc": len(hists),
            "traces_validated_against_impl": len(items),
            "operations_compared": stats.get("total.ops", 0),
            "evaluations": stats.get("total.requests", 0) + stats.get("total.listings", 0) + stats.get("total.filters", 0),
            "counters": stats,
            "distinct_nontrivial": stats.get("total.expect_prefix", 0) + stats.get("total.filters_selecting_proper_subset", 0),
            "failed_comparisons_per_clause": per_clause,
            "event_loop_exceptions": loop_exc,
            "tlc_wall_s": {"mc": round(mc.wall, 1), "sim": round(max(x.wall for x in sims), 1), "eval": round(eval_wall, 1)},
            "replay_wall_s": round(t_replay, 1),
            "samples": samples,
            "checker_cmd": "tlc SiteRouting.tla (exhaustive, VIEW st) ; tlc -simulate SiteRouting.tla ; tlc SiteRoutingEval.tla (evaluator over JSON histories)",
        }
    )
    rep.assumptions += [
        "virtual-time event loop and fake UDP socket stand in for the OS (harness/vloop.py, fakenet.py); requests (GET / POST / PUT / DELETE / FETCH, CON and NON, optionally with Uri-Host / Uri-Port) are built by the independent codec harness/wire.py",
        "test resources (harness/sitedrive.py) answer every method with 2.05 and report their id, the Uri-Path they were given and get_request_uri(); PathCapable leaves stand for nested sites whose received remainder is to be observed and describe no links; one resource per world implements interfaces.Resource only (no get_link_description: listed without attributes); some nested sites are registered through a PathCapable wrapper that is no Site (for routing and listing it is the site)",
        "domain: no nested site at the empty path, acyclic nesting, remove only where exactly one of resource / nested site is registered at the path, /.well-known/core of the root never replaced, one filter per query, rt/if/ct filter values without space, no value-less attributes; the authority of the reconstructed URI is compared only where the request named it (Uri-Host / Uri-Port)",
        "links are compared as sets of (href, set of attribute pairs); the impl-info link is dropped",
        "exhaustive model check bounds: %s; larger trees by simulation and by TLC-evaluated random histories" % mc_consts,
    ]


if __name__ == "__main__":
    sys.exit(runner.main("C17", work))
