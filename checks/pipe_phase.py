"""Model-based test of aiocoap.pipe.Pipe against spec/PipeModel.tla: TLC checks the model exhaustively
(terminal-event discipline as invariants) and generates behaviours; each behaviour is replayed on the
real class and the abstract state (callback list with interest flags, ended, deliveries per callback,
tombstones, interest-end callbacks fired) is compared after every action.  A clause of the discipline
false on the real object is a violation of C09 (C09_PipeDiscipline_*); a state that differs from the
model without breaking a clause is DRIFT."""

import logging
import os

from harness import tlc, MachineryError, require_repo

CFG = """SPECIFICATION Spec
CONSTANTS
  MaxCbs = %(cbs)d
  MaxEnds = %(ends)d
  MaxEvents = %(events)d
%(extra)s
"""
INVS = "\n".join("INVARIANT " + i for i in ["TypeOK", "EndCallbackAtMostOnce", "EndCallbackFiredIffNotWaiting", "EndedMeansAllFired",
                                            "WaitingOnlyWhileInterest", "TombstoneAtMostOnce", "OnceGetsOne", "InterestKeepsAlive"])


class Real:
    def __init__(self):
        require_repo()
        from aiocoap.pipe import Pipe
        from aiocoap import Message
        from aiocoap.numbers.codes import Code

        self.Message, self.Code = Message, Code
        self.pipe = Pipe(Message(code=Code.GET), logging.getLogger("verif-pipe"))
        self.cbs = {}  # id -> [callable, kind, interest, unregister]
        self.got = {}
        self.tomb = {}
        self.ends = []

    def act(self, a):
        op = a[0]
        if op == "on_event":
            _, cid, kind, interest = a
            self.got.setdefault(cid, 0)
            self.tomb.setdefault(cid, 0)

            def cb(ev, cid=cid, kind=kind):
                if ev.message is None and ev.exception is None:
                    self.tomb[cid] += 1
                    return False
                self.got[cid] += 1
                if kind == "once":
                    return False
                if kind == "tolast":
                    return not ev.is_last
                return True

            unreg = self.pipe.on_event(cb, is_interest=bool(interest))
            self.cbs[cid] = [cb, kind, bool(interest), unreg]
        elif op == "unregister":
            self.cbs[a[1]][3]()
        elif op == "on_interest_end":
            idx = len(self.ends)
            self.ends.append(0)

            def endcb(idx=idx):
                self.ends[idx] += 1

            self.pipe.on_interest_end(endcb)
        elif op == "add_event":
            if a[1]:
                self.pipe.add_exception(RuntimeError("x")) if len(self.ends) % 2 else self.pipe.add_response(self.Message(code=self.Code.CONTENT), is_last=True)
            else:
                self.pipe.add_response(self.Message(code=self.Code.CONTENT), is_last=False)

    def state(self):
        raw = self.pipe._event_callbacks
        ended = raw is False
        lst = []
        if not ended:
            for cb, interest in raw:
                for cid, (f, kind, i, _) in self.cbs.items():
                    if f is cb:
                        lst.append((cid, bool(interest)))
        return ended, lst, dict(self.got), dict(self.tomb), list(self.ends)


def model_state(st):
    cbs = st["cbs"] if isinstance(st["cbs"], list) else []
    got = st["got"] if isinstance(st["got"], list) else [st["got"][k] for k in sorted(st["got"])]
    tomb = st["tomb"] if isinstance(st["tomb"], list) else [st["tomb"][k] for k in sorted(st["tomb"])]
    ends = st["ends"] if isinstance(st["ends"], list) else []
    return st["ended"], [(c["id"], c["interest"]) for c in cbs], got, tomb, [e["fired"] for e in ends]


def run_phase(rep, args):
    quick = args.tier == "quick"
    logging.getLogger("verif-pipe").setLevel(logging.CRITICAL)
    with tlc.Workdir() as wd:
        wd.write("Pipe_run.cfg", CFG % dict(cbs=3, ends=2, events=3 if quick else 4, extra="VIEW View\n" + INVS))
        mc = tlc.run(wd, "PipeModel.tla", "Pipe_run.cfg", timeout=900)
        tlc.need_ok_run(mc, "PipeModel model check")
        if mc.violated:
            raise MachineryError("PipeModel violates %s" % mc.violated)
        wd.write("Pipe_sim.cfg", CFG % dict(cbs=4, ends=3, events=5, extra=""))
        simdir = wd.file("sim")
        os.makedirs(simdir)
        sim = tlc.run(wd, "PipeModel.tla", "Pipe_sim.cfg", workers=1, timeout=600,
                      simulate="file=%s/tr,num=%d" % (simdir, 1500 if quick else 15000), depth=14, seed=args.seed + 9)
        tlc.need_ok_run(sim, "PipeModel simulation")
        behaviours = tlc.read_sim_traces(os.path.join(simdir, "tr"))
    steps = 0
    ndrift = 0
    for beh in behaviours:
        real = Real()
        acts = []
        for label, st in beh[1:]:
            a = st["act"]
            acts.append(a)
            try:
                real.act(a)
            except Exception as e:  # the real class raised where the model has a step
                rep.violation("C09_PipeDiscipline_NoException", "C09_PipeDiscipline_NoException|%s" % a[0],
                              "Pipe raised %r on %s after %s" % (e, a, acts[:-1]), {"actions": acts})
                break
            steps += 1
            ended, lst, got, tomb, ends = real.state()
            m_ended, m_lst, m_got, m_tomb, m_ends = model_state(st)
            # the discipline, evaluated on the real object
            if any(x > 1 for x in ends):
                rep.violation("C09_PipeDiscipline_EndCallbackOnce", "C09_PipeDiscipline_EndCallbackOnce|%s" % a[0],
                              "an on_interest_end callback ran %s times after %s" % (ends, acts), {"actions": acts})
            if ended and any(x != 1 for x in ends):
                rep.violation("C09_PipeDiscipline_EndedMeansAllFired", "C09_PipeDiscipline_EndedMeansAllFired|%s" % a[0],
                              "pipe ended but interest-end callbacks fired %s after %s" % (ends, acts), {"actions": acts})
            if any(x == 0 for x in ends) and not any(i for _, i in lst):
                rep.violation("C09_PipeDiscipline_InterestEndFires", "C09_PipeDiscipline_InterestEndFires|%s" % a[0],
                              "no interested callback is left but an on_interest_end callback has not been called (%s) after %s" % (ends, acts), {"actions": acts})
            if any(v > 1 for v in tomb.values()):
                rep.violation("C09_PipeDiscipline_TombstoneOnce", "C09_PipeDiscipline_TombstoneOnce|%s" % a[0],
                              "a callback got the terminal event %s times after %s" % (tomb, acts), {"actions": acts})
            if any(i for _, i in lst) and ended:
                rep.violation("C09_PipeDiscipline_InterestKeepsAlive", "C09_PipeDiscipline_InterestKeepsAlive|%s" % a[0],
                              "pipe ended while interested callbacks were registered after %s" % acts, {"actions": acts})
            r_got = [got.get(i, 0) for i in range(1, len(m_got) + 1)]
            r_tomb = [tomb.get(i, 0) for i in range(1, len(m_tomb) + 1)]
            if (ended, lst, r_got, r_tomb, ends) != (m_ended, m_lst, m_got, m_tomb, m_ends):
                ndrift += 1
                rep.add_drift("Pipe differs from PipeModel after %s: real %s, model %s"
                              % (acts, (ended, lst, r_got, r_tomb, ends), (m_ended, m_lst, m_got, m_tomb, m_ends)))
                break
    rep.coverage["pipe_states"] = mc.distinct
    rep.coverage["pipe_transitions"] = mc.generated
    rep.coverage["pipe_behaviours_replayed"] = len(behaviours)
    rep.coverage["pipe_steps_compared"] = steps
    rep.coverage["pipe_behaviours_agreeing"] = len(behaviours) - ndrift
