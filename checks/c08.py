"""C08 -- Observe server: rising numbers, latest state sent, cancellation final, no leak.

1. TLC exhaustively checks spec/ObserveServer.tla (implementation-shaped model
   of ObservableResource._render_to_pipe with the lossy trigger slot, the
   observer bookkeeping, the stop paths of TokenManager / MessageManager, CON
   notifications with retransmission and the per-remote backlog) with the
   clauses of ObserveServerObs as invariants -- in the repaired design
   (DropQueuedOnStop = TRUE).  The same model with DropQueuedOnStop = FALSE (the
   pinned tree) is checked as well: TLC's counterexample is replayed on the
   real code and only counts if the clause is false on the real trace too.
2. spec -> code: simulated behaviours of the model variant the tree conforms to
   become schedules executed at the model's instants on the real server
   Context; the recorded events are compared with the predicted ones (DRIFT).
3. code -> spec: all recorded traces plus targeted scenarios and randomised
   schedules beyond the model's constants (1-3 observers, two tokens on one
   endpoint, bursts and mixed bursts of changes, explicit / unsuccessful / last
   responses, one Message object shared by all observers, slow renderer, every
   reaction per notification, duplicates, ICMP errors, shutdown) are validated
   by TLC against ObserveServerTrace.tla, clause by clause.

Dimensions added later (all switched by model constants, driver flags of the same meaning): two
observable resources with counts, state numbers and changes of their own (TwoResources / q); the first
rendering of a registration suspended beyond EMPTY_ACK_DELAY -- empty ACK, then a SEPARATE first
response with Observe 0, Reset / time-out of which ends the registration (SlowFirst / fgate, fdelay);
resources answering unreliably, so that a CON registration gets NON notifications (NonNotif /
nonrender); a Reset answering a NON notification ends the registration (RstNonEnds; FALSE is a
known-bad variant TLC must refute, its counterexample runs on the real code); representations of
three blocks whose notifications carry Observe and Block2, with the further blocks fetched by plain
GETs on another token (no effect on the registration) or on the registration's own token (a new
request on that token) while the state changes (Big / big = "app" | "lib")."""

import json
import os
import random
import sys
import time

from harness import tlc, MachineryError, runner
from harness.observeserverdrive import run_all, short

NON_LIFETIME = 145 * 1024      # units; Resets to NON notifications arrive much earlier in every schedule

MC_CFG = """SPECIFICATION Spec
CONSTANTS
  MaxRetransmit = %(mr)d
  NonLifetime = 100000
  NObservers = %(nobs)d
  MaxChanges = %(chg)d
  MaxEnv = %(env)d
  MaxSilence = %(sil)d
  AckTimeout = 1
  MaxTime = %(maxt)d
  DropQueuedOnStop = %(drop)s
  SlowRender = %(slow)s
  RearmBeforeRender = %(rearm)s
  SharedEndpoint = %(shared)s
  BacklogCap = %(cap)d
  TwoResources = %(two)s
  SlowFirst = %(sfirst)s
  EmptyAckDelay = 1
  NonNotif = %(nonntf)s
  RstNonEnds = %(rstnon)s
  Big = %(big)s
%(extra)s
"""
INVS = "VIEW View\nINVARIANT NoBad\nINVARIANT CountMatches"
MC_DEFAULTS = dict(drop="TRUE", slow="FALSE", rearm="TRUE", shared="FALSE", cap=0, two="FALSE", sfirst="FALSE", nonntf="FALSE",
                   rstnon="TRUE", big="FALSE", extra=INVS)


def mc_cfg(c, **over):
    return MC_CFG % dict(MC_DEFAULTS, **dict(c, **over))


# exhaustive configurations of the later dimensions (state counts measured; see notes/C08.md)
T_, F_ = "TRUE", "FALSE"
QUICK_EXT_CONFS = [
    dict(mr=1, nobs=1, chg=2, env=2, sil=2, maxt=4, sfirst=T_, slow=T_),            # separate first response, every rendering suspended
    dict(mr=1, nobs=2, chg=2, env=3, sil=2, maxt=4, two=T_, nonntf=T_),             # two resources, NON notifications to CON registrations, Reset to them
    dict(mr=1, nobs=1, chg=2, env=3, sil=2, maxt=4, big=T_),                        # Observe + Block2, block fetches
]
# (quick tier: three configurations of the later dimensions; the others -- separate first response with two
# tokens of one endpoint, two resources with CON notifications, NON notifications with a shared endpoint -- run
# in the thorough tier)
THOROUGH_EXT_CONFS = [
    dict(mr=1, nobs=2, chg=1, env=2, sil=2, maxt=4, sfirst=T_, shared=T_),
    dict(mr=1, nobs=1, chg=2, env=3, sil=2, maxt=4, sfirst=T_),
    dict(mr=1, nobs=2, chg=2, env=2, sil=2, maxt=4, sfirst=T_, shared=T_, slow=T_),
    dict(mr=1, nobs=2, chg=2, env=3, sil=2, maxt=4, two=T_),
    dict(mr=1, nobs=2, chg=3, env=4, sil=2, maxt=4, nonntf=T_, two=T_),
    dict(mr=1, nobs=2, chg=2, env=4, sil=2, maxt=4, nonntf=T_, shared=T_),
    dict(mr=1, nobs=2, chg=2, env=3, sil=2, maxt=4, big=T_, shared=T_),
    dict(mr=1, nobs=1, chg=2, env=3, sil=2, maxt=4, big=T_, sfirst=T_),
]

CAUSES = ["Rst", "RstNon", "Unsuccessful", "Last", "ReRegister", "ConTimeout", "TransportError", "Shutdown"]


# -- model behaviours -> schedules ---------------------------------------------------
def behaviour_to_schedule(beh, mr, slow=False, conf=None):
    conf = conf or {}
    steps = []
    expected = []
    tlast = 0
    for label, st in beh[1:]:
        emit = st.get("emit", [])
        if not emit:
            continue
        e0 = emit[0]
        at = e0["t"] * 1024
        tlast = max(tlast, at)
        if e0["k"] == "rx" and e0["cls"] == "req":
            steps.append({"at": at, "do": "rx", "r": e0["r"], "ty": e0["ty"], "code": 1, "mid": e0["mid"], "tok": e0["tok"],
                          "observe": e0["obs"] if e0["obs"] >= 0 else None, "q": e0["q"],
                          "block2": None if e0["b2"] < 0 else [e0["b2"] >> 4, (e0["b2"] >> 3) & 1, e0["b2"] & 7]})
        elif e0["k"] == "rx":
            steps.append({"at": at, "do": "rx", "r": e0["r"], "ty": e0["ty"], "code": 0, "mid": {"notif": e0["n"]}})
        elif e0["k"] == "change":
            steps.append({"at": at, "do": "change", "n": len([e for e in emit if e["k"] == "change"]), "x": e0["x"], "q": e0["q"]})
        elif e0["k"] == "release":
            steps.append({"at": at, "do": "release", "g": e0["g"]})
        elif e0["k"] == "err":
            steps.append({"at": at, "do": "err", "r": e0["r"]})
        elif e0["k"] == "shutdown":
            steps.append({"at": at, "do": "shutdown"})
        for e in emit:
            expected.append(dict(e, t=e["t"] * 1024))
    sched = {
        "name": "model-behaviour",
        # (the model's EmptyAckDelay is one tick = ACK_TIMEOUT)
        "tuning": {"ACK_TIMEOUT": 1.0, "ACK_RANDOM_FACTOR": 1.0, "MAX_RETRANSMIT": mr, "EMPTY_ACK_DELAY": 1.0},
        "mid0": 100,
        "nremotes": 3,
        "rgate": bool(slow),
        "fgate": conf.get("sfirst") == "TRUE",
        "nonrender": conf.get("nonntf") == "TRUE",
        "big": "app" if conf.get("big") == "TRUE" else None,
        "steps": steps,
        "horizon": None,
    }
    return sched, expected, tlast


def _key(e):
    mid = e["mid"]
    if (e["k"] == "tx" and e["ty"] in ("CON", "NON")) or (e["k"] == "rx" and e["ty"] in ("ACK", "RST")):
        mid = 0  # message IDs the server picks depend on the iteration order of the observer set
    return (e["k"], e["r"], e["ty"], mid, e["tok"], e["cls"], e["code"], e["obs"], e["st"], e["g"], 0 if e["k"] == "rx" else e["n"], e["x"],
            e["q"], e["b2"])


def compare(expected, real, tlast):
    """None if, instant by instant, the implementation produced the predicted
    events (as multisets: tasks of one instant may run in either order); at the
    last instant of a behaviour that was cut short the prediction only has to
    be contained."""
    complete = bool(expected) and expected[-1]["k"] == "end"
    exp = [x for x in expected if x["k"] != "end"]
    got = [x for x in real if x["k"] != "end"]
    for t in sorted({x["t"] for x in exp}):
        a = sorted(_key(x) for x in exp if x["t"] == t)
        b = sorted(_key(x) for x in got if x["t"] == t)
        if a == b:
            continue
        if t == tlast and not complete:
            bb = list(b)
            try:
                for x in a:
                    bb.remove(x)
                continue
            except ValueError:
                pass
        missing = [x for x in a if x not in b]
        extra = [x for x in b if x not in a]
        return "at t=%d model predicts %s, implementation produced %s" % (t, missing[:2] or a[:2], extra[:2] or b[:2])
    if complete:
        late = [x for x in got if x["t"] > tlast]
        if late:
            return "model is quiescent at t=%d, implementation went on with %s" % (tlast, _key(late[0]))
    return None


# -- targeted scenarios ------------------------------------------------------------
def reg(r, tok, mid, ty="CON", at=0, observe=0, path=None, q=None, block2=None):
    s = {"at": at, "do": "rx", "r": r, "ty": ty, "code": 1, "mid": mid, "tok": tok, "observe": observe}
    if path:
        s["path"] = path
    if q:
        s["q"] = q
    if block2 is not None:
        s["block2"] = list(block2)
    return s


def blk(r, tok, mid, num, at, ty="CON", szx=6, q=None):
    """plain GET (no Observe) asking for block `num` of the representation"""
    return reg(r, tok, mid, ty, at=at, observe=None, q=q, block2=(num, 0, szx))


def chg(at, x="", n=1, q=None, xs=None):
    s = {"at": at, "do": "change"}
    if xs:
        s["xs"] = list(xs)
    else:
        s["x"] = x
        s["n"] = n
    if q:
        s["q"] = q
    return s


def ack(r, n, at, ty="ACK"):
    return {"at": at, "do": "rx", "r": r, "ty": ty, "code": 0, "mid": {"notif": n}}


def base_scenarios():
    # (EMPTY_ACK_DELAY: 100 units, on the grid of the virtual clock like everything else)
    T = {"ACK_TIMEOUT": 2.0, "ACK_RANDOM_FACTOR": 1.0, "MAX_RETRANSMIT": 2, "EMPTY_ACK_DELAY": 100 / 1024.0}
    S = []

    def mk(name, steps, reactions=(), **kw):
        S.append(dict({"name": name, "tuning": dict(T), "mid0": 300, "nremotes": 3, "steps": steps, "reactions": list(reactions), "horizon": None}, **kw))

    mk("rst-with-queued-notification", [reg(1, "a1", 1000), {"at": 10, "do": "change"}, {"at": 20, "do": "change"}, ack(1, 1, 30, "RST"), {"at": 40, "do": "change"}])
    mk("reregister-with-queued-notification", [reg(1, "a1", 1000), {"at": 10, "do": "change"}, {"at": 20, "do": "change"}, reg(1, "a1", 1001, at=30),
                                               ack(1, 1, 40), {"at": 50, "do": "change"}, ack(1, 2, 60), ack(1, 3, 70)])
    mk("deregister-with-queued-notification", [reg(1, "a1", 1000), {"at": 10, "do": "change"}, {"at": 20, "do": "change"}, reg(1, "a1", 1001, at=30, observe=1),
                                               ack(1, 1, 40), ack(1, 2, 60)])
    mk("plain-get-other-resource-same-token", [reg(1, "a1", 1000, "NON"), {"at": 10, "do": "change"}, reg(1, "a1", 1001, "NON", at=30, observe=None, path=["other"]),
                                               {"at": 50, "do": "change"}])
    mk("unsuccessful-queued-then-timeout", [reg(1, "a1", 1000), {"at": 10, "do": "change"}, {"at": 20, "do": "change", "x": "unsucc"}, ack(1, 1, 40)])
    mk("silent-observer-times-out", [reg(1, "a1", 1000), reg(1, "b1", 1001, "NON", at=2), reg(2, "a2", 2000, at=3), {"at": 10, "do": "change"},
                                    {"at": 20000, "do": "change"}], reactions=[{"r": 2, "nth": 1, "copy": 1, "delay": 3, "ty": "ACK"}, {"r": 2, "nth": 2, "copy": 2, "delay": 3, "ty": "ACK"}])
    mk("ack-after-retransmission", [reg(1, "a1", 1000), {"at": 10, "do": "change"}, {"at": 2500, "do": "change", "n": 3}],
       reactions=[{"r": 1, "nth": 1, "copy": 3, "delay": 7, "ty": "ACK"}, {"r": 1, "nth": 2, "copy": 1, "delay": 7, "ty": "ACK"}])
    mk("last-and-unsuccessful-two-observers", [reg(1, "a1", 1000, "NON"), reg(2, "a2", 2000), {"at": 10, "do": "change"}, ack(2, 1, 15),
                                               {"at": 20, "do": "change", "x": "last"}, ack(2, 2, 25), {"at": 30, "do": "change"}, reg(1, "a1", 1001, "NON", at=40),
                                               {"at": 50, "do": "change", "x": "unsucc"}, {"at": 60, "do": "change"}])
    mk("mixed-burst-coalesces", [reg(1, "a1", 1000, "NON"), {"at": 10, "do": "change", "xs": ["unsucc", ""]}, {"at": 20, "do": "change", "xs": ["", "ok", ""]},
                                 {"at": 30, "do": "change", "xs": ["last", ""]}, {"at": 40, "do": "change"}])
    mk("explicit-burst-latest-wins", [reg(1, "a1", 1000, "NON"), reg(2, "a2", 2000), {"at": 10, "do": "change", "n": 3, "x": "ok"}, ack(2, 1, 12),
                                      {"at": 20, "do": "change", "xs": ["", "ok"]}, ack(2, 2, 22)])
    mk("reset-to-non-notification", [reg(1, "a1", 1000, "NON"), {"at": 10, "do": "change"}, ack(1, 2, 15, "RST"), {"at": 20, "do": "change"}])
    mk("icmp-error-and-shutdown", [reg(1, "a1", 1000, "NON"), reg(2, "a2", 2000), reg(2, "b2", 2001, "NON"), {"at": 10, "do": "change"}, {"at": 15, "do": "err", "r": 2},
                                   {"at": 20, "do": "change"}, {"at": 30, "do": "shutdown"}, {"at": 40, "do": "change"}])
    mk("duplicate-registration-datagram", [reg(1, "a1", 1000), {"at": 10, "do": "change"}, ack(1, 1, 12), reg(1, "a1", 1000, at=20), {"at": 30, "do": "change"}, ack(1, 2, 32)])
    mk("slow-renderer-change-while-rendering", [reg(1, "a1", 1000, "NON"), {"at": 100, "do": "change"}, {"at": 103, "do": "change"}, {"at": 120, "do": "change", "n": 2}], rdelay=8)
    # a change that lands while the renderer is suspended after sampling the state, and no later change
    mk("change-inside-suspended-render-is-the-last", [reg(1, "a1", 1000, "NON"), {"at": 10, "do": "change"}, {"at": 12, "do": "change"},
                                                      {"at": 20, "do": "release", "r": 1, "tok": "a1"}, {"at": 30, "do": "release", "r": 1, "tok": "a1"}], rgate=True)
    mk("explicit-change-inside-suspended-render-con", [reg(1, "a1", 1000), reg(2, "a2", 2000, "NON"), {"at": 10, "do": "change"}, {"at": 12, "do": "change", "x": "ok"},
                                                       {"at": 20, "do": "release", "r": 1, "tok": "a1"}, {"at": 21, "do": "release", "r": 2, "tok": "a2"}],
       reactions=[{"r": 1, "nth": n, "copy": 1, "delay": 2, "ty": "ACK"} for n in (1, 2, 3)], rgate=True)
    mk("burst-inside-suspended-render-released-at-the-end", [reg(1, "a1", 1000, "NON"), {"at": 10, "do": "change"}, {"at": 11, "do": "change", "n": 2}], rgate=True)
    mk("last-inside-suspended-render", [reg(1, "a1", 1000, "NON"), {"at": 10, "do": "change"}, {"at": 12, "do": "change", "x": "last"},
                                        {"at": 20, "do": "release", "r": 1, "tok": "a1"}, {"at": 30, "do": "change"}], rgate=True)
    mk("sleeping-renderer-change-inside-is-the-last", [reg(1, "a1", 1000, "NON"), reg(2, "a2", 2000), {"at": 100, "do": "change"}, {"at": 103, "do": "change"}],
       reactions=[{"r": 2, "nth": n, "copy": 1, "delay": 2, "ty": "ACK"} for n in (1, 2, 3)], rdelay=8)
    # a CON observer whose ACK is late while the resource keeps changing: every change is rendered and queued
    # behind the open exchange; when the ACK arrives all of them, in particular the newest, go out
    mk("slow-acker-many-changes", [reg(1, "a1", 1000)] + [{"at": 10 + i, "do": "change"} for i in range(40)],
       reactions=[{"r": 1, "nth": 1, "copy": 2, "delay": 1, "ty": "ACK"}] + [{"r": 1, "nth": n, "copy": 1, "delay": 1, "ty": "ACK"} for n in range(2, 46)])
    # two registrations of ONE endpoint on different tokens: one notification in flight, the sibling's queued
    # behind it (last change); what happens to the first token must not cost the sibling its latest state
    sib = [{"r": 1, "nth": n, "copy": 1, "delay": 20, "ty": "ACK"} for n in range(1, 7)]
    mk("sibling-queued-then-plain-get-fresh-token", [reg(1, "a1", 1000), reg(1, "b1", 1001, at=2), {"at": 10, "do": "change"},
                                                     reg(1, "c1", 1002, at=12, observe=None)], reactions=sib)
    mk("sibling-queued-then-reregister-other-token", [reg(1, "a1", 1000), reg(1, "b1", 1001, at=2), {"at": 10, "do": "change"},
                                                      reg(1, "a1", 1002, at=12)], reactions=sib)
    mk("sibling-queued-then-rst-other-token", [reg(1, "a1", 1000), reg(1, "b1", 1001, at=2), {"at": 10, "do": "change"},
                                               ack(1, 1, 12, "RST"), {"at": 100, "do": "change"}], reactions=sib[1:])
    mk("sibling-queued-then-deregister-other-token-non", [reg(1, "a1", 1000), reg(1, "b1", 1001, at=2), {"at": 10, "do": "change"},
                                                          reg(1, "a1", 1002, "NON", at=12, observe=1)], reactions=sib)
    # a change while the FIRST rendering of a registration is still asleep, and no later change
    mk("change-during-slow-first-rendering", [reg(1, "a1", 1000, "NON"), {"at": 3, "do": "change"}, reg(2, "a2", 2000, at=20), {"at": 23, "do": "change"}],
       reactions=[{"r": 2, "nth": n, "copy": 1, "delay": 2, "ty": "ACK"} for n in (1, 2, 3)], rdelay=8)
    mk("shared-message-two-con-observers-one-silent", [reg(1, "a1", 1000), reg(2, "a2", 2000), {"at": 10, "do": "change", "x": "shared-ok"}, ack(2, 1, 20),
                                                       {"at": 30000, "do": "change"}], reactions=[{"r": 2, "nth": 2, "copy": 1, "delay": 5, "ty": "ACK"}, {"r": 1, "nth": 2, "copy": 1, "delay": 5, "ty": "ACK"}])
    # the Message object keeps the labels of the observer served last (iteration order of a set of objects:
    # varies from process to process), so with one silent observer the harm depends on the order; with both
    # silent the observer served first is always left with an exchange that is never retransmitted nor timed out
    mk("shared-message-two-silent-con-observers", [reg(1, "a1", 1000), reg(2, "a2", 2000), {"at": 10, "do": "change", "x": "shared-ok"}, {"at": 30000, "do": "change"}],
       reactions=[{"r": 2, "nth": 2, "copy": 1, "delay": 5, "ty": "ACK"}, {"r": 1, "nth": 2, "copy": 1, "delay": 5, "ty": "ACK"}])
    mk("shared-unsuccessful-con-and-non", [reg(1, "a1", 1000), reg(2, "a2", 2000, "NON"), {"at": 10, "do": "change", "x": "shared-unsucc"}, ack(1, 1, 20), {"at": 30, "do": "change"}])
    S.extend(extension_scenarios(T))
    return S


def extension_scenarios(T):
    S = []
    acks = lambda r, n=12, d=2: [{"r": r, "nth": i, "copy": 1, "delay": d, "ty": "ACK"} for i in range(1, n)]

    def mk(name, steps, reactions=(), **kw):
        S.append(dict({"name": name, "tuning": dict(T), "mid0": 300, "nremotes": 3, "steps": steps, "reactions": list(reactions), "horizon": None}, **kw))

    # -- 1. representations of several blocks: notifications carry Observe and Block2; the other blocks are fetched
    #       by plain GETs while the state changes
    mk("big-app-blocks-fetched-on-other-tokens-racing-changes",
       [reg(1, "a1", 1000), chg(10), blk(1, "c1", 1001, 1, 12), chg(14), blk(1, "c2", 1002, 2, 16, "NON"), ack(1, 1, 20), blk(1, "c1", 1003, 1, 22),
        ack(1, 2, 30), chg(40), blk(1, "c3", 1004, 2, 40), blk(1, "c3", 1005, 1, 41, "NON"), ack(1, 3, 50)], big="app")
    mk("big-app-block-fetched-on-the-registration-token-is-a-new-request",
       [reg(1, "a1", 1000), chg(10), ack(1, 1, 12), blk(1, "a1", 1001, 1, 20), chg(30), chg(40)], big="app")
    mk("big-app-queued-notification-then-block-fetch-on-the-token",
       [reg(1, "a1", 1000), chg(10), chg(12), blk(1, "a1", 1001, 1, 14), ack(1, 1, 20), chg(30)], big="app")
    mk("big-app-early-negotiation-and-later-block-with-observe",
       [reg(1, "a1", 1000, block2=(0, 0, 5)), reg(2, "a2", 2000, "NON", at=1, block2=(1, 0, 6)), reg(3, "a3", 3000, at=2, block2=(9, 0, 6)), chg(10), chg(20, "ok"),
        blk(1, "c1", 1001, 3, 22, szx=5), chg(30), blk(2, "a2", 2001, 0, 40, "NON"), chg(50)], reactions=acks(1) + acks(3), big="app")
    mk("big-app-two-tokens-one-endpoint-block-fetch-while-sibling-queued",
       [reg(1, "a1", 1000), reg(1, "b1", 1001, at=2), chg(10), blk(1, "c1", 1002, 1, 12), blk(1, "a1", 1003, 2, 13)], reactions=acks(1, d=20), big="app")
    mk("big-lib-whole-representation-on-the-observe-path",
       [reg(1, "a1", 1000), chg(10), blk(1, "c1", 1001, 1, 12), reg(1, "c1", 1002, at=13, observe=None), blk(1, "c1", 1003, 1, 14), chg(16), blk(1, "c1", 1004, 2, 18),
        reg(2, "a2", 2000, "NON", at=20, block2=(0, 0, 4)), chg(30), blk(2, "a2", 2001, 1, 40, "NON", szx=4), chg(50)], reactions=acks(1), big="lib")
    # -- 2. the first response as a separate response (first rendering slower than EMPTY_ACK_DELAY)
    rel = lambda at, g: {"at": at, "do": "release", "g": g}
    mk("separate-first-response-acked-change-in-the-window",
       [reg(1, "a1", 1000), chg(10), rel(200, 1), ack(1, 1, 210), ack(1, 2, 220), chg(300), ack(1, 3, 310)], fgate=True)
    mk("separate-first-response-answered-with-reset",
       [reg(1, "a1", 1000), chg(10), rel(200, 1), ack(1, 1, 210, "RST"), chg(220), chg(5000)], fgate=True)
    mk("separate-first-response-times-out", [reg(1, "a1", 1000), reg(1, "b1", 1001, "NON", at=1), rel(200, 1), rel(201, 2), chg(300), chg(30000)], fgate=True)
    mk("separate-first-response-new-request-in-the-window",
       [reg(1, "a1", 1000), chg(10), reg(1, "a1", 1001, at=50), chg(60), rel(300, 2), ack(1, 1, 310), ack(1, 2, 320), reg(1, "a1", 1002, "NON", at=400), reg(1, "a1", 1003, "NON", at=420, observe=1),
        chg(500)], fgate=True)
    mk("separate-first-response-non-request-inherits-the-pending-ack",
       [reg(1, "a1", 1000), reg(1, "a1", 1001, "NON", at=20), rel(30, 2), chg(40), chg(500)], fgate=True)
    mk("separate-first-response-last-and-unsuccessful-in-the-window",
       [reg(1, "a1", 1000), reg(2, "a2", 2000, "NON", at=1), chg(10, "last"), rel(200, 1), rel(201, 2), reg(1, "a1", 1001, at=300), chg(310, "unsucc"), rel(500, 3), chg(600)],
       reactions=acks(1), fgate=True)
    mk("separate-first-response-error-and-shutdown-in-the-window",
       [reg(1, "a1", 1000), reg(2, "a2", 2000, at=1), {"at": 20, "do": "err", "r": 1}, chg(30), {"at": 150, "do": "shutdown"}, chg(160)], fgate=True)
    mk("separate-first-response-sleeping-renderer",
       [reg(1, "a1", 1000), reg(2, "a2", 2000, "NON", at=1), chg(50), chg(120), chg(400)], reactions=acks(1), fdelay=150)
    mk("separate-first-response-behind-open-exchange-of-sibling",
       [reg(1, "a1", 1000), rel(5, 1), chg(10), reg(1, "b1", 1001, at=12), chg(20), {"at": 200, "do": "release", "r": 1, "tok": "b1"}, ack(1, 1, 300), ack(1, 2, 320, "RST"), chg(400)],
       reactions=[{"r": 1, "nth": i, "copy": 1, "delay": 2, "ty": "ACK"} for i in range(3, 9)], fgate=True)
    mk("separate-first-response-duplicate-request-datagrams",
       [reg(1, "a1", 1000), reg(1, "a1", 1000, at=50), reg(1, "a1", 1000, at=150), rel(200, 1), reg(1, "a1", 1000, at=250), chg(300)], reactions=acks(1), fgate=True)
    # -- 3. several resources, several observers per resource, endpoints sharing tokens / resources
    mk("two-resources-four-registrations",
       [reg(1, "a1", 1000, q=1), reg(2, "a2", 2000, "NON", at=1, q=2), reg(1, "b1", 1001, at=2, q=2), reg(3, "a3", 3000, at=3, q=1), chg(10, q=1), chg(12, q=2), chg(14, q=2, n=2),
        ack(3, 1, 20, "RST"), chg(30, q=1), reg(1, "b1", 1002, at=40, observe=1, q=2), chg(50, q=2), chg(52, q=1)], reactions=acks(1))
    mk("two-resources-last-and-unsuccessful-on-one-of-them",
       [reg(1, "a1", 1000, q=1), reg(2, "a2", 2000, "NON", q=2, at=1), reg(3, "a3", 3000, q=2, at=2), chg(10, "last", q=2), chg(20, q=1), chg(22, q=2), reg(2, "a2", 2001, "NON", q=2, at=30),
        chg(40, "unsucc", q=1), chg(50, q=2), chg(52, q=1)], reactions=acks(1) + acks(3))
    mk("token-moves-to-the-other-resource",
       [reg(1, "a1", 1000, q=1), chg(10, q=1), ack(1, 1, 12), reg(1, "a1", 1001, at=20, q=2), chg(30, q=1), chg(32, q=2), ack(1, 2, 34), reg(1, "a1", 1002, "NON", at=40, q=1), chg(50, q=2), chg(52, q=1)])
    mk("two-resources-timeout-of-one-endpoint-spares-the-others",
       [reg(1, "a1", 1000, q=1), reg(1, "b1", 1001, "NON", at=1, q=2), reg(2, "a2", 2000, at=2, q=1), reg(3, "a3", 3000, at=3, q=2), chg(10, q=1), chg(20000, q=1), chg(20002, q=2)],
       reactions=acks(2) + acks(3))
    # -- 4. Observe numbers across a re-registration on the same token: each registration on its own
    mk("reregistration-on-the-same-token-numbers-judged-per-registration",
       [reg(1, "a1", 1000), chg(10), chg(20), chg(30), reg(1, "a1", 1001, at=40), chg(50), chg(60), reg(1, "a1", 1002, "NON", at=70), chg(80), reg(1, "a1", 1003, "NON", at=90, observe=1), chg(100)],
       reactions=acks(1))
    # -- 5. non-confirmable notifications and the Reset that answers one
    mk("reset-to-non-notification-of-a-confirmable-registration",
       [reg(1, "a1", 1000), reg(2, "a2", 2000, at=1), chg(10), ack(1, 1, 15, "RST"), chg(20), chg(30)], nonrender=True)
    mk("reset-to-the-non-first-response", [reg(1, "a1", 1000, "NON"), ack(1, 1, 5, "RST"), chg(10), chg(20)])
    mk("reset-to-an-older-non-notification", [reg(1, "a1", 1000, "NON"), chg(10), chg(12), chg(14), ack(1, 2, 16, "RST"), chg(20)])
    mk("reset-to-non-notification-of-the-previous-registration-on-the-token",
       [reg(1, "a1", 1000, "NON"), chg(10), reg(1, "a1", 1001, "NON", at=12), ack(1, 2, 14, "RST"), chg(20), ack(1, 3, 22, "ACK"), chg(30)])
    mk("reset-to-non-notification-while-the-next-rendering-is-suspended",
       [reg(1, "a1", 1000, "NON"), chg(10), {"at": 11, "do": "release", "g": 1}, chg(12), ack(1, 2, 14, "RST"), {"at": 20, "do": "release", "g": 1}, chg(30)], rgate=True)
    mk("reset-to-explicit-non-notification-two-tokens", [reg(1, "a1", 1000), reg(1, "b1", 1001, "NON", at=1), chg(10, "ok"), ack(1, 3, 12, "RST"), ack(1, 2, 14), chg(20), ack(1, 4, 25)])
    return S


# -- randomised schedules beyond the model's constants ------------------------------------
def random_schedule(rng, idx):
    mr = rng.choice([1, 2, 2])
    nobs = rng.choice([1, 2, 2, 3])
    # the dimensions added later, each in a residue class of its own so that the families overlap in all combinations
    big = "app" if idx % 6 == 2 else ("lib" if idx % 12 == 5 else None)
    fmode = ("gate" if idx % 10 == 4 else "sleep") if idx % 5 == 4 else None       # slow FIRST rendering
    nonrender = idx % 7 == 6
    tworesources = idx % 3 == 1
    regs = []
    for i in range(nobs):
        r = i + 1 if (i == 0 or rng.random() < 0.6) else rng.randint(1, i)      # 40 %: another token of an earlier endpoint
        regs.append({"r": r, "tok": "%02x%02x" % (0xA0 + i, rng.randint(0, 255)), "ty": rng.choice(["CON", "CON", "NON"]),
                     "q": rng.choice([1, 2]) if tworesources else 1,
                     "b2": (rng.choice([0, 0, 1, 3]), 0, rng.choice([4, 5, 6, 6])) if big and rng.random() < 0.25 else None})
    qs = sorted({o["q"] for o in regs})
    pm = {}

    def nextmid(r):
        pm[r] = pm.get(r, 0) + 1
        return 1000 * r + pm[r]

    steps = []
    t = 0
    last_req = {}
    pending = list(regs)
    first = pending.pop(0)
    s = reg(first["r"], first["tok"], nextmid(first["r"]), first["ty"], at=0, q=first["q"], block2=first["b2"])
    steps.append(s)
    last_req[id(first)] = s
    active = [first]
    shut = False
    storm = idx % 10 == 3      # one schedule in ten has a storm of changes
    stormed = False
    fresh = [0]
    variants = ["", "", "", "", "", "", "ok", "unsucc", "last"]
    # one schedule in eight hands ONE Message object to all observers (updated_state(response)) instead of
    # one per observer: kept apart so that the two families have separate signatures
    shared_family = idx % 8 == 7
    if shared_family:
        variants = ["", "", "", "shared-ok", "shared-ok", "shared-unsucc", "last"]
    for _ in range(rng.randint(3, 11)):
        t += rng.choice([0, 1, 1, 7, 40, 600, 2100, 4200, 9000])
        kinds = ["change"] * 6 + ["rereg", "dereg", "plain", "dup", "rstnth", "fresh"]
        if big:
            kinds += ["blk"] * 4
        if storm and not stormed:
            kinds += ["storm"] * 3
        if pending:
            kinds += ["newobs"] * 4
        if rng.random() < 0.15:
            kinds += ["err"]
        if rng.random() < 0.08 and not shut:
            kinds += ["shutdown"]
        k = rng.choice(kinds)
        if shut and k not in ("change",):
            continue
        if k == "change":
            p = rng.random()
            if p < 0.6:
                steps.append({"at": t, "do": "change", "n": rng.choice([1, 1, 1, 2, 3]), "x": rng.choice(variants), "q": rng.choice(qs)})
            else:
                steps.append({"at": t, "do": "change", "xs": [rng.choice(variants) for _ in range(rng.choice([2, 2, 3]))], "q": rng.choice(qs)})
        elif k == "storm":
            # 20-40 single changes (each one rendered) while, typically, an exchange with a slow acker is open
            stormed = True
            sq = rng.choice(qs)
            for _i in range(rng.randint(20, 40)):
                steps.append({"at": t, "do": "change", "q": sq})
                t += rng.choice([0, 1, 1])
        elif k == "blk":
            # the observer fetches a block of the large representation with a plain GET: on a token it never used,
            # on a token it used for such a fetch before, or (1 in 8) on the registration's own token
            o = rng.choice(active)
            p = rng.random()
            if p < 0.125:
                tok = o["tok"]
            else:
                fresh[0] += 0 if (p < 0.4 and fresh[0]) else 1
                tok = "cc%02x" % fresh[0]
            s = blk(o["r"], tok, nextmid(o["r"]), rng.choice([0, 1, 1, 2, 2, 5]), t, rng.choice(["CON", "NON"]), szx=rng.choice([4, 6, 6, 6]), q=o["q"])
            steps.append(s)
            if tok == o["tok"]:
                last_req[id(o)] = s
        elif k == "fresh":
            # an unrelated request of an observing endpoint: plain GET on a token it never used
            o = rng.choice(active)
            fresh[0] += 1
            steps.append(reg(o["r"], "cc%02x" % fresh[0], nextmid(o["r"]), rng.choice(["CON", "NON"]), at=t, observe=None,
                             path=["other"] if rng.random() < 0.5 else None, q=o["q"]))
        elif k == "newobs":
            o = pending.pop(0)
            s = reg(o["r"], o["tok"], nextmid(o["r"]), o["ty"], at=t, q=o["q"], block2=o["b2"])
            steps.append(s)
            last_req[id(o)] = s
            active.append(o)
        elif k in ("rereg", "dereg", "plain"):
            o = rng.choice(active)
            ty = rng.choice([o["ty"], o["ty"], "CON", "NON"])
            # (one re-registration in five of a two-resource schedule moves the token to the other resource)
            q = 3 - o["q"] if (k == "rereg" and tworesources and rng.random() < 0.2) else o["q"]
            s = reg(o["r"], o["tok"], nextmid(o["r"]), ty, at=t, observe={"rereg": 0, "dereg": 1, "plain": None}[k],
                    path=["other"] if (k == "plain" and rng.random() < 0.4) else None, q=q)
            steps.append(s)
            last_req[id(o)] = s
        elif k == "dup":
            o = rng.choice(active)
            steps.append(dict(last_req[id(o)], at=t))
        elif k == "rstnth":
            o = rng.choice(active)
            steps.append(ack(o["r"], rng.randint(1, 4), t, rng.choice(["RST", "ACK"])))
        elif k == "err":
            steps.append({"at": t, "do": "err", "r": rng.choice(active)["r"]})
        elif k == "shutdown":
            steps.append({"at": t, "do": "shutdown"})
            shut = True
    # one schedule in four has a renderer that suspends after sampling the state (released by `release` steps
    # sprinkled between the other steps, the rest when the steps are over): changes land inside the rendering
    rgate = idx % 4 == 1
    if rgate or fmode == "gate":
        out = []
        for st_ in steps:
            out.append(st_)
            if st_["do"] == "change" and rng.random() < 0.5:
                o = rng.choice(regs)
                out.append({"at": st_["at"] + rng.choice([0, 0, 1, 3]), "do": "release", "r": o["r"], "tok": o["tok"]})
        out.sort(key=lambda x: x["at"])
        # half of them end with a change that falls into a suspended rendering and nothing after it
        if rng.random() < 0.5 and not shut:
            out.append({"at": t + 5, "do": "change"})
            out.append({"at": t + 6, "do": "change", "x": rng.choice(["", "", "ok"])})
        steps = out
    reactions = []
    for r in sorted({o["r"] for o in regs}):
        policy = "slow-acker" if storm else rng.choice(["mostly-ack", "mostly-ack", "mixed", "hostile"])
        for nth in range(1, 75 if storm else 14):
            p = rng.random()
            if policy == "slow-acker":
                # answers everything, some of it only after a retransmission: the backlog grows, then drains
                if p < 0.85:
                    reactions.append({"r": r, "nth": nth, "copy": 1, "delay": rng.choice([1, 3, 40]), "ty": "ACK"})
                else:
                    reactions.append({"r": r, "nth": nth, "copy": 2, "delay": rng.choice([1, 60]), "ty": "ACK"})
                continue
            if policy == "mostly-ack":
                cut = (0.8, 0.87, 0.93)
            elif policy == "mixed":
                cut = (0.5, 0.68, 0.84)
            else:
                cut = (0.25, 0.45, 0.7)
            if p < cut[0]:
                reactions.append({"r": r, "nth": nth, "copy": 1, "delay": rng.choice([1, 3, 40, 1500, 2047]), "ty": "ACK"})
            elif p < cut[1]:
                reactions.append({"r": r, "nth": nth, "copy": rng.choice([2, 2, 3]), "delay": rng.choice([1, 60]), "ty": "ACK"})
            elif p < cut[2]:
                reactions.append({"r": r, "nth": nth, "copy": rng.choice([1, 1, 2]), "delay": rng.choice([1, 5, 900]), "ty": "RST"})
            # else: silence
    return {
        "name": "random",
        "tuning": {"ACK_TIMEOUT": 2.0, "ACK_RANDOM_FACTOR": 1.0, "MAX_RETRANSMIT": mr, "EMPTY_ACK_DELAY": 100 / 1024.0},
        "mid0": rng.choice([0, 300, 65530, rng.randint(0, 65535)]),
        "nremotes": 3,
        "rdelay": 0 if rgate else rng.choice([0, 0, 0, 0, 6]),
        "rgate": rgate,
        "fgate": fmode == "gate",
        "fdelay": rng.choice([150, 150, 300]) if fmode == "sleep" else 0,
        "nonrender": nonrender,
        "big": big,
        "steps": steps,
        "reactions": reactions,
        "horizon": None,
    }


# -- batch trace validation ---------------------------------------------------------------
def validate(wd, mr, traces, timeout=1500):
    """-> list of {bad: {clause name: first event}, rstnon, causes} aligned with traces"""
    tf = wd.file("ObserveServerTrace-traces-%d.json" % mr)
    with open(tf, "w") as f:
        json.dump(traces, f, separators=(",", ":"))
    tmpl = open(os.path.join(tlc.SPEC_DIR, "ObserveServerTrace.cfg.tmpl")).read()
    wd.write("ObserveServerTrace-run-%d.cfg" % mr, tmpl % {"MaxRetransmit": mr, "NonLifetime": NON_LIFETIME})
    r = tlc.run(wd, "ObserveServerTrace.tla", "ObserveServerTrace-run-%d.cfg" % mr, workers=1, timeout=timeout, env={"TRACE_FILE": tf}, dfs=True, heap="8g")
    tlc.need_ok_run(r, "ObserveServerTrace validation")
    out = [None] * len(traces)
    for v in tlc.printed_values(r, "TRACE"):
        _, tid, n, first, rstnon, causes, nregs, resources, nex = v
        if n != len(traces[tid - 1]):
            raise MachineryError("ObserveServerTrace: trace %d consumed %d of %d events" % (tid, n, len(traces[tid - 1])))
        out[tid - 1] = {"bad": {c: l for (c, l) in first}, "rstnon": rstnon, "causes": {tuple(c) for c in causes},
                        "nregs": nregs, "resources": set(resources), "nex": nex}
    missing = [i for i, x in enumerate(out) if x is None]
    if missing:
        raise MachineryError("ObserveServerTrace: no verdict for traces %s\n%s" % (missing[:5], r.out[-2000:]))
    return out


def tlc_many(wd, jobs, par, workers):
    """Several TLC runs on ObserveServer.tla side by side (each through harness.tlc.run, each with its timeout):
    jobs = [(cfg file, keyword arguments of tlc.run)] -> results in the order of the jobs."""
    from concurrent.futures import ThreadPoolExecutor

    def one(j):
        kw = dict(j[1])
        kw.setdefault("workers", workers)
        return tlc.run(wd, "ObserveServer.tla", j[0], **kw)

    with ThreadPoolExecutor(max(1, par)) as ex:
        return list(ex.map(one, jobs))


def signature_of(name, sched):
    """Stable description of a finding: clause, end cause and type of the registering request plus the family of
    the schedule; everything that follows from a Reset answering a NON notification (one known cause, whatever
    the type of the request or the schedule) is named after that cause alone."""
    if ":RstNon" in name or name.startswith("C08_EndsOnRstNon"):
        return "%s|RstNon" % name.split(":")[0]
    return "%s|%s" % (name, shape_of(sched))


RSTNON_SIGNATURES = ["C08_EndsOnRstNon|RstNon", "C08_SilentAfterEnd|RstNon", "C08_CancelCallbackOnce|RstNon"]


def shape_of(sched):
    shared = any(s.get("x", "").startswith("shared") or any(x.startswith("shared") for x in s.get("xs", ())) for s in sched["steps"])
    return "shared-message" if shared else "own-message"


def measure_extension(scheds, results, verdicts):
    """Counters of the later dimensions, measured on the recorded executions (no judgement: that is TLC's)."""
    c = {k: 0 for k in (
        "empty_acks_sent", "separate_first_responses_confirmable", "separate_first_responses_non", "separate_first_responses_answered_with_reset",
        "separate_first_responses_timed_out", "state_changes_during_a_first_rendering", "new_requests_during_a_first_rendering",
        "notifications_with_observe_and_block2", "whole_large_notifications_without_block2", "block_fetches_on_another_token_while_registered",
        "block_fetches_on_the_registration_token", "state_changes_between_block_fetches_of_one_token", "registrations_with_block2_in_the_request",
        "traces_with_two_resources_observed", "registrations_on_resource_1", "registrations_on_resource_2", "largest_observer_count_of_a_resource",
        "re_registrations_on_the_same_token", "non_notifications_to_confirmable_registrations", "resets_answering_non_notifications",
        "registrations_with_a_reset_to_a_non_notification", "traces_with_fgate_or_fdelay", "traces_with_big", "traces_with_nonrender")}
    for sc, res, v in zip(scheds, results, verdicts):
        ev = res["events"]
        c["traces_with_fgate_or_fdelay"] += bool(sc.get("fgate") or sc.get("fdelay"))
        c["traces_with_big"] += bool(sc.get("big"))
        c["traces_with_nonrender"] += bool(sc.get("nonrender"))
        c["traces_with_two_resources_observed"] += len(v["resources"]) >= 2
        c["registrations_with_a_reset_to_a_non_notification"] += len([x for x in v["causes"] if x[0] == "RstNon"])
        reg_of = {}          # g -> (r, tok, type of the registering request)
        cur = {}             # (r, tok) -> g currently registered (by the callbacks)
        rq = {}              # (r, tok) -> type of the latest request
        held = set()         # (r, tok) that ever held a registration
        first_pending = {}   # g -> True while its first response has not been sent
        first_sep = {}       # (r, mid) -> g of a separate confirmable first response, copies
        non_mids = {}        # (r, mid) -> g of NON responses of registrations
        seen_req = set()
        last_blk = {}        # (r, tok) -> number of changes when that token fetched a block last
        nchanges = 0
        for e in ev:
            k = e["k"]
            if k == "change":
                nchanges += 1
                c["state_changes_during_a_first_rendering"] += bool(first_pending)
            elif k == "obscount":
                c["largest_observer_count_of_a_resource"] = max(c["largest_observer_count_of_a_resource"], e["n"])
            elif k == "accept":
                key = (e["r"], e["tok"])
                reg_of[e["g"]] = (e["r"], e["tok"], rq.get(key, "?"))
                c["re_registrations_on_the_same_token"] += key in held
                held.add(key)
                cur[key] = e["g"]
                first_pending[e["g"]] = True
                c["registrations_on_resource_%d" % e["q"]] += e["q"] in (1, 2)
            elif k == "cancelcb":
                cur.pop((e["r"], e["tok"]), None)
                first_pending.pop(e["g"], None)
            elif k == "rx" and e["cls"] == "req":
                if (e["r"], e["mid"]) in seen_req:
                    continue
                seen_req.add((e["r"], e["mid"]))
                key = (e["r"], e["tok"])
                rq[key] = e["ty"]
                c["new_requests_during_a_first_rendering"] += cur.get(key) in first_pending
                if e["b2"] >= 0 and e["obs"] == 0:
                    c["registrations_with_block2_in_the_request"] += 1
                if e["b2"] >= 0 and e["obs"] == -1:
                    if key in cur:
                        c["block_fetches_on_the_registration_token"] += 1
                    elif any(r == e["r"] for (r, _t) in cur):
                        c["block_fetches_on_another_token_while_registered"] += 1
                    if key in last_blk and last_blk[key] != nchanges:
                        c["state_changes_between_block_fetches_of_one_token"] += 1
                    last_blk[key] = nchanges
            elif k == "rx" and e["ty"] == "RST":
                if (e["r"], e["mid"]) in first_sep:
                    c["separate_first_responses_answered_with_reset"] += 1
                    first_sep.pop((e["r"], e["mid"]))
                if (e["r"], e["mid"]) in non_mids:
                    c["resets_answering_non_notifications"] += 1
            elif k == "rx" and e["ty"] == "ACK":
                first_sep.pop((e["r"], e["mid"]), None)
            elif k == "tx" and e["cls"] == "empty" and e["ty"] == "ACK":
                c["empty_acks_sent"] += 1
            elif k == "tx" and e["cls"] == "resp" and e["g"] in reg_of:
                g = e["g"]
                if first_pending.pop(g, None) and e["ty"] in ("CON", "NON") and reg_of[g][2] == "CON":
                    c["separate_first_responses_confirmable" if e["ty"] == "CON" else "separate_first_responses_non"] += 1
                    if e["ty"] == "CON":
                        first_sep[(e["r"], e["mid"])] = [g, 0]
                if (e["r"], e["mid"]) in first_sep:
                    first_sep[(e["r"], e["mid"])][1] += 1
                if e["ty"] == "NON":
                    non_mids[(e["r"], e["mid"])] = g
                    c["non_notifications_to_confirmable_registrations"] += reg_of[g][2] == "CON"
                if e["obs"] >= 0 and e["b2"] >= 0:
                    c["notifications_with_observe_and_block2"] += 1
                if e["obs"] >= 0 and e["b2"] < 0 and sc.get("big") == "lib" and e["x"] == "S":
                    c["whole_large_notifications_without_block2"] += 1
        mr = sc["tuning"]["MAX_RETRANSMIT"]
        c["separate_first_responses_timed_out"] += len([1 for (_g, copies) in first_sep.values() if copies == mr + 1])
    return c


def replay(rep, args):
    """--replay <file>: re-execute the recorded schedule on the current tree and let TLC judge the new trace."""
    data = json.load(open(args.replay))
    sched = data["replay"]["schedule"]
    res = run_all([sched])[0]
    if "error" in res:
        raise MachineryError("driver failed on the replayed schedule\n%s" % res["error"])
    with tlc.Workdir() as wd:
        v = validate(wd, sched["tuning"]["MAX_RETRANSMIT"], [res["events"]])[0]
    for e in res["events"]:
        print("   ", short(e))
    for name in sorted(v["bad"]):
        rep.violation(name.split(":")[0], signature_of(name, sched),
                      "clause %s false at event %d of the replayed execution (%d events)" % (name, v["bad"][name], len(res["events"])),
                      {"schedule": sched, "events": res["events"], "meta": res["meta"], "clause_at": v["bad"]})
    rep.coverage.update({"states": 0, "transitions": 0, "traces_validated_against_impl": 1, "replayed": args.replay, "samples": []})


def work(rep, args):
    if args.replay:
        return replay(rep, args)
    quick = args.tier == "quick"
    seed = args.seed
    rng = random.Random(seed * 7919 + 8)
    if quick:
        # (two tokens of ONE endpoint share exchange, backlog, time-out and transport error: the richer setting
        # gets the larger budget; two separate endpoints hardly interact)
        mc_confs = [dict(mr=1, nobs=2, chg=2, env=3, sil=2, maxt=4, shared="TRUE"), dict(mr=1, nobs=2, chg=2, env=2, sil=2, maxt=4),
                    dict(mr=1, nobs=1, chg=3, env=3, sil=2, maxt=4),
                    dict(mr=1, nobs=2, chg=2, env=2, sil=2, maxt=4, slow="TRUE", shared="TRUE"), dict(mr=1, nobs=1, chg=3, env=2, sil=2, maxt=4, slow="TRUE")] + QUICK_EXT_CONFS
        nsim, nslow, nrand, next_ = 90, 60, 320, 80
    else:
        mc_confs = [dict(mr=1, nobs=2, chg=3, env=3, sil=2, maxt=4, shared="TRUE"), dict(mr=1, nobs=2, chg=2, env=3, sil=2, maxt=4),
                    dict(mr=2, nobs=1, chg=3, env=3, sil=3, maxt=8),
                    dict(mr=1, nobs=2, chg=3, env=2, sil=2, maxt=4, slow="TRUE", shared="TRUE"), dict(mr=1, nobs=1, chg=3, env=3, sil=2, maxt=4, slow="TRUE")] + THOROUGH_EXT_CONFS
        nsim, nslow, nrand, next_ = 1000, 600, 5000, 800
    phases = {}
    t0 = [time.time()]

    def lap(name):
        phases[name] = round(time.time() - t0[0], 1)
        t0[0] = time.time()

    with tlc.Workdir() as wd:
        # 1. exhaustive, repaired design; 1b-1e. the model variants that must be refuted.  The TLC runs are
        # independent of each other: a few of them side by side (the big ones first)
        cexc = dict(mr=1, nobs=1, chg=2, env=3, sil=2, maxt=4)      # 1b. the pinned tree's variant (queued notifications survive)
        badc = dict(mr=1, nobs=1, chg=2, env=1, sil=2, maxt=4)      # 1c. trigger slot re-armed only after the rendering
        capc = dict(mr=1, nobs=1, chg=3, env=1, sil=2, maxt=4)      # 1d. bounded backlog dropping the newest
        rnc = dict(mr=1, nobs=1, chg=2, env=2, sil=2, maxt=4)       # 1e. a Reset answering a NON notification is ignored
        jobs = []
        for i, c in enumerate(mc_confs):
            wd.write("ObserveServer_mc%d.cfg" % i, mc_cfg(c))
            jobs.append(("ObserveServer_mc%d.cfg" % i, dict(timeout=900 if quick else 3000)))
        for name, c, over in (("pinned", cexc, dict(drop="FALSE")), ("rearm", badc, dict(slow="TRUE", rearm="FALSE")), ("cap", capc, dict(cap=1)),
                              ("rstnon", rnc, dict(rstnon="FALSE"))):
            wd.write("ObserveServer_%s.cfg" % name, mc_cfg(c, **over))
            jobs.append(("ObserveServer_%s.cfg" % name, dict(timeout=900)))
        ncpu = os.cpu_count() or 4
        par = 6 if quick else 2
        res_all = tlc_many(wd, jobs, par, max(2, ncpu // par))
        mcs = res_all[:len(mc_confs)]
        mcp, mcb, mcc, mcr = res_all[len(mc_confs):]
        for c, mc in zip(mc_confs, mcs):
            tlc.need_ok_run(mc, "ObserveServer model check %s" % c)
            if mc.violated:
                raise MachineryError("ObserveServer model (repaired design, %s) violates %s" % (c, mc.violated))
        lap("model_check")
        # 1b. TLC's counterexample of the pinned tree's variant, replayed below
        tlc.need_ok_run(mcp, "ObserveServer model check (pinned variant)")
        if not (mcp.violated and mcp.error_trace):
            raise MachineryError("the pinned-tree variant of the model is expected to violate NoBad; TLC says %s" % mcp.violated)
        cex_sched, cex_exp, cex_tlast = behaviour_to_schedule(list(mcp.error_trace), 1)
        cex_sched["name"] = "model-counterexample"
        cex_res = run_all([cex_sched])[0]
        if "error" in cex_res:
            raise MachineryError("driver failed on the counterexample schedule\n%s" % cex_res["error"])
        pinned_like = compare(cex_exp, cex_res["events"], cex_tlast) is None
        # 1c. TLC has to find C08_LatestEventuallySent false (otherwise the window "change while the renderer is
        # suspended" is not explored); its counterexample is run on the real code like any other schedule
        tlc.need_ok_run(mcb, "ObserveServer model check (re-arm-after-render variant)")
        badset = mcb.error_trace[-1][1].get("obs", {}).get("bad", ()) if mcb.error_trace else ()
        if not any(str(c).startswith("C08_LatestEventuallySent") for c in badset):
            raise MachineryError("the re-arm-after-render variant of the model is expected to violate C08_LatestEventuallySent; TLC says %s %s" % (mcb.violated, sorted(badset)))
        rearm_sched, rearm_exp, rearm_tlast = behaviour_to_schedule(list(mcb.error_trace), 1, slow=True)
        rearm_sched["name"] = "model-counterexample-rearm-after-render"
        # 1d.
        tlc.need_ok_run(mcc, "ObserveServer model check (bounded-backlog variant)")
        capset = mcc.error_trace[-1][1].get("obs", {}).get("bad", ()) if mcc.error_trace else ()
        if not any(str(c).startswith("C08_LatestEventuallySent") for c in capset):
            raise MachineryError("the bounded-backlog variant of the model is expected to violate C08_LatestEventuallySent; TLC says %s %s" % (mcc.violated, sorted(capset)))
        # 1e. TLC has to find C08_EndsOnRstNon false; its counterexample is executed on the real code (a tree that
        # ignores such Resets follows it event by event, and the clause is then false on the real trace as well)
        tlc.need_ok_run(mcr, "ObserveServer model check (Reset-to-NON-ignored variant)")
        rnset = mcr.error_trace[-1][1].get("obs", {}).get("bad", ()) if mcr.error_trace else ()
        if not any(str(c).startswith("C08_EndsOnRstNon") for c in rnset):
            raise MachineryError("the Reset-to-NON-ignored variant of the model is expected to violate C08_EndsOnRstNon; TLC says %s %s" % (mcr.violated, sorted(rnset)))
        rn_sched, rn_exp, rn_tlast = behaviour_to_schedule(list(mcr.error_trace), 1)
        rn_sched["name"] = "model-counterexample-reset-to-non-ignored"
        rn_res = run_all([rn_sched])[0]
        if "error" in rn_res:
            raise MachineryError("driver failed on the counterexample schedule\n%s" % rn_res["error"])
        rstnon_ignored = compare(rn_exp, rn_res["events"], rn_tlast) is None
        lap("pinned_variant")
        # 2. behaviours of the variant the tree conforms to
        simc = dict(mr=1, nobs=2, chg=3, env=6, sil=3, maxt=8)
        model = []
        T, F = "TRUE", "FALSE"
        sims = [("fast", dict(), nsim // 2), ("shared", dict(shared=T), nsim - nsim // 2),
                ("slow", dict(slow=T), nslow // 2), ("slowshared", dict(slow=T, shared=T), nslow - nslow // 2),
                # the later dimensions, combined: separate first responses on two resources / with two tokens of one
                # endpoint and every rendering suspended; large representations with NON notifications on two
                # resources / with separate first responses
                ("first2res", dict(sfirst=T, two=T), next_ // 4), ("firstshared", dict(sfirst=T, shared=T, slow=T), next_ // 4),
                ("bignon2res", dict(big=T, nonntf=T, two=T), next_ // 4), ("bigfirst", dict(big=T, sfirst=T, shared=T), next_ - 3 * (next_ // 4))]
        nsim_by_kind = {}
        sjobs = []
        for tag, over, num in sims:
            conf = dict(simc, drop=F if pinned_like else T, rstnon=F if rstnon_ignored else T, extra="", **over)
            wd.write("ObserveServer_sim_%s.cfg" % tag, mc_cfg(conf))
            simdir = wd.file("sim_" + tag)
            os.makedirs(simdir)
            sjobs.append(("ObserveServer_sim_%s.cfg" % tag, dict(workers=1, timeout=900, simulate="file=%s/tr,num=%d" % (simdir, num), depth=45, seed=seed + 1)))
        for (tag, over, num), sim in zip(sims, tlc_many(wd, sjobs, 8 if quick else 4, 1)):
            tlc.need_ok_run(sim, "ObserveServer simulation (%s)" % tag)
            conf = dict(simc, **over)
            got = [behaviour_to_schedule(b, 1, over.get("slow") == T, conf) for b in tlc.read_sim_traces(os.path.join(wd.file("sim_" + tag), "tr"))]
            nsim_by_kind[tag] = len([m for m in got if m[0]["steps"]])
            model += got
        lap("simulate")
        model = [m for m in model if m[0]["steps"]]
        nslow_model = len([m for m in model if m[0]["rgate"]])
        bases = base_scenarios()
        rands = [random_schedule(rng, i) for i in range(nrand)]
        scheds = [cex_sched] + [m[0] for m in model] + bases + rands + [rn_sched, rearm_sched]
        results = [cex_res] + run_all(scheds[1:])
        results[-2] = rn_res
        for s, res in zip(scheds, results):
            if "error" in res:
                raise MachineryError("driver failed on schedule %s\n%s" % (json.dumps(s)[:600], res["error"]))
        lap("run_on_implementation")
        ndrift = 0
        for (s, exp, tlast), res in zip(model, results[1:]):
            d = compare(exp, res["events"], tlast)
            if d:
                ndrift += 1
                rep.add_drift("model behaviour not reproduced by implementation: " + d)
        # 3. every recorded trace judged by TLC
        groups = {}
        for i, s in enumerate(scheds):
            groups.setdefault(s["tuning"]["MAX_RETRANSMIT"], []).append(i)
        verdicts = [None] * len(scheds)
        for mr, idxs in sorted(groups.items()):
            vs = validate(wd, mr, [results[i]["events"] for i in idxs])
            for i, v in zip(idxs, vs):
                verdicts[i] = v
        lap("trace_validation")
        max_obs = max([e["obs"] for res in results for e in res["events"] if e["k"] == "tx"] + [0])
        for sc, res in zip(scheds, results):
            if any(e["t"] < 0 for e in res["events"]):
                raise MachineryError("an event off the grid of the virtual clock in schedule %s" % json.dumps(sc)[:400])
        ext = measure_extension(scheds, results, verdicts)
        clause_hits = {}
        causes_seen = {}
        rstnon = 0
        nevents = 0
        for i, v in enumerate(verdicts):
            ev = results[i]["events"]
            nevents += len(ev)
            rstnon += v["rstnon"]
            for c in v["causes"]:
                if c[0]:
                    causes_seen["%s:%s" % c] = causes_seen.get("%s:%s" % c, 0) + 1
            for name in sorted(v["bad"]):
                clause = name.split(":")[0]
                clause_hits[name] = clause_hits.get(name, 0) + 1
                if clause.startswith("MON_"):
                    raise MachineryError("monitor precondition broken (%s) on schedule %s" % (name, json.dumps(scheds[i])[:400]))
                at = v["bad"][name]
                rep.violation(
                    clause,
                    signature_of(name, scheds[i]),
                    "clause %s false at event %d of a recorded execution (%d events, scenario %s): ... %s; loop exceptions %s"
                    % (name, at, len(ev), scheds[i].get("name"), " / ".join(short(e).strip() for e in ev[max(0, at - 3):at]), results[i]["meta"]["loop_exceptions"][:1]),
                    {"schedule": scheds[i], "events": ev, "meta": results[i]["meta"], "clause_at": v["bad"]},
                )
        cex_reproduced = bool(verdicts[0]["bad"])
        if pinned_like and not cex_reproduced:
            raise MachineryError("the implementation follows the pinned variant's counterexample event by event but no clause is false on the real trace")
        if cex_reproduced:
            rep.notes.append("TLC's counterexample of the pinned-tree model variant (%s) reproduces on the implementation: %s"
                             % (mcp.violated, sorted(verdicts[0]["bad"])))
        else:
            rep.notes.append("TLC's counterexample of the pinned-tree model variant does not reproduce: the tree drops queued notifications of an ended registration (repaired design)")
        rn_reproduced = bool(verdicts[-2]["bad"])
        if rstnon_ignored and not rn_reproduced:
            raise MachineryError("the implementation follows the Reset-to-NON-ignored variant's counterexample event by event but no clause is false on the real trace")
        if rn_reproduced:
            rep.notes.append("TLC's counterexample of the model variant that ignores a Reset answering a NON notification (%s) reproduces on the implementation: %s"
                             % (sorted(str(c) for c in rnset), sorted(verdicts[-2]["bad"])))
        # (vacuity guards apply unless something other than the known Reset-to-NON finding was found)
        others = [v for v in rep.violations if v.signature not in RSTNON_SIGNATURES]
        if not others:
            thin = [k for k in ("separate_first_responses_confirmable", "separate_first_responses_answered_with_reset", "separate_first_responses_timed_out",
                                "notifications_with_observe_and_block2", "block_fetches_on_another_token_while_registered", "block_fetches_on_the_registration_token",
                                "state_changes_between_block_fetches_of_one_token", "traces_with_two_resources_observed", "registrations_on_resource_2",
                                "re_registrations_on_the_same_token", "non_notifications_to_confirmable_registrations", "registrations_with_a_reset_to_a_non_notification")
                    if not ext.get(k)]
            if thin:
                raise MachineryError("behaviours of the extension never exercised on the implementation: %s" % thin)
            kinds = {c.split(":")[0] for c in causes_seen}
            miss = [c for c in CAUSES if c not in kinds]
            if miss:
                raise MachineryError("end causes never exercised on the implementation: %s" % miss)
            if rstnon == 0:
                raise MachineryError("no Reset answering a non-confirmable notification was recorded")
        rep.coverage.update(
            {
                "states": sum(m.distinct for m in mcs),
                "transitions": sum(m.generated for m in mcs),
                "model_checks": [dict(c, states=m.distinct, transitions=m.generated, depth=m.depth, wall_s=round(m.wall, 1)) for c, m in zip(mc_confs, mcs)],
                "pinned_variant_check": dict(cexc, violated=mcp.violated, states=mcp.distinct, counterexample_len=len(mcp.error_trace),
                                             reproduced_on_implementation=cex_reproduced),
                "implementation_conforms_to_variant": "DropQueuedOnStop=FALSE (pinned)" if pinned_like else "DropQueuedOnStop=TRUE (repaired)",
                "traces_validated_against_impl": len(scheds),
                "events_validated": nevents,
                "schedules_from_model_behaviours": len(model),
                "of_which_with_suspending_renderer": nslow_model,
                "schedules_from_model_behaviours_by_kind": nsim_by_kind,
                "reset_to_non_ignored_variant_check": dict(rnc, violated=mcr.violated, states=mcr.distinct, clauses=sorted(str(c) for c in rnset),
                                                           implementation_follows_it=rstnon_ignored, reproduced_on_implementation=rn_reproduced),
                "extension": ext,
                "registrations_judged": sum(v["nregs"] for v in verdicts),
                "separate_responses_tracked": sum(v["nex"] for v in verdicts),
                "rearm_after_render_variant_check": dict(badc, violated=mcb.violated, states=mcb.distinct, clauses=sorted(str(c) for c in badset),
                                                         reproduced_on_implementation=bool(verdicts[-1]["bad"])),
                "random_schedules_with_suspending_renderer": len([x for x in rands if x.get("rgate")]),
                "model_behaviours_reproduced_exactly": len(model) - ndrift,
                "targeted_scenarios": [b["name"] for b in bases],
                "random_schedules": len(rands),
                "random_schedules_with_a_storm_of_changes": len([x for x in rands if len([y for y in x["steps"] if y["do"] == "change"]) >= 20]),
                "largest_observe_value_on_the_wire": max_obs,
                "bounded_backlog_variant_check": dict(capc, violated=mcc.violated, states=mcc.distinct, clauses=sorted(str(c) for c in capset)),
                "end_causes_exercised_on_impl": dict(sorted(causes_seen.items())),
                "traces_with_a_reset_to_a_non_notification": rstnon,
                "clauses_false_somewhere": clause_hits,
                "samples": [
                    {"schedule": model[0][0] if model else None, "events": [short(e) for e in (results[1]["events"][:18] if model else [])]},
                    {"schedule": scheds[-1], "events": [short(e) for e in results[-1]["events"][:18]]},
                ],
                "phase_wall_s": phases,
                "exhaustive": True,
                "checker_cmd": "tlc ObserveServer.tla (exhaustive x%d + pinned variant + -simulate); tlc ObserveServerTrace.tla on recorded traces" % len(mcs),
            }
        )
        rep.assumptions += [
            "virtual-time event loop and fake UDP socket stand in for the OS (harness/vloop.py, fakenet.py); independent wire codec",
            "self-describing payloads of the test resource (state number, registration number) identify what a notification was rendered from and for whom",
            "a confirmable notification sent MAX_RETRANSMIT+1 times and never answered has timed out once twice the last retransmission gap has passed (back-off = C03); MAX_RETRANSMIT >= 1",
            "observers do not reuse a message ID for a different request; repeated request datagrams arrive within EXCHANGE_LIFETIME",
            "registrations are short: at most about 75 notifications per registration are generated (largest Observe value of this run: coverage.largest_observe_value_on_the_wire), so faults of the Observe counter that need more (wrap-around at 2^16 / 2^24, clamping) are out of reach of this check",
            "the resource's set of observations is replaced by a container with the same interface that iterates in registration order (reproducible serving order)",
            "a Reset answering a non-confirmable notification counts when it arrives within NON_LIFETIME (145 s) of that notification and the message ID has not been used for another separate response to that endpoint since (always so in the schedules); retransmissions of an already sent notification are not 'further notifications'",
            "the first response of a registration is its first notification (RFC 7641 section 3.2): Reset / time-out of a separate first response end the registration",
            "Block2 options are recorded, never judged; large representations are cut by the test resource itself ('app') or left to the library ('lib': the Observe path sends them whole)",
        ]


if __name__ == "__main__":
    sys.exit(runner.main("C08", work))
