"""C08 -- Observe server: rising numbers, latest state sent, cancellation final, no leak.

1. TLC exhaustively checks spec/ObserveServer.tla (implementation-shaped model
   of ObservableResource._render_to_pipe with the lossy trigger slot, the
   observer bookkeeping, the stop paths of TokenManager / MessageManager, CON
   notifications with retransmission and the per-remote backlog) with the
   clauses of ObserveServerObs as invariants -- in the repaired design
   (DropQueuedOnStop = TRUE).  The same model with DropQueuedOnStop = FALSE (the
   pinned tree) is checked as well: TLC's counterexample is replayed on the
   real code and only counts if the clause is false on the real trace too.
2. spec -> code: simulated behaviours of the model variant the tree conforms to
   become schedules executed at the model's instants on the real server
   Context; the recorded events are compared with the predicted ones (DRIFT).
3. code -> spec: all recorded traces plus targeted scenarios and randomised
   schedules beyond the model's constants (1-3 observers, two tokens on one
   endpoint, bursts and mixed bursts of changes, explicit / unsuccessful / last
   responses, one Message object shared by all observers, slow renderer, every
   reaction per notification, duplicates, ICMP errors, shutdown) are validated
   by TLC against ObserveServerTrace.tla, clause by clause."""

import json
import os
import random
import sys
import time

from harness import tlc, MachineryError, runner
from harness.observeserverdrive import run_all, short

MC_CFG = """SPECIFICATION Spec
CONSTANTS
  MaxRetransmit = %(mr)d
  NObservers = %(nobs)d
  MaxChanges = %(chg)d
  MaxEnv = %(env)d
  MaxSilence = %(sil)d
  AckTimeout = 1
  MaxTime = %(maxt)d
  DropQueuedOnStop = %(drop)s
  SlowRender = %(slow)s
  RearmBeforeRender = %(rearm)s
  SharedEndpoint = %(shared)s
  BacklogCap = %(cap)d
%(extra)s
"""
INVS = "VIEW View\nINVARIANT NoBad\nINVARIANT CountMatches"

CAUSES = ["Rst", "Unsuccessful", "Last", "ReRegister", "ConTimeout", "TransportError", "Shutdown"]


# -- model behaviours -> schedules ---------------------------------------------------
def behaviour_to_schedule(beh, mr, slow=False):
    steps = []
    expected = []
    tlast = 0
    for label, st in beh[1:]:
        emit = st.get("emit", [])
        if not emit:
            continue
        e0 = emit[0]
        at = e0["t"] * 1024
        tlast = max(tlast, at)
        if e0["k"] == "rx" and e0["cls"] == "req":
            steps.append({"at": at, "do": "rx", "r": e0["r"], "ty": e0["ty"], "code": 1, "mid": e0["mid"], "tok": e0["tok"],
                          "observe": e0["obs"] if e0["obs"] >= 0 else None})
        elif e0["k"] == "rx":
            steps.append({"at": at, "do": "rx", "r": e0["r"], "ty": e0["ty"], "code": 0, "mid": {"notif": e0["n"]}})
        elif e0["k"] == "change":
            steps.append({"at": at, "do": "change", "n": len([e for e in emit if e["k"] == "change"]), "x": e0["x"]})
        elif e0["k"] == "release":
            steps.append({"at": at, "do": "release", "g": e0["g"]})
        elif e0["k"] == "err":
            steps.append({"at": at, "do": "err", "r": e0["r"]})
        elif e0["k"] == "shutdown":
            steps.append({"at": at, "do": "shutdown"})
        for e in emit:
            expected.append(dict(e, t=e["t"] * 1024))
    sched = {
        "name": "model-behaviour",
        "tuning": {"ACK_TIMEOUT": 1.0, "ACK_RANDOM_FACTOR": 1.0, "MAX_RETRANSMIT": mr},
        "mid0": 100,
        "nremotes": 3,
        "rgate": bool(slow),
        "steps": steps,
        "horizon": None,
    }
    return sched, expected, tlast


def _key(e):
    mid = e["mid"]
    if (e["k"] == "tx" and e["ty"] in ("CON", "NON")) or (e["k"] == "rx" and e["ty"] in ("ACK", "RST")):
        mid = 0  # message IDs the server picks depend on the iteration order of the observer set
    return (e["k"], e["r"], e["ty"], mid, e["tok"], e["cls"], e["code"], e["obs"], e["st"], e["g"], 0 if e["k"] == "rx" else e["n"], e["x"])


def compare(expected, real, tlast):
    """None if, instant by instant, the implementation produced the predicted
    events (as multisets: tasks of one instant may run in either order); at the
    last instant of a behaviour that was cut short the prediction only has to
    be contained."""
    complete = bool(expected) and expected[-1]["k"] == "end"
    exp = [x for x in expected if x["k"] != "end"]
    got = [x for x in real if x["k"] != "end"]
    for t in sorted({x["t"] for x in exp}):
        a = sorted(_key(x) for x in exp if x["t"] == t)
        b = sorted(_key(x) for x in got if x["t"] == t)
        if a == b:
            continue
        if t == tlast and not complete:
            bb = list(b)
            try:
                for x in a:
                    bb.remove(x)
                continue
            except ValueError:
                pass
        missing = [x for x in a if x not in b]
        extra = [x for x in b if x not in a]
        return "at t=%d model predicts %s, implementation produced %s" % (t, missing[:2] or a[:2], extra[:2] or b[:2])
    if complete:
        late = [x for x in got if x["t"] > tlast]
        if late:
            return "model is quiescent at t=%d, implementation went on with %s" % (tlast, _key(late[0]))
    return None


# -- targeted scenarios ------------------------------------------------------------
def reg(r, tok, mid, ty="CON", at=0, observe=0, path=None):
    s = {"at": at, "do": "rx", "r": r, "ty": ty, "code": 1, "mid": mid, "tok": tok, "observe": observe}
    if path:
        s["path"] = path
    return s


def ack(r, n, at, ty="ACK"):
    return {"at": at, "do": "rx", "r": r, "ty": ty, "code": 0, "mid": {"notif": n}}


def base_scenarios():
    T = {"ACK_TIMEOUT": 2.0, "ACK_RANDOM_FACTOR": 1.0, "MAX_RETRANSMIT": 2}
    S = []

    def mk(name, steps, reactions=(), **kw):
        S.append(dict({"name": name, "tuning": dict(T), "mid0": 300, "nremotes": 3, "steps": steps, "reactions": list(reactions), "horizon": None}, **kw))

    mk("rst-with-queued-notification", [reg(1, "a1", 1000), {"at": 10, "do": "change"}, {"at": 20, "do": "change"}, ack(1, 1, 30, "RST"), {"at": 40, "do": "change"}])
    mk("reregister-with-queued-notification", [reg(1, "a1", 1000), {"at": 10, "do": "change"}, {"at": 20, "do": "change"}, reg(1, "a1", 1001, at=30),
                                               ack(1, 1, 40), {"at": 50, "do": "change"}, ack(1, 2, 60), ack(1, 3, 70)])
    mk("deregister-with-queued-notification", [reg(1, "a1", 1000), {"at": 10, "do": "change"}, {"at": 20, "do": "change"}, reg(1, "a1", 1001, at=30, observe=1),
                                               ack(1, 1, 40), ack(1, 2, 60)])
    mk("plain-get-other-resource-same-token", [reg(1, "a1", 1000, "NON"), {"at": 10, "do": "change"}, reg(1, "a1", 1001, "NON", at=30, observe=None, path=["other"]),
                                               {"at": 50, "do": "change"}])
    mk("unsuccessful-queued-then-timeout", [reg(1, "a1", 1000), {"at": 10, "do": "change"}, {"at": 20, "do": "change", "x": "unsucc"}, ack(1, 1, 40)])
    mk("silent-observer-times-out", [reg(1, "a1", 1000), reg(1, "b1", 1001, "NON", at=2), reg(2, "a2", 2000, at=3), {"at": 10, "do": "change"},
                                    {"at": 20000, "do": "change"}], reactions=[{"r": 2, "nth": 1, "copy": 1, "delay": 3, "ty": "ACK"}, {"r": 2, "nth": 2, "copy": 2, "delay": 3, "ty": "ACK"}])
    mk("ack-after-retransmission", [reg(1, "a1", 1000), {"at": 10, "do": "change"}, {"at": 2500, "do": "change", "n": 3}],
       reactions=[{"r": 1, "nth": 1, "copy": 3, "delay": 7, "ty": "ACK"}, {"r": 1, "nth": 2, "copy": 1, "delay": 7, "ty": "ACK"}])
    mk("last-and-unsuccessful-two-observers", [reg(1, "a1", 1000, "NON"), reg(2, "a2", 2000), {"at": 10, "do": "change"}, ack(2, 1, 15),
                                               {"at": 20, "do": "change", "x": "last"}, ack(2, 2, 25), {"at": 30, "do": "change"}, reg(1, "a1", 1001, "NON", at=40),
                                               {"at": 50, "do": "change", "x": "unsucc"}, {"at": 60, "do": "change"}])
    mk("mixed-burst-coalesces", [reg(1, "a1", 1000, "NON"), {"at": 10, "do": "change", "xs": ["unsucc", ""]}, {"at": 20, "do": "change", "xs": ["", "ok", ""]},
                                 {"at": 30, "do": "change", "xs": ["last", ""]}, {"at": 40, "do": "change"}])
    mk("explicit-burst-latest-wins", [reg(1, "a1", 1000, "NON"), reg(2, "a2", 2000), {"at": 10, "do": "change", "n": 3, "x": "ok"}, ack(2, 1, 12),
                                      {"at": 20, "do": "change", "xs": ["", "ok"]}, ack(2, 2, 22)])
    mk("reset-to-non-notification", [reg(1, "a1", 1000, "NON"), {"at": 10, "do": "change"}, ack(1, 2, 15, "RST"), {"at": 20, "do": "change"}])
    mk("icmp-error-and-shutdown", [reg(1, "a1", 1000, "NON"), reg(2, "a2", 2000), reg(2, "b2", 2001, "NON"), {"at": 10, "do": "change"}, {"at": 15, "do": "err", "r": 2},
                                   {"at": 20, "do": "change"}, {"at": 30, "do": "shutdown"}, {"at": 40, "do": "change"}])
    mk("duplicate-registration-datagram", [reg(1, "a1", 1000), {"at": 10, "do": "change"}, ack(1, 1, 12), reg(1, "a1", 1000, at=20), {"at": 30, "do": "change"}, ack(1, 2, 32)])
    mk("slow-renderer-change-while-rendering", [reg(1, "a1", 1000, "NON"), {"at": 100, "do": "change"}, {"at": 103, "do": "change"}, {"at": 120, "do": "change", "n": 2}], rdelay=8)
    # a change that lands while the renderer is suspended after sampling the state, and no later change
    mk("change-inside-suspended-render-is-the-last", [reg(1, "a1", 1000, "NON"), {"at": 10, "do": "change"}, {"at": 12, "do": "change"},
                                                      {"at": 20, "do": "release", "r": 1, "tok": "a1"}, {"at": 30, "do": "release", "r": 1, "tok": "a1"}], rgate=True)
    mk("explicit-change-inside-suspended-render-con", [reg(1, "a1", 1000), reg(2, "a2", 2000, "NON"), {"at": 10, "do": "change"}, {"at": 12, "do": "change", "x": "ok"},
                                                       {"at": 20, "do": "release", "r": 1, "tok": "a1"}, {"at": 21, "do": "release", "r": 2, "tok": "a2"}],
       reactions=[{"r": 1, "nth": n, "copy": 1, "delay": 2, "ty": "ACK"} for n in (1, 2, 3)], rgate=True)
    mk("burst-inside-suspended-render-released-at-the-end", [reg(1, "a1", 1000, "NON"), {"at": 10, "do": "change"}, {"at": 11, "do": "change", "n": 2}], rgate=True)
    mk("last-inside-suspended-render", [reg(1, "a1", 1000, "NON"), {"at": 10, "do": "change"}, {"at": 12, "do": "change", "x": "last"},
                                        {"at": 20, "do": "release", "r": 1, "tok": "a1"}, {"at": 30, "do": "change"}], rgate=True)
    mk("sleeping-renderer-change-inside-is-the-last", [reg(1, "a1", 1000, "NON"), reg(2, "a2", 2000), {"at": 100, "do": "change"}, {"at": 103, "do": "change"}],
       reactions=[{"r": 2, "nth": n, "copy": 1, "delay": 2, "ty": "ACK"} for n in (1, 2, 3)], rdelay=8)
    # a CON observer whose ACK is late while the resource keeps changing: every change is rendered and queued
    # behind the open exchange; when the ACK arrives all of them, in particular the newest, go out
    mk("slow-acker-many-changes", [reg(1, "a1", 1000)] + [{"at": 10 + i, "do": "change"} for i in range(40)],
       reactions=[{"r": 1, "nth": 1, "copy": 2, "delay": 1, "ty": "ACK"}] + [{"r": 1, "nth": n, "copy": 1, "delay": 1, "ty": "ACK"} for n in range(2, 46)])
    # two registrations of ONE endpoint on different tokens: one notification in flight, the sibling's queued
    # behind it (last change); what happens to the first token must not cost the sibling its latest state
    sib = [{"r": 1, "nth": n, "copy": 1, "delay": 20, "ty": "ACK"} for n in range(1, 7)]
    mk("sibling-queued-then-plain-get-fresh-token", [reg(1, "a1", 1000), reg(1, "b1", 1001, at=2), {"at": 10, "do": "change"},
                                                     reg(1, "c1", 1002, at=12, observe=None)], reactions=sib)
    mk("sibling-queued-then-reregister-other-token", [reg(1, "a1", 1000), reg(1, "b1", 1001, at=2), {"at": 10, "do": "change"},
                                                      reg(1, "a1", 1002, at=12)], reactions=sib)
    mk("sibling-queued-then-rst-other-token", [reg(1, "a1", 1000), reg(1, "b1", 1001, at=2), {"at": 10, "do": "change"},
                                               ack(1, 1, 12, "RST"), {"at": 100, "do": "change"}], reactions=sib[1:])
    mk("sibling-queued-then-deregister-other-token-non", [reg(1, "a1", 1000), reg(1, "b1", 1001, at=2), {"at": 10, "do": "change"},
                                                          reg(1, "a1", 1002, "NON", at=12, observe=1)], reactions=sib)
    # a change while the FIRST rendering of a registration is still asleep, and no later change
    mk("change-during-slow-first-rendering", [reg(1, "a1", 1000, "NON"), {"at": 3, "do": "change"}, reg(2, "a2", 2000, at=20), {"at": 23, "do": "change"}],
       reactions=[{"r": 2, "nth": n, "copy": 1, "delay": 2, "ty": "ACK"} for n in (1, 2, 3)], rdelay=8)
    mk("shared-message-two-con-observers-one-silent", [reg(1, "a1", 1000), reg(2, "a2", 2000), {"at": 10, "do": "change", "x": "shared-ok"}, ack(2, 1, 20),
                                                       {"at": 30000, "do": "change"}], reactions=[{"r": 2, "nth": 2, "copy": 1, "delay": 5, "ty": "ACK"}, {"r": 1, "nth": 2, "copy": 1, "delay": 5, "ty": "ACK"}])
    # the Message object keeps the labels of the observer served last (iteration order of a set of objects:
    # varies from process to process), so with one silent observer the harm depends on the order; with both
    # silent the observer served first is always left with an exchange that is never retransmitted nor timed out
    mk("shared-message-two-silent-con-observers", [reg(1, "a1", 1000), reg(2, "a2", 2000), {"at": 10, "do": "change", "x": "shared-ok"}, {"at": 30000, "do": "change"}],
       reactions=[{"r": 2, "nth": 2, "copy": 1, "delay": 5, "ty": "ACK"}, {"r": 1, "nth": 2, "copy": 1, "delay": 5, "ty": "ACK"}])
    mk("shared-unsuccessful-con-and-non", [reg(1, "a1", 1000), reg(2, "a2", 2000, "NON"), {"at": 10, "do": "change", "x": "shared-unsucc"}, ack(1, 1, 20), {"at": 30, "do": "change"}])
    return S


# -- randomised schedules beyond the model's constants ------------------------------------
def random_schedule(rng, idx):
    mr = rng.choice([1, 2, 2])
    nobs = rng.choice([1, 2, 2, 3])
    regs = []
    for i in range(nobs):
        r = i + 1 if (i == 0 or rng.random() < 0.6) else rng.randint(1, i)      # 40 %: another token of an earlier endpoint
        regs.append({"r": r, "tok": "%02x%02x" % (0xA0 + i, rng.randint(0, 255)), "ty": rng.choice(["CON", "CON", "NON"])})
    pm = {}

    def nextmid(r):
        pm[r] = pm.get(r, 0) + 1
        return 1000 * r + pm[r]

    steps = []
    t = 0
    last_req = {}
    pending = list(regs)
    first = pending.pop(0)
    s = reg(first["r"], first["tok"], nextmid(first["r"]), first["ty"], at=0)
    steps.append(s)
    last_req[id(first)] = s
    active = [first]
    shut = False
    storm = idx % 10 == 3      # one schedule in ten has a storm of changes
    stormed = False
    fresh = [0]
    variants = ["", "", "", "", "", "", "ok", "unsucc", "last"]
    # one schedule in eight hands ONE Message object to all observers (updated_state(response)) instead of
    # one per observer: kept apart so that the two families have separate signatures
    shared_family = idx % 8 == 7
    if shared_family:
        variants = ["", "", "", "shared-ok", "shared-ok", "shared-unsucc", "last"]
    for _ in range(rng.randint(3, 11)):
        t += rng.choice([0, 1, 1, 7, 40, 600, 2100, 4200, 9000])
        kinds = ["change"] * 6 + ["rereg", "dereg", "plain", "dup", "rstnth", "fresh"]
        if storm and not stormed:
            kinds += ["storm"] * 3
        if pending:
            kinds += ["newobs"] * 4
        if rng.random() < 0.15:
            kinds += ["err"]
        if rng.random() < 0.08 and not shut:
            kinds += ["shutdown"]
        k = rng.choice(kinds)
        if shut and k not in ("change",):
            continue
        if k == "change":
            p = rng.random()
            if p < 0.6:
                steps.append({"at": t, "do": "change", "n": rng.choice([1, 1, 1, 2, 3]), "x": rng.choice(variants)})
            else:
                steps.append({"at": t, "do": "change", "xs": [rng.choice(variants) for _ in range(rng.choice([2, 2, 3]))]})
        elif k == "storm":
            # 20-40 single changes (each one rendered) while, typically, an exchange with a slow acker is open
            stormed = True
            for _i in range(rng.randint(20, 40)):
                steps.append({"at": t, "do": "change"})
                t += rng.choice([0, 1, 1])
        elif k == "fresh":
            # an unrelated request of an observing endpoint: plain GET on a token it never used
            o = rng.choice(active)
            fresh[0] += 1
            steps.append(reg(o["r"], "cc%02x" % fresh[0], nextmid(o["r"]), rng.choice(["CON", "NON"]), at=t, observe=None,
                             path=["other"] if rng.random() < 0.5 else None))
        elif k == "newobs":
            o = pending.pop(0)
            s = reg(o["r"], o["tok"], nextmid(o["r"]), o["ty"], at=t)
            steps.append(s)
            last_req[id(o)] = s
            active.append(o)
        elif k in ("rereg", "dereg", "plain"):
            o = rng.choice(active)
            ty = rng.choice([o["ty"], o["ty"], "CON", "NON"])
            s = reg(o["r"], o["tok"], nextmid(o["r"]), ty, at=t, observe={"rereg": 0, "dereg": 1, "plain": None}[k],
                    path=["other"] if (k == "plain" and rng.random() < 0.4) else None)
            steps.append(s)
            last_req[id(o)] = s
        elif k == "dup":
            o = rng.choice(active)
            steps.append(dict(last_req[id(o)], at=t))
        elif k == "rstnth":
            o = rng.choice(active)
            steps.append(ack(o["r"], rng.randint(1, 4), t, rng.choice(["RST", "ACK"])))
        elif k == "err":
            steps.append({"at": t, "do": "err", "r": rng.choice(active)["r"]})
        elif k == "shutdown":
            steps.append({"at": t, "do": "shutdown"})
            shut = True
    # one schedule in four has a renderer that suspends after sampling the state (released by `release` steps
    # sprinkled between the other steps, the rest when the steps are over): changes land inside the rendering
    rgate = idx % 4 == 1
    if rgate:
        out = []
        for st_ in steps:
            out.append(st_)
            if st_["do"] == "change" and rng.random() < 0.5:
                o = rng.choice(regs)
                out.append({"at": st_["at"] + rng.choice([0, 0, 1, 3]), "do": "release", "r": o["r"], "tok": o["tok"]})
        out.sort(key=lambda x: x["at"])
        # half of them end with a change that falls into a suspended rendering and nothing after it
        if rng.random() < 0.5 and not shut:
            out.append({"at": t + 5, "do": "change"})
            out.append({"at": t + 6, "do": "change", "x": rng.choice(["", "", "ok"])})
        steps = out
    reactions = []
    for r in sorted({o["r"] for o in regs}):
        policy = "slow-acker" if storm else rng.choice(["mostly-ack", "mostly-ack", "mixed", "hostile"])
        for nth in range(1, 75 if storm else 14):
            p = rng.random()
            if policy == "slow-acker":
                # answers everything, some of it only after a retransmission: the backlog grows, then drains
                if p < 0.85:
                    reactions.append({"r": r, "nth": nth, "copy": 1, "delay": rng.choice([1, 3, 40]), "ty": "ACK"})
                else:
                    reactions.append({"r": r, "nth": nth, "copy": 2, "delay": rng.choice([1, 60]), "ty": "ACK"})
                continue
            if policy == "mostly-ack":
                cut = (0.8, 0.87, 0.93)
            elif policy == "mixed":
                cut = (0.5, 0.68, 0.84)
            else:
                cut = (0.25, 0.45, 0.7)
            if p < cut[0]:
                reactions.append({"r": r, "nth": nth, "copy": 1, "delay": rng.choice([1, 3, 40, 1500, 2047]), "ty": "ACK"})
            elif p < cut[1]:
                reactions.append({"r": r, "nth": nth, "copy": rng.choice([2, 2, 3]), "delay": rng.choice([1, 60]), "ty": "ACK"})
            elif p < cut[2]:
                reactions.append({"r": r, "nth": nth, "copy": rng.choice([1, 1, 2]), "delay": rng.choice([1, 5, 900]), "ty": "RST"})
            # else: silence
    return {
        "name": "random",
        "tuning": {"ACK_TIMEOUT": 2.0, "ACK_RANDOM_FACTOR": 1.0, "MAX_RETRANSMIT": mr},
        "mid0": rng.choice([0, 300, 65530, rng.randint(0, 65535)]),
        "nremotes": 3,
        "rdelay": 0 if rgate else rng.choice([0, 0, 0, 0, 6]),
        "rgate": rgate,
        "steps": steps,
        "reactions": reactions,
        "horizon": None,
    }


# -- batch trace validation ---------------------------------------------------------------
def validate(wd, mr, traces, timeout=1500):
    """-> list of {bad: {clause name: first event}, rstnon, causes} aligned with traces"""
    tf = wd.file("ObserveServerTrace-traces-%d.json" % mr)
    with open(tf, "w") as f:
        json.dump(traces, f, separators=(",", ":"))
    tmpl = open(os.path.join(tlc.SPEC_DIR, "ObserveServerTrace.cfg.tmpl")).read()
    wd.write("ObserveServerTrace-run-%d.cfg" % mr, tmpl % {"MaxRetransmit": mr})
    r = tlc.run(wd, "ObserveServerTrace.tla", "ObserveServerTrace-run-%d.cfg" % mr, workers=1, timeout=timeout, env={"TRACE_FILE": tf}, dfs=True, heap="8g")
    tlc.need_ok_run(r, "ObserveServerTrace validation")
    out = [None] * len(traces)
    for v in tlc.printed_values(r, "TRACE"):
        _, tid, n, first, rstnon, causes = v
        if n != len(traces[tid - 1]):
            raise MachineryError("ObserveServerTrace: trace %d consumed %d of %d events" % (tid, n, len(traces[tid - 1])))
        out[tid - 1] = {"bad": {c: l for (c, l) in first}, "rstnon": rstnon, "causes": {tuple(c) for c in causes}}
    missing = [i for i, x in enumerate(out) if x is None]
    if missing:
        raise MachineryError("ObserveServerTrace: no verdict for traces %s\n%s" % (missing[:5], r.out[-2000:]))
    return out


def shape_of(sched):
    shared = any(s.get("x", "").startswith("shared") or any(x.startswith("shared") for x in s.get("xs", ())) for s in sched["steps"])
    return "shared-message" if shared else "own-message"


def replay(rep, args):
    """--replay <file>: re-execute the recorded schedule on the current tree and let TLC judge the new trace."""
    data = json.load(open(args.replay))
    sched = data["replay"]["schedule"]
    res = run_all([sched])[0]
    if "error" in res:
        raise MachineryError("driver failed on the replayed schedule\n%s" % res["error"])
    with tlc.Workdir() as wd:
        v = validate(wd, sched["tuning"]["MAX_RETRANSMIT"], [res["events"]])[0]
    for e in res["events"]:
        print("   ", short(e))
    for name in sorted(v["bad"]):
        rep.violation(name.split(":")[0], "%s|%s" % (name, shape_of(sched)),
                      "clause %s false at event %d of the replayed execution (%d events)" % (name, v["bad"][name], len(res["events"])),
                      {"schedule": sched, "events": res["events"], "meta": res["meta"], "clause_at": v["bad"]})
    rep.coverage.update({"states": 0, "transitions": 0, "traces_validated_against_impl": 1, "replayed": args.replay, "samples": []})


def work(rep, args):
    if args.replay:
        return replay(rep, args)
    quick = args.tier == "quick"
    seed = args.seed
    rng = random.Random(seed * 7919 + 8)
    if quick:
        # (two tokens of ONE endpoint share exchange, backlog, time-out and transport error: the richer setting
        # gets the larger budget; two separate endpoints hardly interact)
        mc_confs = [dict(mr=1, nobs=2, chg=2, env=3, sil=2, maxt=4, shared="TRUE"), dict(mr=1, nobs=2, chg=2, env=2, sil=2, maxt=4),
                    dict(mr=1, nobs=1, chg=3, env=3, sil=2, maxt=4),
                    dict(mr=1, nobs=2, chg=2, env=2, sil=2, maxt=4, slow="TRUE", shared="TRUE"), dict(mr=1, nobs=1, chg=3, env=2, sil=2, maxt=4, slow="TRUE")]
        nsim, nslow, nrand = 90, 60, 320
    else:
        mc_confs = [dict(mr=1, nobs=2, chg=3, env=3, sil=2, maxt=4, shared="TRUE"), dict(mr=1, nobs=2, chg=2, env=3, sil=2, maxt=4),
                    dict(mr=2, nobs=1, chg=3, env=3, sil=3, maxt=8),
                    dict(mr=1, nobs=2, chg=3, env=2, sil=2, maxt=4, slow="TRUE", shared="TRUE"), dict(mr=1, nobs=1, chg=3, env=3, sil=2, maxt=4, slow="TRUE")]
        nsim, nslow, nrand = 1000, 600, 5000
    phases = {}
    t0 = [time.time()]

    def lap(name):
        phases[name] = round(time.time() - t0[0], 1)
        t0[0] = time.time()

    with tlc.Workdir() as wd:
        # 1. exhaustive, repaired design
        mcs = []
        for i, c in enumerate(mc_confs):
            wd.write("ObserveServer_mc%d.cfg" % i, MC_CFG % dict(dict(slow="FALSE", rearm="TRUE", shared="FALSE", cap=0), **dict(c, drop="TRUE", extra=INVS)))
            mc = tlc.run(wd, "ObserveServer.tla", "ObserveServer_mc%d.cfg" % i, timeout=600 if quick else 3000)
            tlc.need_ok_run(mc, "ObserveServer model check %s" % c)
            if mc.violated:
                raise MachineryError("ObserveServer model (repaired design, %s) violates %s" % (c, mc.violated))
            mcs.append(mc)
        lap("model_check")
        # 1b. the pinned tree's variant: TLC's counterexample, replayed below
        cexc = dict(mr=1, nobs=1, chg=2, env=3, sil=2, maxt=4)
        wd.write("ObserveServer_pinned.cfg", MC_CFG % dict(cexc, drop="FALSE", slow="FALSE", rearm="TRUE", shared="FALSE", cap=0, extra=INVS))
        mcp = tlc.run(wd, "ObserveServer.tla", "ObserveServer_pinned.cfg", timeout=600)
        tlc.need_ok_run(mcp, "ObserveServer model check (pinned variant)")
        if not (mcp.violated and mcp.error_trace):
            raise MachineryError("the pinned-tree variant of the model is expected to violate NoBad; TLC says %s" % mcp.violated)
        cex_sched, cex_exp, cex_tlast = behaviour_to_schedule(list(mcp.error_trace), 1)
        cex_sched["name"] = "model-counterexample"
        cex_res = run_all([cex_sched])[0]
        if "error" in cex_res:
            raise MachineryError("driver failed on the counterexample schedule\n%s" % cex_res["error"])
        pinned_like = compare(cex_exp, cex_res["events"], cex_tlast) is None
        # 1c. known-bad variant: the trigger slot re-armed only after the rendering.  TLC has to find
        # C08_LatestEventuallySent false (otherwise the window "change while the renderer is suspended" is not
        # explored); its counterexample is run on the real code like any other schedule
        badc = dict(mr=1, nobs=1, chg=2, env=1, sil=2, maxt=4)
        wd.write("ObserveServer_rearm.cfg", MC_CFG % dict(badc, drop="TRUE", slow="TRUE", rearm="FALSE", shared="FALSE", cap=0, extra=INVS))
        mcb = tlc.run(wd, "ObserveServer.tla", "ObserveServer_rearm.cfg", timeout=600)
        tlc.need_ok_run(mcb, "ObserveServer model check (re-arm-after-render variant)")
        badset = mcb.error_trace[-1][1].get("obs", {}).get("bad", ()) if mcb.error_trace else ()
        if not any(str(c).startswith("C08_LatestEventuallySent") for c in badset):
            raise MachineryError("the re-arm-after-render variant of the model is expected to violate C08_LatestEventuallySent; TLC says %s %s" % (mcb.violated, sorted(badset)))
        rearm_sched, rearm_exp, rearm_tlast = behaviour_to_schedule(list(mcb.error_trace), 1, slow=True)
        rearm_sched["name"] = "model-counterexample-rearm-after-render"
        # 1d. known-bad variant: a bounded backlog that drops the newest notification when it is full
        capc = dict(mr=1, nobs=1, chg=3, env=1, sil=2, maxt=4)
        wd.write("ObserveServer_cap.cfg", MC_CFG % dict(capc, drop="TRUE", slow="FALSE", rearm="TRUE", shared="FALSE", cap=1, extra=INVS))
        mcc = tlc.run(wd, "ObserveServer.tla", "ObserveServer_cap.cfg", timeout=600)
        tlc.need_ok_run(mcc, "ObserveServer model check (bounded-backlog variant)")
        capset = mcc.error_trace[-1][1].get("obs", {}).get("bad", ()) if mcc.error_trace else ()
        if not any(str(c).startswith("C08_LatestEventuallySent") for c in capset):
            raise MachineryError("the bounded-backlog variant of the model is expected to violate C08_LatestEventuallySent; TLC says %s %s" % (mcc.violated, sorted(capset)))
        lap("pinned_variant")
        # 2. behaviours of the variant the tree conforms to
        simc = dict(mr=1, nobs=2, chg=3, env=6, sil=3, maxt=8)
        model = []
        for tag, slow, shared, num in (("fast", False, False, nsim // 2), ("shared", False, True, nsim - nsim // 2),
                                       ("slow", True, False, nslow // 2), ("slowshared", True, True, nslow - nslow // 2)):
            wd.write("ObserveServer_sim_%s.cfg" % tag, MC_CFG % dict(simc, drop="FALSE" if pinned_like else "TRUE",
                                                                       slow="TRUE" if slow else "FALSE", rearm="TRUE",
                                                                       shared="TRUE" if shared else "FALSE", cap=0, extra=""))
            simdir = wd.file("sim_" + tag)
            os.makedirs(simdir)
            sim = tlc.run(wd, "ObserveServer.tla", "ObserveServer_sim_%s.cfg" % tag, workers=1, timeout=900,
                          simulate="file=%s/tr,num=%d" % (simdir, num), depth=45, seed=seed + 1)
            tlc.need_ok_run(sim, "ObserveServer simulation (%s renderer)" % tag)
            model += [behaviour_to_schedule(b, 1, slow) for b in tlc.read_sim_traces(os.path.join(simdir, "tr"))]
        lap("simulate")
        model = [m for m in model if m[0]["steps"]]
        nslow_model = len([m for m in model if m[0]["rgate"]])
        bases = base_scenarios()
        rands = [random_schedule(rng, i) for i in range(nrand)]
        scheds = [cex_sched] + [m[0] for m in model] + bases + rands + [rearm_sched]
        results = [cex_res] + run_all(scheds[1:])
        for s, res in zip(scheds, results):
            if "error" in res:
                raise MachineryError("driver failed on schedule %s\n%s" % (json.dumps(s)[:600], res["error"]))
        lap("run_on_implementation")
        ndrift = 0
        for (s, exp, tlast), res in zip(model, results[1:]):
            d = compare(exp, res["events"], tlast)
            if d:
                ndrift += 1
                rep.add_drift("model behaviour not reproduced by implementation: " + d)
        # 3. every recorded trace judged by TLC
        groups = {}
        for i, s in enumerate(scheds):
            groups.setdefault(s["tuning"]["MAX_RETRANSMIT"], []).append(i)
        verdicts = [None] * len(scheds)
        for mr, idxs in sorted(groups.items()):
            vs = validate(wd, mr, [results[i]["events"] for i in idxs])
            for i, v in zip(idxs, vs):
                verdicts[i] = v
        lap("trace_validation")
        max_obs = max([e["obs"] for res in results for e in res["events"] if e["k"] == "tx"] + [0])
        clause_hits = {}
        causes_seen = {}
        rstnon = 0
        nevents = 0
        for i, v in enumerate(verdicts):
            ev = results[i]["events"]
            nevents += len(ev)
            rstnon += v["rstnon"]
            for c in v["causes"]:
                if c[0]:
                    causes_seen["%s:%s" % c] = causes_seen.get("%s:%s" % c, 0) + 1
            for name in sorted(v["bad"]):
                clause = name.split(":")[0]
                clause_hits[name] = clause_hits.get(name, 0) + 1
                if clause.startswith("MON_"):
                    raise MachineryError("monitor precondition broken (%s) on schedule %s" % (name, json.dumps(scheds[i])[:400]))
                at = v["bad"][name]
                rep.violation(
                    clause,
                    "%s|%s" % (name, shape_of(scheds[i])),
                    "clause %s false at event %d of a recorded execution (%d events, scenario %s): ... %s; loop exceptions %s"
                    % (name, at, len(ev), scheds[i].get("name"), " / ".join(short(e).strip() for e in ev[max(0, at - 3):at]), results[i]["meta"]["loop_exceptions"][:1]),
                    {"schedule": scheds[i], "events": ev, "meta": results[i]["meta"], "clause_at": v["bad"]},
                )
        cex_reproduced = bool(verdicts[0]["bad"])
        if pinned_like and not cex_reproduced:
            raise MachineryError("the implementation follows the pinned variant's counterexample event by event but no clause is false on the real trace")
        if cex_reproduced:
            rep.notes.append("TLC's counterexample of the pinned-tree model variant (%s) reproduces on the implementation: %s"
                             % (mcp.violated, sorted(verdicts[0]["bad"])))
        else:
            rep.notes.append("TLC's counterexample of the pinned-tree model variant does not reproduce: the tree drops queued notifications of an ended registration (repaired design)")
        if not rep.violations:
            kinds = {c.split(":")[0] for c in causes_seen}
            miss = [c for c in CAUSES if c not in kinds]
            if miss:
                raise MachineryError("end causes never exercised on the implementation: %s" % miss)
            if rstnon == 0:
                raise MachineryError("no Reset answering a non-confirmable notification was recorded")
        rep.coverage.update(
            {
                "states": sum(m.distinct for m in mcs),
                "transitions": sum(m.generated for m in mcs),
                "model_checks": [dict(c, states=m.distinct, transitions=m.generated, depth=m.depth, wall_s=round(m.wall, 1)) for c, m in zip(mc_confs, mcs)],
                "pinned_variant_check": dict(cexc, violated=mcp.violated, states=mcp.distinct, counterexample_len=len(mcp.error_trace),
                                             reproduced_on_implementation=cex_reproduced),
                "implementation_conforms_to_variant": "DropQueuedOnStop=FALSE (pinned)" if pinned_like else "DropQueuedOnStop=TRUE (repaired)",
                "traces_validated_against_impl": len(scheds),
                "events_validated": nevents,
                "schedules_from_model_behaviours": len(model),
                "of_which_with_suspending_renderer": nslow_model,
                "rearm_after_render_variant_check": dict(badc, violated=mcb.violated, states=mcb.distinct, clauses=sorted(str(c) for c in badset),
                                                         reproduced_on_implementation=bool(verdicts[-1]["bad"])),
                "random_schedules_with_suspending_renderer": len([x for x in rands if x.get("rgate")]),
                "model_behaviours_reproduced_exactly": len(model) - ndrift,
                "targeted_scenarios": [b["name"] for b in bases],
                "random_schedules": len(rands),
                "random_schedules_with_a_storm_of_changes": len([x for x in rands if len([y for y in x["steps"] if y["do"] == "change"]) >= 20]),
                "largest_observe_value_on_the_wire": max_obs,
                "bounded_backlog_variant_check": dict(capc, violated=mcc.violated, states=mcc.distinct, clauses=sorted(str(c) for c in capset)),
                "end_causes_exercised_on_impl": dict(sorted(causes_seen.items())),
                "resets_to_non_notifications_recorded_not_judged": rstnon,
                "clauses_false_somewhere": clause_hits,
                "samples": [
                    {"schedule": model[0][0] if model else None, "events": [short(e) for e in (results[1]["events"][:18] if model else [])]},
                    {"schedule": scheds[-1], "events": [short(e) for e in results[-1]["events"][:18]]},
                ],
                "phase_wall_s": phases,
                "exhaustive": True,
                "checker_cmd": "tlc ObserveServer.tla (exhaustive x%d + pinned variant + -simulate); tlc ObserveServerTrace.tla on recorded traces" % len(mcs),
            }
        )
        rep.assumptions += [
            "virtual-time event loop and fake UDP socket stand in for the OS (harness/vloop.py, fakenet.py); independent wire codec",
            "self-describing payloads of the test resource (state number, registration number) identify what a notification was rendered from and for whom",
            "a confirmable notification sent MAX_RETRANSMIT+1 times and never answered has timed out once twice the last retransmission gap has passed (back-off = C03); MAX_RETRANSMIT >= 1",
            "observers do not reuse a message ID for a different request; repeated request datagrams arrive within EXCHANGE_LIFETIME",
            "registrations are short: at most about 75 notifications per registration are generated (largest Observe value of this run: coverage.largest_observe_value_on_the_wire), so faults of the Observe counter that need more (wrap-around at 2^16 / 2^24, clamping) are out of reach of this check",
            "the resource's set of observations is replaced by a container with the same interface that iterates in registration order (reproducible serving order)",
            "a Reset answering a non-confirmable notification is recorded, not judged (DESIGN section 10); retransmissions of an already sent notification are not 'further notifications'",
        ]


if __name__ == "__main__":
    sys.exit(runner.main("C08", work))
