"""C04 / C10: message layer, server role and reaction table.

1. TLC exhaustively checks spec/MsgServer.tla (implementation-shaped model with
   the clauses of MsgServerObs as invariants), the endpoint's own message-ID
   counter sharing a small range with the peers' IDs.  A counterexample is
   replayed on the real stack; it only counts if the real trace shows the
   clause false as well.
2. spec -> code: simulated behaviours of the model become schedules executed
   at the model's instants; predicted events are compared (DRIFT otherwise).
3. code -> spec: all recorded traces, plus randomised real-parameter
   schedules (duplicates at every position relative to handler completion,
   EMPTY_ACK_DELAY and EXCHANGE_LIFETIME, the full reaction table), are
   validated by TLC against MsgServerTrace.tla."""

import json
import os
import random

from harness import tlc, tracecheck, MachineryError
from harness.drive import run_all

MC_CFG = """SPECIFICATION Spec
CONSTANTS
  EmptyAckDelay = 1
  ExchangeLifetime = 3
  NRemotes = %(nrem)d
  MidSpace = 3
  NToks = 2
  MaxInv = 2
  MaxTime = 7
  MaxEnv = %(maxenv)d
%(view)s
%(invs)s
"""
INVS = "INVARIANT NoBad\nINVARIANT PiggyOnlyForRunning"

MODEL_TUNING = {"EMPTY_ACK_DELAY": 1.0, "EXCHANGE_LIFETIME": 3.0}
BASE = 200  # real message ID corresponding to model ID 0


def behaviour_to_schedule(beh):
    """-> (schedule, expected events) or None if the model's ID counter wraps."""
    steps = []
    expected = []
    first = beh[0][1]
    n0 = first["nextMid"]
    nsep = 0
    for label, st in beh[1:]:
        emit = st.get("emit", [])
        if not emit:
            continue
        e0 = emit[0]
        t = e0["t"] * 1024
        if e0["k"] == "rx":
            s = {"at": t, "do": "rx", "r": e0["r"], "ty": e0["ty"], "mid": BASE + e0["mid"], "code": e0["code"]}
            if e0["cls"] == "req":
                s["tok"] = e0["tok"]
                s["path"] = ["h", "1"]
            elif e0["cls"] == "resp":
                s["tok"] = e0["tok"]
            elif label.startswith("AckSep"):
                # the peer acknowledges the separate response it was just sent, whatever ID the endpoint gave it
                s["mid"] = {"last_tx": {"ty": "CON", "cls": "resp"}, "else": BASE + e0["mid"]}
            steps.append(s)
        elif e0["k"] == "release":
            steps.append({"at": t, "do": "release", "inv": e0["inv"], "outcome": "ok"})
        for e in emit:
            expected.append(
                {
                    "k": e["k"],
                    "t": e["t"] * 1024 if e["k"] not in ("rxend", "end") else None,
                    "r": e["r"],
                    "ty": e["ty"],
                    "mid": BASE + e["mid"] if e["k"] in ("rx", "tx", "call") else 0,
                    "tok": e["tok"] if e["k"] in ("rx", "tx", "call") else "",
                    "cls": e["cls"] if e["k"] in ("rx", "tx") else "",
                    "inv": e["inv"] if e["k"] in ("call", "release") else 0,
                }
            )
    # wrap detection: count separate responses
    own = [e for e in expected if e["k"] == "tx" and e["cls"] == "resp" and e["ty"] in ("CON", "NON")]
    if n0 + len(own) > 3:
        return None
    sched = {
        "tuning": dict(MODEL_TUNING),
        "mid0": BASE + n0,
        "tok0": 50,
        "nremotes": 2,
        "handlers": {"1": {"delay": None}},
        "steps": steps,
        "horizon": 12 * 1024,
    }
    return sched, expected


def _key(e):
    return (e["k"], e["r"], e["ty"], e["mid"], e["tok"], e["cls"], e["inv"])


def project(e):
    return {
        "k": e["k"],
        "t": e["t"],
        "r": e["r"] if e["k"] in ("rx", "tx", "call") else 0,
        "ty": e["ty"],
        "mid": e["mid"] if e["k"] in ("rx", "tx", "call") else 0,
        "tok": e["tok"] if e["k"] in ("rx", "tx", "call") else "",
        "cls": e["cls"] if e["k"] in ("rx", "tx") else "",
        "inv": e["inv"] if e["k"] in ("call", "release") else 0,
    }


def compare(expected, real):
    """None if the recorded events start with the predicted ones; timers of one
    instant may fire in either order, so a mismatch is re-examined comparing
    the events of that instant as multisets."""
    exp = [x for x in expected if x["k"] != "end"]
    got = [project(x) for x in real if x["k"] in ("rx", "rxend", "tx", "call", "release")]
    # give untimed model events the time of their predecessor
    last = 0
    for x in exp:
        if x["t"] is None:
            x["t"] = last
        last = x["t"]
    n = min(len(exp), len(got))
    i = 0
    while i < n:
        if _key(exp[i]) == _key(got[i]) and exp[i]["t"] == got[i]["t"]:
            i += 1
            continue
        t = exp[i]["t"]
        a = sorted(_key(x) for x in exp if x["t"] == t)
        b = sorted(_key(x) for x in got if x["t"] == t)
        if a == b or (len(got) >= len(exp) and all(x in b for x in a) and t == exp[-1]["t"]):
            while i < n and exp[i]["t"] == t:
                i += 1
            continue
        return "event %d: model predicts %s at %s, implementation produced %s at %s" % (
            i + 1, _key(exp[i]), exp[i]["t"], _key(got[i]), got[i]["t"])
    if len(got) < len(exp):
        return "model predicts %d events, implementation produced %d; first missing %s" % (len(exp), len(got), _key(exp[n]))
    return None


# -- random real-parameter schedules ----------------------------------------------
EAD = 128  # 0.125 s
EL = 247 * 1024
REAL_TUNING = {"EMPTY_ACK_DELAY": 0.125}
REAL_CONSTS = {"EmptyAckDelay": EAD, "ExchangeLifetime": EL}


def random_schedule(rng, emphasis):
    steps = []
    triggers = []
    handlers = {}
    nrem = rng.choice([1, 2, 3])
    peer_mid = {r: rng.choice([0, 7, 65530, rng.randint(0, 65535)]) for r in range(1, nrem + 1)}
    share = rng.random() < 0.4  # peers reuse each other's message IDs
    if share:
        for r in peer_mid:
            peer_mid[r] = peer_mid[1]
    tokn = [0]

    def newtok():
        tokn[0] += 1
        return "%02x%02x" % (0xC0 + rng.randint(0, 15), tokn[0])

    t = 0
    nreq = rng.randint(1, 4)
    mid0 = rng.randint(0, 65535)
    collide = rng.random() < (0.5 if emphasis == "c04" else 0.2)
    hn = 0
    first_req_mid = None
    q = 0
    twoports = rng.random() < 0.3   # peers n and n + 10 share an address (and their message IDs) and differ in the port
    if twoports:
        for r in list(peer_mid):
            peer_mid[r + 10] = peer_mid[r]
    for i in range(nreq):
        r = rng.randint(1, nrem)
        if twoports and rng.random() < 0.5:
            r += 10
        t += rng.choice([0, 1, 40, 200, 1000])
        kind = rng.choices(
            ["req", "ping", "unresp", "misfit", "matched", "mcreq"],
            weights=[6, 1, 2, 1, 2, 0.7] if emphasis == "c10" else [8, 0.5, 0.5, 0.3, 0.7, 0.1]
        )[0]
        mid = peer_mid[r]
        peer_mid[r] = (peer_mid[r] + 1) & 0xFFFF
        if kind == "req":
            hn += 1
            ty = rng.choice(["CON", "CON", "NON"])
            delay = rng.choice([0, 0, 30, EAD - 1, EAD + 1, 300, 2000])
            outcome = rng.choice(["ok", "ok", "ok", "ok", "raise:NotFound", "raise:py:KeyError", "noresponse", "unencodable:payload",
                                  "code:134", "code:163", "code:65"])   # returned (not raised) 4.06 / 5.03 / 2.01: No-Response is per class
            nr = rng.choice([None, None, None, 26, 2, 8, 16, 0])
            handlers[str(hn)] = {"delay": delay, "outcome": outcome, "len": rng.choice([0, 5, 40])}
            tok = newtok()
            path = ["h", str(hn)] if rng.random() < 0.9 else ["nothere"]
            req = {"at": t, "do": "rx", "r": r, "ty": ty, "code": rng.choice([1, 1, 2, 3, 4]), "mid": mid, "tok": tok, "path": path, "nr": nr}
            steps.append(req)
            if first_req_mid is None:
                first_req_mid = mid
            # duplicates
            ndup = rng.choice([0, 0, 1, 2, 3]) if emphasis == "c04" else rng.choice([0, 0, 0, 1])
            for _ in range(ndup):
                off = rng.choice([1, 20, EAD - 1, EAD + 1, delay + 1 if delay else 3, delay + 50, 5000, EL - 1, EL + 1, EL + 5000])
                d = dict(req)
                d["at"] = t + off
                steps.append(d)
        elif kind == "ping":
            steps.append({"at": t, "do": "rx", "r": r, "ty": "CON", "code": 0, "mid": mid})
        elif kind == "unresp":
            steps.append(
                {
                    "at": t,
                    "do": "rx",
                    "r": r,
                    "ty": rng.choice(["CON", "NON", "ACK", "RST"]),
                    "code": rng.choice([69, 132, 0]) if True else 0,
                    "mid": mid,
                    "tok": newtok(),
                    "loc": rng.choice(["u", "u", "m", "m4"]),
                }
            )
        elif kind == "misfit":
            ty, code = rng.choice([("ACK", 1), ("RST", 2), ("RST", 69), ("NON", 0)])
            steps.append({"at": t, "do": "rx", "r": r, "ty": ty, "code": code, "mid": mid, "tok": newtok() if code else ""})
        elif kind == "mcreq":
            # the application asks for a (reliable) request to a multicast address: never a CON on the wire
            q += 1
            steps.append({"at": t, "do": "submit", "q": q, "r": r if r < 10 else r - 10, "con": rng.choice([True, None, False]), "mc": True})
            if rng.random() < 0.4:
                steps[-1]["mtype"] = "CON"      # ... even when the application insists on the type itself
            elif rng.random() < 0.6:
                # a group member answers from its unicast address, confirmably or not: a matching response
                rr = steps[-1]["r"]
                triggers.append({"on": {"q": q, "copy": 1}, "delay": rng.choice([1, 50, 900]),
                                 "rx": {"r": rr, "ty": rng.choice(["CON", "CON", "NON"]), "code": 69, "mid": mid, "tok": {"of": q}}})
        elif kind == "matched":
            q += 1
            if r > 10:
                r -= 10
            steps.append({"at": t, "do": "submit", "q": q, "r": r, "con": rng.choice([True, False]), "f": 0.5})
            rty = rng.choice(["CON", "CON", "NON", "ACK"])
            rx = {"r": r, "ty": rty, "code": 69, "mid": {"of": q} if rty == "ACK" else mid, "tok": {"of": q}}
            triggers.append({"on": {"q": q, "copy": 1}, "delay": rng.choice([1, 50, 900]), "rx": rx})
            if rng.random() < 0.4:  # the same response again: now unmatched
                rx2 = dict(rx)
                if rty != "ACK":
                    rx2["mid"] = (mid + 40000) & 0xFFFF
                triggers.append({"on": {"q": q, "copy": 1}, "delay": 1500, "rx": rx2})
            if rty != "ACK":
                triggers.append({"on": {"q": q, "copy": 1}, "delay": 2, "rx": {"r": r, "ty": "ACK", "code": 0, "mid": {"of": q}}})
    if collide and first_req_mid is not None:
        mid0 = (first_req_mid - rng.choice([0, 0, 1])) & 0xFFFF
    # the peer acknowledges separate CON responses (most of the time), or rejects them
    for nth in range(1, 8):
        if rng.random() < 0.85:
            triggers.append({"on": {"tx": {"ty": "CON", "cls": "resp", "nth": nth}}, "delay": rng.choice([1, 5, 600]),
                             "rx": {"ty": "ACK" if rng.random() < 0.8 else "RST", "code": 0, "mid": "same"}})
    steps.sort(key=lambda s: s["at"])
    return {
        "tuning": dict(REAL_TUNING),
        "mid0": mid0,
        "tok0": rng.randint(0, 65535),
        "nremotes": 4,
        "handlers": handlers,
        "steps": steps,
        "triggers": triggers,
        "horizon": 400 * 1024,
    }


def reject_schedule(rng):
    """Two or three slow confirmable requests of one peer, all acknowledged by an empty ACK; their separate responses
    queue up behind the first one (NSTART = 1), which the peer rejects with a Reset (or acknowledges late): the other
    requests are still owed their separate responses."""
    n = rng.choice([2, 2, 3])
    steps, handlers = [], {}
    for i in range(1, n + 1):
        handlers[str(i)] = {"delay": 200 + 60 * i, "outcome": "ok", "len": 5}
        steps.append({"at": 10 * i, "do": "rx", "r": 1, "ty": "CON", "code": 1, "mid": 500 + i, "tok": "b1%02x" % i, "path": ["h", str(i)]})
    first = rng.choice(["RST", "RST", "ACK"])
    trig = [{"on": {"tx": {"ty": "CON", "cls": "resp", "nth": 1}}, "delay": rng.choice([300, 700, 1500]), "rx": {"ty": first, "code": 0, "mid": "same"}}]
    for nth in range(2, 6):
        trig.append({"on": {"tx": {"ty": "CON", "cls": "resp", "nth": nth}}, "delay": rng.choice([1, 5, 300]),
                     "rx": {"ty": rng.choice(["ACK", "ACK", "RST"]), "code": 0, "mid": "same"}})
    return {"tuning": dict(REAL_TUNING), "mid0": rng.randint(0, 65535), "tok0": 9, "nremotes": 2,
            "handlers": handlers, "steps": steps, "triggers": trig, "horizon": 400 * 1024}


def load_schedule(rng, nfill):
    """A request, `nfill` other requests from other endpoints, then copies of the first one (still well inside
    EXCHANGE_LIFETIME): the endpoint's memory of what it has processed must not depend on how busy it is."""
    steps = [{"at": 0, "do": "rx", "r": 1, "ty": "CON", "code": 1, "mid": 777, "tok": "a101", "path": ["h", "1"]},
             {"at": 2, "do": "rx", "r": 2, "ty": "NON", "code": 1, "mid": 778, "tok": "a102", "path": ["h", "1"]}]
    for i in range(nfill):
        steps.append({"at": 10 + i, "do": "rx", "r": 3 + (i % 2), "ty": "NON", "code": 1, "mid": (1000 + i) & 0xFFFF,
                      "tok": "f%03x" % i, "path": ["h", "2"], "nr": 26})
    steps.append({"at": 20 + nfill, "do": "rx", "r": 1, "ty": "CON", "code": 1, "mid": 777, "tok": "a101", "path": ["h", "1"]})
    steps.append({"at": 22 + nfill, "do": "rx", "r": 2, "ty": "NON", "code": 1, "mid": 778, "tok": "a102", "path": ["h", "1"]})
    return {"tuning": dict(REAL_TUNING), "mid0": rng.randint(0, 65535), "tok0": 9, "nremotes": 4,
            "handlers": {"1": {"delay": 0, "outcome": "ok", "len": 5}, "2": {"delay": 0, "outcome": "ok", "len": 0}},
            "steps": steps, "triggers": [], "horizon": 400 * 1024}


def noresponse_matrix_schedule(rng):
    """RFC 7967 is a bit mask over response classes: every mask against a handler that *returns* a message of class
    2, 4 or 5 (a raised error is rendered by the library, where the statement is silent), for CON and NON requests,
    ready before and after EMPTY_ACK_DELAY.  One request per combination, a fresh peer message ID and token each."""
    steps = []
    handlers = {}
    hn = 0
    t = 0
    mid = rng.randint(0, 60000)
    masks = [0, 2, 8, 16, 10, 18, 24, 26, 1, 4]
    for nr in masks:
        for outcome in ("ok", "code:134", "code:163", "code:65", "code:128"):
            for ty in ("CON", "NON"):
                for delay in (0, EAD + 40):
                    if rng.random() < 0.5:
                        continue
                    hn += 1
                    handlers[str(hn)] = {"delay": delay, "outcome": outcome, "len": 5}
                    t += rng.choice([3, 50, 400])
                    mid = (mid + 1) & 0xFFFF
                    steps.append({"at": t, "do": "rx", "r": 1 + hn % 2, "ty": ty, "code": rng.choice([1, 2, 3]), "mid": mid,
                                  "tok": "c%03x" % hn, "path": ["h", str(hn)], "nr": nr})
    # every separate confirmable response is acknowledged
    trig = [{"on": {"tx": {"ty": "CON", "cls": "resp", "nth": n}}, "delay": 2, "rx": {"ty": "ACK", "code": 0, "mid": "same"}}
            for n in range(1, hn + 2)]
    return {"tuning": dict(REAL_TUNING), "mid0": rng.randint(0, 65535), "tok0": 9, "nremotes": 2,
            "handlers": handlers, "steps": steps, "triggers": trig, "horizon": t + 400 * 1024}


def error_between_copies_schedule(rng):
    """Requests that have been answered completely (piggy-backed or NON, nothing left open), then a transport error
    reported for the requester (ICMP unreachable: its socket is gone), then copies of the requests, all well inside
    EXCHANGE_LIFETIME: what the endpoint remembers about processed requests does not depend on reported errors.
    A second peer's requests and copies run alongside."""
    steps = []
    handlers = {}
    t = 0
    mid = rng.randint(0, 60000)
    reqs = []
    n = rng.randint(1, 4)
    for i in range(1, n + 1):
        handlers[str(i)] = {"delay": rng.choice([0, 0, 20]), "outcome": "ok", "len": rng.choice([0, 5, 40])}
        t += rng.choice([1, 30, 300])
        mid = (mid + 1) & 0xFFFF
        req = {"at": t, "do": "rx", "r": rng.choice([1, 1, 2]), "ty": rng.choice(["CON", "NON"]), "code": rng.choice([1, 2, 3]),
               "mid": mid, "tok": "e%03x" % i, "path": ["h", str(i)]}
        steps.append(req)
        reqs.append(req)
    t += 200
    for _ in range(rng.choice([1, 1, 2])):
        t += rng.choice([1, 50, 2000])
        steps.append({"at": t, "do": "err", "r": 1})
    for req in reqs:
        for _ in range(rng.choice([1, 1, 2])):
            t += rng.choice([1, 40, 3000, 20000])
            steps.append(dict(req, at=t))
    return {"tuning": dict(REAL_TUNING), "mid0": rng.randint(0, 65535), "tok0": 9, "nremotes": 2,
            "handlers": handlers, "steps": steps, "triggers": [], "horizon": 400 * 1024}


def sig_of(clause, sched):
    shape = []
    for s in sched["steps"]:
        if s["do"] == "rx":
            shape.append("rx:%s:%s" % (s["ty"], "req" if 0 < s.get("code", 0) < 32 else ("resp" if s.get("code", 0) >= 64 else "empty")))
        else:
            shape.append(s["do"])
    return "%s|%s" % (clause, ",".join(shape)[:160])


def check(rep, args, prefix, emphasis):
    quick = args.tier == "quick"
    seed = args.seed
    rng = random.Random(seed * 104729 + (4 if prefix == "C04_" else 10))
    mc_consts = dict(nrem=2, maxenv=3 if quick else 5)
    nsim = 300 if quick else 3000
    nrand = 500 if quick else 8000
    with tlc.Workdir() as wd:
        wd.write("MsgServer_run.cfg", MC_CFG % dict(mc_consts, view="VIEW View", invs=INVS))
        mc = tlc.run(wd, "MsgServer.tla", "MsgServer_run.cfg", timeout=900 if quick else 3000)
        tlc.need_ok_run(mc, "MsgServer model check")
        wd.write("MsgServer_sim.cfg", MC_CFG % dict(nrem=2, maxenv=6, view="", invs=""))
        simdir = wd.file("sim")
        os.makedirs(simdir)
        sim = tlc.run(
            wd,
            "MsgServer.tla",
            "MsgServer_sim.cfg",
            workers=1,
            timeout=600,
            simulate="file=%s/tr,num=%d" % (simdir, nsim),
            depth=30,
            seed=seed + 1,
            continue_=True,
        )
        if tlc.fatal(sim) and not sim.violated:
            tlc.need_ok_run(sim, "MsgServer simulation")
        behaviours = tlc.read_sim_traces(os.path.join(simdir, "tr"))
        cex = None
        if mc.error_trace:
            cex = [(lbl, st) for lbl, st in mc.error_trace]
            behaviours.insert(0, cex)
        model_scheds = []
        skipped = 0
        for beh in behaviours:
            res = behaviour_to_schedule(beh)
            if res is None:
                skipped += 1
                continue
            if res[0]["steps"]:
                model_scheds.append(res)
        rand_scheds = [random_schedule(rng, emphasis) for _ in range(nrand)]
        rand_scheds += [reject_schedule(rng) for _ in range(12 if quick else 120)]
        rand_scheds += [noresponse_matrix_schedule(rng) for _ in range(2 if quick else 12)]
        rand_scheds += [error_between_copies_schedule(rng) for _ in range(40 if quick else 400)]
        rand_scheds += [load_schedule(rng, 600)] + ([] if quick else [load_schedule(rng, 1100), load_schedule(rng, 2500)])
        all_scheds = [s for s, _ in model_scheds] + rand_scheds
        results = run_all(all_scheds)
        for s, res in zip(all_scheds, results):
            if "error" in res:
                raise MachineryError("driver failed on schedule %s\n%s" % (json.dumps(s)[:400], res["error"]))
        ndrift = 0
        for (s, exp), res in zip(model_scheds, results):
            d = compare(exp, res["events"])
            if d:
                ndrift += 1
                rep.add_drift("model behaviour not reproduced by implementation: " + d)
        groups = {}
        for idx, s in enumerate(all_scheds):
            if idx < len(model_scheds):
                c = {"EmptyAckDelay": 1024, "ExchangeLifetime": 3 * 1024}
            else:
                c = REAL_CONSTS
            groups.setdefault(tuple(sorted(c.items())), []).append(idx)
        validated = 0
        shapes = set()
        clause_hits = {}
        for ckey, idxs in groups.items():
            consts = dict(ckey)
            traces = [results[i]["events"] for i in idxs]
            verdicts, r = tracecheck.validate(wd, "MsgServerTrace", "MsgServerTrace.cfg.tmpl", consts, traces)
            validated += len(traces)
            for i, v in zip(idxs, verdicts):
                ev = results[i]["events"]
                shapes.add(tuple(e["k"] + e["ty"] + e["cls"] for e in ev if e["k"] in ("rx", "tx")))
                for clause in sorted(v["bad"]):
                    clause_hits[clause] = clause_hits.get(clause, 0) + 1
                    if clause.startswith("MON_"):
                        raise MachineryError("monitor precondition broken (%s) on schedule %s" % (clause, json.dumps(all_scheds[i])[:300]))
                    if not clause.startswith(prefix):
                        continue
                    rep.violation(
                        clause,
                        sig_of(clause, all_scheds[i]),
                        "clause %s false at event %d of a recorded execution (%d events); consts %s; loop exceptions %s"
                        % (clause, v["at"][clause], len(ev), consts, results[i]["meta"]["loop_exceptions"][:1]),
                        {"schedule": all_scheds[i], "events": ev, "consts": consts, "meta": results[i]["meta"]},
                    )
        if mc.violated:
            rep.notes.append("model check reported %s; counterexample replayed on the implementation" % mc.violated)
            if not [v for v in rep.violations]:
                # the design-level counterexample did not show up on the real code for this property's clauses
                mine = [c for c in clause_hits if c.startswith(prefix)]
                if not mine and any(True for _ in [1]):
                    rep.add_drift("model admits %s but no clause of this property failed on the real replay" % mc.violated)
        rep.coverage.update(
            {
                "states": mc.distinct,
                "transitions": mc.generated,
                "depth": mc.depth,
                "model_check_violated": mc.violated,
                "mc_constants": mc_consts,
                "traces_validated_against_impl": validated,
                "schedules_from_model_behaviours": len(model_scheds),
                "model_behaviours_skipped_id_wrap": skipped,
                "model_behaviours_reproduced_exactly": len(model_scheds) - ndrift,
                "random_schedules": len(rand_scheds),
                "distinct_wire_shapes": len(shapes),
                "clauses_false_somewhere_any_property": clause_hits,
                "samples": [
                    {"schedule": all_scheds[0], "events": results[0]["events"][:14]},
                    {"schedule": all_scheds[-1], "events": results[-1]["events"][:14]},
                ],
                "exhaustive": not mc.violated,
                "checker_cmd": "tlc MsgServer.tla (exhaustive + -simulate); tlc MsgServerTrace.tla on recorded traces",
            }
        )
        rep.assumptions += [
            "virtual-time event loop and fake UDP socket stand in for the OS (harness/vloop.py, fakenet.py)",
            "peers keep tokens of concurrently outstanding requests distinct and do not reuse a message ID for a different message within EXCHANGE_LIFETIME",
            "a copy arriving exactly EXCHANGE_LIFETIME after the first is not judged (either reading admissible)",
            "EMPTY_ACK_DELAY patched to 0.125 s (dyadic) in real-parameter runs",
        ]
