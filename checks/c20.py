"""C20: resource directory -- lookups reflect exactly the live registrations.

1. TLC exhaustively checks spec/ResourceDirectory.tla (implementation-shaped
   model of aiocoap/cli/rd.py + the clauses of ResourceDirectoryObs as
   invariants) for small constants with every handler validating before it
   mutates (Hyp = {}): the design the property asks for is consistent.
2. The same model with the *order hypotheses* switched on (handlers mutate
   where a reading of rd.py says they do) is explored exhaustively; every
   state in which a clause is false yields a candidate history.
3. spec -> code: the candidate histories and TLC -simulate behaviours with
   larger constants (more names, sectors, peers, every invalid request form)
   are replayed as raw CoAP datagrams against a real server Context carrying
   StandaloneResourceDirectory on the fake network under virtual time.
4. code -> spec: every recorded trace is validated by TLC against
   ResourceDirectoryTrace.tla, which keeps its own book of successful writes
   and evaluates the clauses at every step of the real execution.  Only a
   clause false on a real trace is a VIOLATION; a failing trace is shrunk
   (again judged by TLC on real executions) to a minimal history whose shape
   is the stable signature."""

import json
import os
import random
from multiprocessing import Pool

from harness import tlc, MachineryError, runner

GRACE_Q = 1  # Registration.grace_period = 15 s = 1 quantum (checked against the code at run time)
DEFAULT_LT_Q = 6000  # 90000 s

WRAP = """---- MODULE RD_run ----
EXTENDS ResourceDirectory
def_RegProfiles == %(reg)s
def_UpdProfiles == %(upd)s
def_PutProfiles == %(put)s
====
"""

CFG = """SPECIFICATION %(spec)s
CONSTANTS
  Grace = %(grace)d
  DefaultLt = %(deflt)d
  Srcs = %(srcs)s
  Eps = %(eps)s
  Ds = %(ds)s
  RegProfiles <- def_RegProfiles
  UpdProfiles <- def_UpdProfiles
  PutProfiles <- def_PutProfiles
  RegVars = %(regvars)s
  UpdVars = %(updvars)s
  PutVars = %(putvars)s
  Adv = %(adv)s
  MaxTime = %(maxtime)d
  MaxOps = %(maxops)d
  Hyp = %(hyp)s
  KeepHist = %(keephist)s
%(tail)s
"""

MC_TAIL = """VIEW View
INVARIANT Inv_LookupsAreLive
INVARIANT Inv_OnePerKey
INVARIANT Inv_ReRegisterKeepsLocation
INVARIANT Inv_LocationsDistinct
INVARIANT Inv_FailedWriteChangesNothing
INVARIANT IndexesAgree
INVARIANT BookAgrees
"""
HYP_TAIL = "VIEW View\nINVARIANT ReportBad\n"
SIM_TAIL = "INVARIANT NoBad\nINVARIANT ReportHist\n"

ALL_HYP = '{"RegDeleteBeforeValidate", "UpdMutateBeforeBodyCheck"}'


def tla_set(xs):
    return "{" + ", ".join(json.dumps(x) if isinstance(x, str) else str(x) for x in xs) + "}"


def tla_recs(recs):
    return "{" + ", ".join("[" + ", ".join("%s |-> %d" % kv for kv in r.items()) + "]" for r in recs) + "}"


def P(lt, base, x, links=None):
    d = {"lt": lt, "base": base, "x": x}
    if links is not None:
        d["links"] = links
    return d


# exhaustive configuration: 2 names x 2 sectors, lt 60 s / 120 s, one request form per handler stage
MC = dict(
    srcs=[1], eps=["e1", "e2"], ds=["", "s1"],
    reg=[P(4, 0, 0, 1), P(8, 1, 1, 2)],
    upd=[P(0, 0, 0), P(8, 1, 1)],
    put=[P(0, 0, 1, 2)],
    regvars=["ok", "noep", "ltnan"], updvars=["ok", "ep", "body"], putvars=["ok", "nocf"],
    adv=[1], maxtime=11,
)
# thorough tier, 4 requests: the request forms that fail before anything could change are left to the 3-request run
MC4 = dict(MC, maxtime=9, regvars=["ok", "ltnan"], updvars=["ok", "body"], putvars=["ok"])
# simulation: more of everything, every request form
SIM = dict(
    srcs=[1, 2], eps=["e1", "e2", "e3"], ds=["", "s1", "s2"],
    reg=[P(4, 0, 0, 1), P(8, 1, 1, 2), P(0, 0, 2, 3), P(4, 2, 0, 0), P(5, 0, 1, 2)],
    upd=[P(0, 0, 0), P(8, 1, 1), P(4, 0, 2), P(0, 2, 0), P(5, 0, 0)],
    put=[P(0, 0, 1, 2), P(4, 0, 0, 1), P(0, 1, 0, 3), P(8, 0, 0, 0)],
    regvars=["ok", "ok", "nocf", "badcf", "badlf", "noep", "ep2", "d2", "proxy", "ltnan", "lt2", "base2",
             "rsvd_rt", "rsvd_page", "rsvd_count", "rsvd_href", "rsvd_anchor", "ltnoval"],
    updvars=["ok", "ep", "d", "ltnan", "lt2", "base2", "rsvd_rt", "rsvd_page", "rsvd_count", "rsvd_href",
             "rsvd_anchor", "ltnoval", "body", "cfbody", "cf"],
    putvars=["ok", "nocf", "badlf", "ep", "ltnan", "rsvd_rt", "ltnoval"],
    adv=[1, 2, 3, 4, 5], maxtime=24,
)


def write_cfg(wd, name, c, maxops, hyp, tail):
    wd.write("RD_run.tla", WRAP % dict(reg=tla_recs(c["reg"]), upd=tla_recs(c["upd"]), put=tla_recs(c["put"])))
    wd.write(
        name,
        CFG
        % dict(
            grace=GRACE_Q, deflt=DEFAULT_LT_Q, srcs=tla_set(c["srcs"]), eps=tla_set(c["eps"]), ds=tla_set(c["ds"]),
            regvars=tla_set(sorted(set(c["regvars"]))), updvars=tla_set(sorted(set(c["updvars"]))),
            putvars=tla_set(sorted(set(c["putvars"]))), adv=tla_set(c["adv"]), maxtime=c["maxtime"],
            maxops=maxops, hyp=hyp, tail=tail, spec="SimSpec" if tail is SIM_TAIL else "Spec", keephist="FALSE" if tail is MC_TAIL else "TRUE",
        ),
    )


STEP_KEYS = ("k", "t", "src", "ep", "d", "loc", "lt", "base", "x", "links", "var", "n", "cls")


def hist_to_history(hist):
    """TLC value of the model's `hist' -> replayable history (plus the model's
    predicted response class / location per request)."""
    steps = []
    at = {}  # model location -> id of the registration step that holds it
    for i, h in enumerate(hist):
        st = {k: h[k] for k in STEP_KEYS}
        st["id"] = i
        if st["k"] == "reg" and st["cls"] == 2:
            at[st["loc"]] = i
        elif st["k"] in ("upd", "put", "del"):
            # the location is meant as "the one that registration got", whatever its name
            st["ref"] = at.get(st["loc"])
            if st["ref"] is None:
                del st["ref"]
        steps.append(st)
    return {"steps": steps}


def _dbg(msg, _t=[None]):
    import sys, time

    if os.environ.get("VERIF_DEBUG"):
        now = time.time()
        print("[c20 +%.1fs] %s" % (0 if _t[0] is None else now - _t[0], msg), file=sys.stderr, flush=True)
        _t[0] = now


def _run(h):
    import warnings

    warnings.simplefilter("ignore")
    from harness.rddrive import run_history

    try:
        return run_history(h)
    except Exception:
        import traceback

        return {"error": traceback.format_exc()}


def run_all(hists, pool):
    if not hists:
        return []
    res = pool.map(_run, hists, chunksize=max(1, len(hists) // 64))
    for h, r in zip(hists, res):
        if "error" in r:
            raise MachineryError("driver failed on history %s\n%s" % (json.dumps(h)[:400], r["error"]))
    return res


def validate(wd, traces, timeout=900):
    """TLC evaluates the clauses on every recorded trace.  Returns a list of
    {len, firstBad, bad, blame} aligned with traces, and the TLC result."""
    if not traces:
        return [], None
    tf = wd.file("ResourceDirectoryTrace-traces.json")
    with open(tf, "w") as f:
        json.dump(traces, f, separators=(",", ":"))
    tmpl = open(os.path.join(tlc.SPEC_DIR, "ResourceDirectoryTrace.cfg.tmpl")).read()
    wd.write("ResourceDirectoryTrace-run.cfg", tmpl % {"Grace": GRACE_Q, "DefaultLt": DEFAULT_LT_Q})
    r = tlc.run(wd, "ResourceDirectoryTrace.tla", "ResourceDirectoryTrace-run.cfg", workers=1, timeout=timeout,
                env={"TRACE_FILE": tf}, dfs=True, heap="8g")
    tlc.need_ok_run(r, "ResourceDirectoryTrace trace validation")
    out = [None] * len(traces)
    for v in tlc.printed_values(r, "TRACE"):
        _, tid, n, first, bad, blame = v
        out[tid - 1] = {"len": n, "firstBad": first, "bad": set(bad), "blame": sorted(tuple(b) for b in blame)}
    for i, x in enumerate(out):
        if x is None:
            raise MachineryError("ResourceDirectoryTrace: no verdict for trace %d\n%s" % (i, r.out[-2000:]))
        if x["len"] != len(traces[i]):
            raise MachineryError("ResourceDirectoryTrace: trace %d consumed %d of %d events" % (i, x["len"], len(traces[i])))
    return out, r


def grp(st):
    from harness.rddrive import GROUPS

    return GROUPS[st["k"]][st.get("var") or "ok"]


def shape(history):
    """Normalised operation-history shape: operations with the group of their
    request form; names, parameter values and clock steps are dropped."""
    return ",".join("%s:%s" % (s["k"], grp(s)) for s in history["steps"] if s["k"] != "adv")


def retime(steps):
    """After removing steps: keep the clock monotone and drop empty clock steps."""
    out, now = [], 0
    for s in steps:
        if s["k"] == "adv":
            if s["t"] <= now:
                continue
            now = s["t"]
        out.append(s)
    # merge adjacent clock steps?  no: the lookups after each of them are observations
    return out


SWEEP = 12  # quanta looked at after the last request of a canonical candidate (> longest lifetime + grace)


def adv_step(t):
    return {"k": "adv", "t": t, "src": 0, "ep": "", "d": "", "loc": 0, "lt": 0, "base": 0, "x": 0, "links": 0, "var": "", "n": 1, "cls": 0}


def _ops_subsets(n, kmax):
    from itertools import combinations

    for k in range(1, kmax + 1):
        for c in combinations(range(n), k):
            yield c


def compact_clock(h, t_fail):
    """Keep only the clock steps that place a request at its instant (the last
    one before each request) and one step to the instant of the failing
    lookup."""
    out, pending, now = [], None, 0
    for s in h["steps"]:
        if s["k"] == "adv":
            pending = s
            continue
        if pending is not None:
            out.append(pending)
            now = pending["t"]
            pending = None
        out.append(s)
    if t_fail > now:
        out.append(adv_step(t_fail))
    return {"steps": out}


def minimise_all(wd, pool, items, kmax=3):
    """items: list of (history, clause, result, verdict).  Shrinks every history
    to a small one that still violates its clause *on the real code* (every
    candidate is executed and judged by TLC; all candidates of one round go
    into one TLC batch).  Round 1: all sub-histories with <= kmax requests, on
    the original clock and on a canonical clock; round 2: only the clock
    steps that matter.  Returns [(history, result, verdict)]."""
    nops = lambda hh: sum(1 for s in hh["steps"] if s["k"] != "adv")
    cur = [(h, r, v) for h, _, r, v in items]
    cands, owner = [], []
    for gi, (h, clause, _, _) in enumerate(items):
        opi = [i for i, s in enumerate(h["steps"]) if s["k"] != "adv"]
        for sub in _ops_subsets(len(opi), min(kmax, len(opi) - 1)):
            keep = {opi[j] for j in sub}
            steps = retime([s for i, s in enumerate(h["steps"]) if s["k"] == "adv" or i in keep])
            cands.append({"steps": steps})
            owner.append(gi)
            # the same requests on a canonical clock: one quantum apart, then a sweep over every instant
            steps, t = [], 0
            for j in sub:
                if steps:
                    t += 1
                    steps.append(adv_step(t))
                steps.append(h["steps"][opi[j]])
            for _ in range(SWEEP):
                t += 1
                steps.append(adv_step(t))
            cands.append({"steps": steps})
            owner.append(gi)
    if cands:
        res = run_all(cands, pool)
        verdicts, _ = validate(wd, [r["events"] for r in res])
        # candidates come in order of increasing number of requests, original clock first
        for c, gi, r, v in zip(cands, owner, res, verdicts):
            if items[gi][1] in v["bad"] and nops(c) < nops(cur[gi][0]):
                cur[gi] = (c, r, v)
    comp = [compact_clock(h, r["events"][v["firstBad"] - 1]["t"]) for h, r, v in cur]
    res = run_all(comp, pool)
    verdicts, _ = validate(wd, [r["events"] for r in res])
    for gi, (c, r, v) in enumerate(zip(comp, res, verdicts)):
        if items[gi][1] in v["bad"]:
            cur[gi] = (c, r, v)
    return cur


def compare_with_model(history, events):
    """Model-predicted response class / location of every request vs. the real
    one (DRIFT only)."""
    ops = [e for e in events if e["k"] in ("reg", "upd", "put", "del")]
    steps = [s for s in history["steps"] if s["k"] != "adv"]
    for s, e in zip(steps, ops):
        if s.get("cls") in (None, 0) or s.get("var") == "ltnoval":
            continue  # lt without a value: the statement does not say which error class
        if s["cls"] != e["cls"]:
            return "%s:%s answered %d.%02d, model predicts class %d" % (s["k"], s.get("var"), e["code"] >> 5, e["code"] & 31, s["cls"])
        if s["k"] == "reg" and s["cls"] == 2 and s["loc"] != e["loc"]:
            return "reg:%s got location #%d (order of first appearance), model predicts #%d" % (s.get("var"), e["loc"], s["loc"])
    return None


def check_grace():
    from harness import require_repo
    from harness.rddrive import QUANTUM

    require_repo()
    from aiocoap.cli.rd import CommonRD

    g = CommonRD.Registration.grace_period
    if g != GRACE_Q * QUANTUM:
        # the property leaves the length of the grace period to the code: follow it
        if g % QUANTUM:
            raise MachineryError("grace period %r s is not a whole number of %d s quanta" % (g, QUANTUM))
    return g // QUANTUM


def work(rep, args):
    global GRACE_Q
    quick = args.tier == "quick"
    seed = args.seed
    GRACE_Q = check_grace()
    with tlc.Workdir() as wd, Pool(min(16, os.cpu_count() or 4)) as pool:
        if args.replay:
            data = json.load(open(args.replay))
            h = data["replay"]["history"]
            res = run_all([h], pool)
            verdicts, _ = validate(wd, [res[0]["events"]])
            for clause in sorted(verdicts[0]["bad"]):
                rep.violation(clause, "%s|%s" % (clause, shape(h)), "replayed history violates %s at event %d" % (clause, verdicts[0]["firstBad"]),
                              {"history": h, "events": res[0]["events"]})
            # keep the evidence of the last full run; a replay only adds to it
            try:
                prev = json.load(open(os.path.join(runner.EVIDENCE_DIR, "C20.json")))
                rep.coverage.update(prev.get("coverage", {}))
                rep.assumptions += prev.get("assumptions", [])
                rep.tier = prev.get("tier", rep.tier)
            except (OSError, ValueError):
                rep.coverage.update({"states": 0, "transitions": 0, "traces_validated_against_impl": 1, "samples": [h]})
            rep.coverage["last_replay"] = {"file": args.replay, "clauses_false": sorted(verdicts[0]["bad"])}
            return

        # 1. exhaustive: the design (validate before mutate) satisfies every clause
        mc_ops = 3
        write_cfg(wd, "RD_mc.cfg", MC, mc_ops, "{}", MC_TAIL)
        mc = tlc.run(wd, "RD_run.tla", "RD_mc.cfg", timeout=600)
        tlc.need_ok_run(mc, "ResourceDirectory model check")
        mc4 = None
        if not quick and not mc.violated:
            write_cfg(wd, "RD_mc4.cfg", MC4, 4, "{}", MC_TAIL)
            mc4 = tlc.run(wd, "RD_run.tla", "RD_mc4.cfg", timeout=2400)
            tlc.need_ok_run(mc4, "ResourceDirectory model check, 4 requests")
            _dbg("mc4 done: %s" % mc4.summary())
            if mc4.violated:
                raise MachineryError("ResourceDirectory model (4 requests) with Hyp = {} violates %s: the specification is inconsistent\n%s"
                                     % (mc4.violated, mc4.out[-3000:]))
        _dbg("mc done: %s" % mc.summary())
        if mc.violated:
            raise MachineryError("ResourceDirectory model with Hyp = {} violates %s: the specification is inconsistent\n%s"
                                 % (mc.violated, mc.out[-3000:]))
        # 2. exhaustive with the order hypotheses: candidate histories
        write_cfg(wd, "RD_hyp.cfg", MC, 2 if quick else 3, ALL_HYP, HYP_TAIL)
        hyp = tlc.run(wd, "RD_run.tla", "RD_hyp.cfg", timeout=300 if quick else 1200)
        tlc.need_ok_run(hyp, "ResourceDirectory model check with order hypotheses")
        _dbg("hyp done: %s" % hyp.summary())
        cands = {}
        for v in tlc.printed_values(hyp, "BAD"):
            _, bad, blame, hist = v
            h = hist_to_history(hist)
            key = (tuple(sorted(bad)), shape(h))
            if key not in cands or len(h["steps"]) < len(cands[key]["steps"]):
                cands[key] = h
        cand_hists = [cands[k] for k in sorted(cands)]
        rng = random.Random(seed)
        max_cands = 150 if quick else 2000
        if len(cand_hists) > max_cands:
            cand_hists = rng.sample(cand_hists, max_cands)
        # 3. behaviours of the model with larger constants
        nsim = 300 if quick else 6000
        sim_ops = 10
        write_cfg(wd, "RD_sim.cfg", SIM, sim_ops, "{}", SIM_TAIL)
        sim = tlc.run(wd, "RD_run.tla", "RD_sim.cfg", workers=1, timeout=600 if quick else 1800,
                      simulate="num=%d" % nsim, depth=sim_ops + SIM["maxtime"] + 2, seed=seed + 1)
        tlc.need_ok_run(sim, "ResourceDirectory simulation")
        _dbg("sim done: %s" % sim.summary())
        if sim.violated:
            raise MachineryError("simulation of the Hyp = {} model violates %s" % sim.violated)
        sim_hists = []
        seen = set()
        for v in tlc.printed_values(sim, "HIST"):
            h = hist_to_history(v[1])
            key = json.dumps(h, sort_keys=True)
            if key not in seen and h["steps"]:
                seen.add(key)
                sim_hists.append(h)
        if len(sim_hists) < nsim // 4:
            raise MachineryError("simulation produced only %d finished behaviours of %d" % (len(sim_hists), nsim))
        all_hists = cand_hists + sim_hists
        _dbg("histories: %d candidates, %d simulated" % (len(cand_hists), len(sim_hists)))
        results = run_all(all_hists, pool)
        traces = [r["events"] for r in results]
        _dbg("replayed; %d events" % sum(len(t) for t in traces))
        verdicts, _ = validate(wd, traces)
        _dbg("validated; %d traces with violations" % sum(1 for v in verdicts if v["bad"]))

        # violations: group, shrink one representative per group, report
        groups = {}
        for i, v in enumerate(verdicts):
            for clause in v["bad"]:
                ev = traces[i]
                trig = ""
                for e in ev[: v["firstBad"]]:
                    if e["k"] in ("reg", "upd", "put", "del"):
                        trig = "%s:%s" % (e["k"], e["vg"])
                groups.setdefault((clause, trig), []).append(i)
        reproduced_cands = sum(1 for i in range(len(cand_hists)) if verdicts[i]["bad"])
        order = sorted(groups, key=lambda g: (-len(groups[g]), g))
        max_groups = 10 if quick else 40
        if len(order) > max_groups:
            rep.notes.append("%d further groups of failing traces not shrunk: %s" % (len(order) - max_groups, order[max_groups:]))
            order = order[:max_groups]
        items = []
        for g in order:
            idxs = sorted(groups[g], key=lambda i: (len(all_hists[i]["steps"]), i))
            i0 = idxs[0]
            items.append((all_hists[i0], g[0], results[i0], verdicts[i0]))
        shrunk = minimise_all(wd, pool, items) if items else []
        _dbg("minimised %d groups" % len(items))
        smalls = [x[0] for x in shrunk]
        finals = [x[1] for x in shrunk]
        fverd = [x[2] for x in shrunk]
        for g, small, r1, v1 in zip(order, smalls, finals, fverd):
            clause = g[0]
            if clause not in v1["bad"]:
                raise MachineryError("minimised history no longer violates %s" % clause)
            ops = [e for e in r1["events"] if e["k"] not in ("lkep", "lkres")]
            detail = (
                "clause %s false at event %d of a recorded execution; %d of %d explored histories fail in this group "
                "(last request before the failure: %s; failed writes blamed: %s).\nminimal history (t in 15 s quanta): %s\n"
                "responses: %s"
                % (
                    clause, v1["firstBad"], len(groups[g]), len(all_hists), g[1], v1["blame"] or "-",
                    "; ".join(
                        ("adv->t=%d" % s["t"]) if s["k"] == "adv" else
                        "%s(%s)" % (s["k"], ",".join("%s=%s" % (k, s[k]) for k in ("ep", "d", "loc", "lt", "base", "x", "links", "var") if s.get(k)))
                        for s in small["steps"]
                    ),
                    ", ".join("%s->%d.%02d" % (e["k"], e["code"] >> 5, e["code"] & 31) for e in ops),
                )
            )
            rep.violation(clause, "%s|%s" % (clause, shape(small)), detail,
                          {"history": small, "events": r1["events"], "meta": r1["meta"], "group": list(g)})

        # spec -> code: model-predicted responses (only meaningful on executions without violation)
        ndrift = 0
        nclean = 0
        for h, r, v in zip(all_hists, results, verdicts):
            for d in r["meta"]["drift"]:
                rep.add_drift(d)
            if v["bad"]:
                continue
            nclean += 1
            d = compare_with_model(h, r["events"])
            if d:
                ndrift += 1
                if ndrift <= 5:
                    rep.add_drift("model prediction not reproduced: " + d)
        if ndrift > 5:
            rep.add_drift("... %d more model predictions not reproduced" % (ndrift - 5))
        hyp_note = "%d candidate histories from the order hypotheses, %d reproduced a clause violation on the real code" % (
            len(cand_hists), reproduced_cands)
        rep.notes.append(hyp_note)

        kinds = {}
        forms = set()
        expiries = 0
        for ev in traces:
            prev = None
            for e in ev:
                if e["k"] not in ("lkep", "lkres"):
                    kinds[e["k"]] = kinds.get(e["k"], 0) + 1
                    forms.add((e["k"], e["var"], e["cls"]))
                if e["k"] == "lkep":
                    if prev is not None and e["n"] < prev[0] and e["t"] > prev[1]:
                        expiries += 1
                    prev = (e["n"], e["t"])
        rep.coverage.update(
            {
                "states": mc.distinct + (mc4.distinct if mc4 else 0),
                "transitions": mc.generated + (mc4.generated if mc4 else 0),
                "depth": max(mc.depth, mc4.depth if mc4 else 0),
                "mc_runs": [dict(constants=dict(MC, maxops=mc_ops), states=mc.distinct, transitions=mc.generated, wall_s=round(mc.wall, 1))]
                + ([dict(constants=dict(MC4, maxops=4), states=mc4.distinct, transitions=mc4.generated, wall_s=round(mc4.wall, 1))] if mc4 else []),
                "hypothesis_states": hyp.distinct,
                "hypothesis_candidates": len(cand_hists),
                "hypothesis_candidates_reproduced": reproduced_cands,
                "simulated_behaviours": len(sim_hists),
                "sim_constants": dict(SIM, maxops=sim_ops),
                "traces_validated_against_impl": len(traces),
                "events_validated": sum(len(t) for t in traces),
                "requests_by_kind": kinds,
                "distinct_request_forms_and_outcomes": len(forms),
                "lookups_that_observed_an_expiry": expiries,
                "traces_with_violation": sum(1 for v in verdicts if v["bad"]),
                "model_predictions_compared": nclean,
                "model_predictions_not_reproduced": ndrift,
                "exhaustive": True,
                "samples": [
                    {"history": all_hists[-1], "events": traces[-1][:9]},
                    {"history": all_hists[0], "events": traces[0][:9]},
                ],
                "checker_cmd": "tlc RD_run(ResourceDirectory).tla exhaustive (Hyp={} and with order hypotheses) + -simulate; "
                               "tlc ResourceDirectoryTrace.tla on recorded traces",
            }
        )
        rep.assumptions += [
            "virtual-time event loop and fake UDP socket stand in for the OS (harness/vloop.py, fakenet.py)",
            "requests are sent one at a time and answered before the next one (no concurrent requests)",
            "one quantum = 15 s; lt in {60, 75, 120 s, absent}; only whole quanta are visited, including each deadline and the quantum before it",
            "distinct registrations sharing a location is read as: at the same time (a freed location may be reused)",
            "plain lookups only (no filters, no pagination); lookup payloads stay below one block",
            "exhaustive model check uses the small constants in mc_runs; larger behaviours by simulation",
        ]


if __name__ == "__main__":
    import sys

    sys.exit(runner.main("C20", work))
