"""C20: resource directory -- lookups reflect exactly the live registrations.

1. TLC exhaustively checks spec/ResourceDirectory.tla (implementation-shaped
   model of aiocoap/cli/rd.py + the clauses of ResourceDirectoryObs as
   invariants) for small constants with every handler validating before it
   mutates (Hyp = {}): the design the property asks for is consistent.
2. The same model with the *order hypotheses* switched on (handlers mutate
   where a reading of rd.py says they do) is explored exhaustively; every
   state in which a clause is false yields a candidate history.
3. spec -> code: the candidate histories and TLC -simulate behaviours with
   larger constants (more names, sectors, peers, every invalid request form)
   are replayed as raw CoAP datagrams against a real server Context carrying
   StandaloneResourceDirectory on the fake network under virtual time.
   Simple registrations (the driver plays the registrant whose
   /.well-known/core the directory fetches), filtered and paged lookups on
   both lookup interfaces (criteria chosen by the model from a per-run
   constant and, randomised, by the check), exotic lifetimes and clock jumps
   to far deadlines are part of these histories.
4. code -> spec: every recorded trace is validated by TLC against
   ResourceDirectoryTrace.tla, which keeps its own book of successful writes
   and evaluates the clauses at every step of the real execution.  Only a
   clause false on a real trace is a VIOLATION; a failing trace is shrunk
   (again judged by TLC on real executions) to a minimal history whose shape
   is the stable signature."""

import json
import os
import random
from multiprocessing import Pool

from harness import tlc, MachineryError, runner

GRACE_Q = 1  # Registration.grace_period = 15 s = 1 quantum (checked against the code at run time)
DEFAULT_LT_Q = 6000  # 90000 s

WRAP = """---- MODULE %(mod)s ----
EXTENDS ResourceDirectory
def_RegProfiles == %(reg)s
def_UpdProfiles == %(upd)s
def_PutProfiles == %(put)s
def_SRegProfiles == %(sreg)s
def_Filters == %(filters)s
====
"""

VOCAB_MOD = """---- MODULE RD_vocab ----
EXTENDS ResourceDirectoryObs
ASSUME PrintT(<<"VOCAB", VocabDump>>)
====
"""
VOCAB_CFG = "CONSTANTS\n  Grace = %d\n  DefaultLt = %d\n"

CFG = """SPECIFICATION %(spec)s
CONSTANTS
  Grace = %(grace)d
  DefaultLt = %(deflt)d
  Srcs = %(srcs)s
  Eps = %(eps)s
  Ds = %(ds)s
  RegProfiles <- def_RegProfiles
  UpdProfiles <- def_UpdProfiles
  PutProfiles <- def_PutProfiles
  SRegProfiles <- def_SRegProfiles
  Filters <- def_Filters
  Counts = %(counts)s
  MaxLk = %(maxlk)d
  RegVars = %(regvars)s
  UpdVars = %(updvars)s
  PutVars = %(putvars)s
  SRegVars = %(sregvars)s
  Adv = %(adv)s
  MaxTime = %(maxtime)d
  MaxOps = %(maxops)d
  Hyp = %(hyp)s
  KeepHist = %(keephist)s
%(tail)s
"""

MC_TAIL = """VIEW View
INVARIANT Inv_LookupsAreLive
INVARIANT Inv_OnePerKey
INVARIANT Inv_ReRegisterKeepsLocation
INVARIANT Inv_LocationsDistinct
INVARIANT Inv_FailedWriteChangesNothing
INVARIANT Inv_FilteredLookupExact
INVARIANT Inv_PagingPartitions
INVARIANT IndexesAgree
INVARIANT BookAgrees
"""
HYP_TAIL = "VIEW View\nINVARIANT ReportBad\n"
SIM_TAIL = "INVARIANT NoBad\nINVARIANT ReportHist\n"

ALL_HYP = '{"RegDeleteBeforeValidate", "UpdMutateBeforeBodyCheck", "SimpleRegBeforeFetch"}'


def tla_str(x):
    if not x.isascii() or "\\" in x or '"' in x:
        raise MachineryError("string %r cannot be written as a TLA+ literal here" % (x,))
    return '"%s"' % x


def tla_set(xs):
    return "{" + ", ".join(tla_str(x) if isinstance(x, str) else str(x) for x in xs) + "}"


def tla_recs(recs):
    return "{" + ", ".join("[" + ", ".join("%s |-> %d" % kv for kv in r.items()) + "]" for r in recs) + "}"


def tla_crit(c):
    return "[k |-> %s, v |-> %s, w |-> %d, loc |-> %d]" % (tla_str(c["k"]), tla_str(c.get("v", "")), int(c.get("w", 0)), c.get("loc", 0))


def tla_filters(fs):
    return "{" + ", ".join("<<" + ", ".join(tla_crit(c) for c in f) + ">>" for f in fs) + "}"


def P(lt, lx, base, x, links=None):
    d = {"lt": lt, "lx": lx, "base": base, "x": x}
    if links is not None:
        d["links"] = links
    return d


def S(lt, lx, x, links):
    return {"lt": lt, "lx": lx, "x": x, "links": links}


def C(k, v="", w=0, loc=0):
    return {"k": k, "v": v, "w": w, "loc": loc}


# exhaustive configuration: 2 names x 2 sectors, lt 60 s / 120 s, one request form per handler stage; the simple
# registration has the parameters of the first registration profile (same states, other handler)
MC = dict(
    srcs=[1], eps=["e1", "e2"], ds=["", "s1"],
    reg=[P(4, 0, 0, 0, 1), P(8, 0, 1, 1, 2)],
    upd=[P(0, 0, 0, 0), P(8, 0, 1, 1)],
    put=[P(0, 0, 0, 1, 2)],
    sreg=[S(4, 0, 0, 1)],
    regvars=["ok", "noep", "ltnan"], updvars=["ok", "ep", "body"], putvars=["ok", "nocf"], sregvars=["ok", "fetch404"],
    filters=[[C("ep", "e1"), C("rt", "r1")], [C("href", loc=1)], [C("rt", "r", 1), C("et", "v1")]],
    counts=[1], maxlk=0,
    adv=[1], maxtime=11,
)
# thorough tier, 4 requests: the request forms that fail before anything could change are left to the 3-request run
MC4 = dict(MC, maxtime=9, regvars=["ok", "ltnan"], updvars=["ok", "body"], putvars=["ok"], sregvars=["ok"],
           filters=[[C("ep", "e1"), C("rt", "r1")]])
# exotic lifetimes (1 s, 59 s, 0, negative) and the clock jumping to a far deadline, exhaustively for one name
MCX = dict(
    srcs=[1], eps=["e1"], ds=["", "s1"],
    reg=[P(0, 4, 0, 0, 1), P(0, 5, 1, 1, 2), P(0, 3, 0, 0, 1), P(0, 6, 0, 0, 1), P(0, 8, 0, 0, 3), P(0, 0, 0, 0, 1)],
    upd=[P(0, 0, 0, 0), P(0, 7, 0, 0), P(0, 9, 0, 0)],
    put=[P(0, 0, 0, 1, 2)],
    sreg=[S(0, 4, 0, 1)],
    regvars=["ok", "ltnan"], updvars=["ok", "body"], putvars=["ok"], sregvars=["ok"],
    filters=[[C("rt", "r1")]], counts=[0], maxlk=0,
    adv=[1], maxtime=7,
)
# simulation: more of everything, every request form
SIM = dict(
    srcs=[1, 2, 3], eps=["e1", "e2", "E1", "%65%31", "~nfc", "~nfd"], ds=["", "s1", "S1", "s%31"],
    reg=[P(4, 0, 0, 0, 1), P(8, 0, 1, 1, 2), P(0, 0, 0, 2, 3), P(4, 0, 2, 0, 0), P(5, 0, 0, 1, 2),
         P(0, 1, 0, 0, 4), P(0, 8, 3, 3, 4), P(0, 4, 0, 4, 6), P(0, 5, 4, 0, 6), P(6, 0, 3, 3, 5),
         P(0, 6, 0, 0, 1), P(0, 2, 1, 0, 2), P(0, 3, 0, 1, 1), P(0, 7, 0, 0, 6), P(0, 9, 2, 4, 4),
         P(4, 0, 0, 3, 4), P(8, 0, 3, 0, 6), P(5, 0, 0, 0, 5)],
    upd=[P(0, 0, 0, 0), P(8, 0, 1, 1), P(4, 0, 0, 2), P(0, 0, 2, 0), P(5, 0, 0, 0),
         P(0, 1, 0, 0), P(0, 4, 0, 3), P(0, 0, 3, 4), P(0, 7, 0, 0), P(0, 6, 0, 0), P(0, 0, 4, 0), P(0, 8, 0, 0)],
    put=[P(0, 0, 0, 1, 2), P(4, 0, 0, 0, 1), P(0, 0, 1, 0, 3), P(8, 0, 0, 0, 0),
         P(0, 0, 0, 3, 4), P(0, 0, 0, 0, 6), P(4, 0, 3, 0, 5), P(0, 8, 0, 4, 4)],
    sreg=[S(4, 0, 0, 1), S(0, 0, 1, 2), S(8, 0, 3, 4), S(0, 4, 0, 6), S(5, 0, 2, 5), S(0, 8, 4, 3)],
    regvars=["ok", "nocf", "badcf", "badlf", "noep", "ep2", "d2", "proxy", "ltnan", "lt2", "base2",
             "rsvd_rt", "rsvd_page", "rsvd_count", "rsvd_href", "rsvd_anchor", "ltnoval"],
    updvars=["ok", "ep", "d", "ltnan", "lt2", "base2", "rsvd_rt", "rsvd_page", "rsvd_count", "rsvd_href",
             "rsvd_anchor", "ltnoval", "body", "cfbody", "cf"],
    putvars=["ok", "nocf", "badlf", "ep", "ltnan", "rsvd_rt", "ltnoval"],
    sregvars=["ok", "okwkc", "sbase", "fetch404", "fetchcf", "fetchbadlf", "noep", "ep2", "d2", "proxy", "ltnan", "lt2",
              "rsvd_rt", "rsvd_count", "ltnoval"],
    counts=[0, 0, 1, 2, 3, 7], maxlk=3,
    adv=[1, 2, 3, 4, 5], maxtime=24,
)
# keys a search criterion is never built for: the statement of C20 does not settle how they match
# (base and rt=core.rd-ep of the endpoint entry; rel / rev as relation-types; lt), or the key has no value (obs)
NO_CRIT_KEYS = {"base", "rev", "lt", "obs", "anchor-implied"}


def random_criteria(rng, vocab, names, sectors, nreg):
    """One set of search criteria (1..3, ANDed) over the vocabulary TLC printed:
    registration parameters, link attributes, resolved targets and anchors;
    exact values, prefixes with `*', values that match nothing, one key twice,
    a registration resource as href."""
    attrs = sorted(tuple(a) for a in vocab["attrs"] if a[0] not in NO_CRIT_KEYS)
    hrefs = sorted(vocab["hrefs"])
    ancs = sorted(vocab["ancs"] | vocab["imps"])

    def one():
        r = rng.random()
        if r < 0.16:
            k, v = "ep", rng.choice(names)
        elif r < 0.26:
            k, v = "d", rng.choice([x for x in sectors if x] or ["s1"])
        elif r < 0.60:
            k, v = rng.choice(attrs)
            if " " in v and k in ("rt", "if") and rng.random() < 0.8:
                v = rng.choice(v.split(" "))
        elif r < 0.78:
            k, v = "href", rng.choice(hrefs)
        elif r < 0.86:
            k, v = "anchor", rng.choice(ancs)
        else:
            return C("href", loc=rng.randint(1, max(1, nreg)))
        r = rng.random()
        if r < 0.30 and len(v) > 1:
            return C(k, v[: rng.randint(1, len(v) - 1)], 1)
        if r < 0.36:
            return C(k, v, 1)
        if r < 0.44:
            return C(k, v + "z")
        return C(k, v)

    n = rng.choice([1, 1, 2, 2, 2, 3])
    crit = [one() for _ in range(n)]
    if n >= 2 and rng.random() < 0.15 and not crit[0]["loc"] and not crit[1]["loc"]:
        crit[1] = dict(crit[1], k=crit[0]["k"])          # the same key twice
    return crit


def model_filters(rng, vocab, n):
    """The constant Filters of the simulated model: criteria sets over ASCII names."""
    out, seen = [], set()
    while len(out) < n:
        f = random_criteria(rng, vocab, ["e1", "e2", "E1", "%65%31"], ["s1", "S1", "s%31"], 3)
        key = json.dumps(f, sort_keys=True)
        if key not in seen and all(c["v"].isascii() for c in f):
            seen.add(key)
            out.append(f)
    return out


def write_cfg(wd, name, c, maxops, hyp, tail):
    wd.write(name + ".tla", WRAP % dict(mod=name, reg=tla_recs(c["reg"]), upd=tla_recs(c["upd"]), put=tla_recs(c["put"]),
                                      sreg=tla_recs(c["sreg"]), filters=tla_filters(c["filters"])))
    wd.write(
        name + ".cfg",
        CFG
        % dict(
            grace=GRACE_Q, deflt=DEFAULT_LT_Q, srcs=tla_set(c["srcs"]), eps=tla_set(c["eps"]), ds=tla_set(c["ds"]),
            regvars=tla_set(sorted(set(c["regvars"]))), updvars=tla_set(sorted(set(c["updvars"]))),
            putvars=tla_set(sorted(set(c["putvars"]))), sregvars=tla_set(sorted(set(c["sregvars"]))),
            counts=tla_set(sorted(set(c["counts"]))), maxlk=c["maxlk"] if tail is SIM_TAIL else 0,
            adv=tla_set(c["adv"]), maxtime=c["maxtime"],
            maxops=maxops, hyp=hyp, tail=tail, spec="SimSpec" if tail is SIM_TAIL else "Spec", keephist="FALSE" if tail is MC_TAIL else "TRUE",
        ),
    )


def get_vocab(wd):
    """The vocabulary tables of spec/ResourceDirectoryVocab.tla as TLC evaluates them."""
    wd.write("RD_vocab.tla", VOCAB_MOD)
    wd.write("RD_vocab.cfg", VOCAB_CFG % (GRACE_Q, DEFAULT_LT_Q))
    r = tlc.run(wd, "RD_vocab.tla", "RD_vocab.cfg", workers=1, timeout=300)
    tlc.need_ok_run(r, "ResourceDirectoryVocab evaluation")
    vals = tlc.printed_values(r, "VOCAB")
    if len(vals) != 1:
        raise MachineryError("ResourceDirectoryVocab: no VOCAB line\n%s" % r.out[-2000:])
    return vals[0][1]


STEP_KEYS = ("k", "t", "src", "ep", "d", "loc", "lt", "lx", "base", "x", "links", "var", "n", "cls", "iface", "crit", "cnt")


def hist_to_history(hist):
    """TLC value of the model's `hist' -> replayable history (plus the model's
    predicted response class / location per request)."""
    from harness.rddrive import NAME_WIRE

    steps = []
    at = {}  # model location -> id of the registration step that holds it
    for i, h in enumerate(hist):
        st = {k: h[k] for k in STEP_KEYS}
        st["id"] = i
        st["ep"] = NAME_WIRE.get(st["ep"], st["ep"])
        st["d"] = NAME_WIRE.get(st["d"], st["d"])
        if st["k"] in ("reg", "sreg") and st["cls"] == 2:
            at[st["loc"]] = i
        elif st["k"] in ("upd", "put", "del"):
            # the location is meant as "the one that registration got", whatever its name
            st["ref"] = at.get(st["loc"])
            if st["ref"] is None:
                del st["ref"]
        if st["k"] == "flk":
            crit = []
            for c in st["crit"]:
                c = dict(c)
                if c["loc"] and c["loc"] in at:
                    c["ref"] = at[c["loc"]]
                crit.append(c)
            st["crit"] = crit
        else:
            st["crit"] = []
        steps.append(st)
    return {"steps": steps}


def add_random_lookups(h, rng, vocab):
    """Filtered / paged lookups at random places of a history (seeded): after a
    request with probability 1/2, after a clock step with probability 1/4."""
    out = []
    regs = []
    names, sectors = set(), set()
    for st in h["steps"]:
        out.append(st)
        if st["k"] in ("reg", "sreg"):
            if st.get("id") is not None:
                regs.append(st["id"])
            names.add(st["ep"] or "e1")
            sectors.add(st["d"])
        if st["k"] == "flk" or not names:
            continue
        if rng.random() < (0.25 if st["k"] == "adv" else 0.5):
            crit = random_criteria(rng, vocab, sorted(names), sorted(sectors), 3)
            for c in crit:
                if c["loc"] and regs and rng.random() < 0.8:
                    c["ref"] = rng.choice(regs)
            out.append({"k": "flk", "t": st["t"], "iface": rng.choice(["ep", "res"]), "crit": crit,
                        "cnt": rng.choice([0, 0, 0, 1, 2, 3, 7])})
    return {"steps": out}


def _dbg(msg, _t=[None]):
    import sys, time

    if os.environ.get("VERIF_DEBUG"):
        now = time.time()
        print("[c20 +%.1fs] %s" % (0 if _t[0] is None else now - _t[0], msg), file=sys.stderr, flush=True)
        _t[0] = now


def _run(h):
    import warnings

    warnings.simplefilter("ignore")
    from harness.rddrive import run_history

    import signal

    def stuck(*a):
        raise TimeoutError("history not finished after 300 s of real time")

    signal.signal(signal.SIGALRM, stuck)
    signal.alarm(300)
    try:
        return run_history(h)
    except Exception:
        import traceback

        return {"error": traceback.format_exc()}
    finally:
        signal.alarm(0)


def _init_worker(vocab):
    from harness import rddrive

    rddrive.set_vocab(vocab)


def run_all(hists, pool):
    if not hists:
        return []
    res = pool.map(_run, hists, chunksize=max(1, len(hists) // 64))
    for h, r in zip(hists, res):
        if "error" in r:
            raise MachineryError("driver failed on history %s\n%s" % (json.dumps(h)[:400], r["error"]))
    return res


def validate(wd, traces, timeout=900):
    """TLC evaluates the clauses on every recorded trace.  Returns a list of
    {len, firstBad, bad, blame} aligned with traces, and the TLC result."""
    if not traces:
        return [], None
    tf = wd.file("ResourceDirectoryTrace-traces.json")
    with open(tf, "w") as f:
        json.dump(traces, f, separators=(",", ":"))
    tmpl = open(os.path.join(tlc.SPEC_DIR, "ResourceDirectoryTrace.cfg.tmpl")).read()
    wd.write("ResourceDirectoryTrace-run.cfg", tmpl % {"Grace": GRACE_Q, "DefaultLt": DEFAULT_LT_Q})
    r = tlc.run(wd, "ResourceDirectoryTrace.tla", "ResourceDirectoryTrace-run.cfg", workers=1, timeout=timeout,
                env={"TRACE_FILE": tf}, dfs=True, heap="8g")
    tlc.need_ok_run(r, "ResourceDirectoryTrace trace validation")
    out = [None] * len(traces)
    for v in tlc.printed_values(r, "TRACE"):
        _, tid, n, first, bad, blame = v
        out[tid - 1] = {"len": n, "firstBad": first, "bad": set(bad), "blame": sorted(tuple(b) for b in blame)}
    for i, x in enumerate(out):
        if x is None:
            raise MachineryError("ResourceDirectoryTrace: no verdict for trace %d\n%s" % (i, r.out[-2000:]))
        if x["len"] != len(traces[i]):
            raise MachineryError("ResourceDirectoryTrace: trace %d consumed %d of %d events" % (i, x["len"], len(traces[i])))
    return out, r


def grp(st):
    from harness.rddrive import GROUPS, flk_group

    if st["k"] == "flk":
        return flk_group(st)
    return GROUPS[st["k"]][st.get("var") or "ok"]


def shape(history):
    """Normalised operation-history shape: operations with the group of their
    request form; names, parameter values and clock steps are dropped."""
    return ",".join("%s:%s" % (s["k"], grp(s)) for s in history["steps"] if s["k"] != "adv")


def retime(steps):
    """After removing steps: keep the clock monotone and drop empty clock steps."""
    out, now = [], 0
    for s in steps:
        if s["k"] == "adv":
            if s["t"] <= now:
                continue
            now = s["t"]
        out.append(s)
    # merge adjacent clock steps?  no: the lookups after each of them are observations
    return out


SWEEP = 12  # quanta looked at after the last request of a canonical candidate (> longest lifetime + grace)


def adv_step(t):
    return {"k": "adv", "t": t, "src": 0, "ep": "", "d": "", "loc": 0, "lt": 0, "lx": 0, "base": 0, "x": 0, "links": 0, "var": "", "n": 1, "cls": 0}


def _ops_subsets(n, kmax):
    from itertools import combinations

    for k in range(1, kmax + 1):
        for c in combinations(range(n), k):
            yield c


def compact_clock(h, t_fail):
    """Keep only the clock steps that place a request at its instant (the last
    one before each request) and one step to the instant of the failing
    lookup."""
    out, pending, now = [], None, 0
    for s in h["steps"]:
        if s["k"] == "adv":
            pending = s
            continue
        if pending is not None:
            out.append(pending)
            now = pending["t"]
            pending = None
        out.append(s)
    if t_fail > now:
        out.append(adv_step(t_fail))
    return {"steps": out}


def minimise_all(wd, pool, items, kmax=3):
    """items: list of (history, clause, result, verdict).  Shrinks every history
    to a small one that still violates its clause *on the real code* (every
    candidate is executed and judged by TLC; all candidates of one round go
    into one TLC batch).  Round 1: all sub-histories with <= kmax requests, on
    the original clock and on a canonical clock; round 2: only the clock
    steps that matter.  Returns [(history, result, verdict)]."""
    nops = lambda hh: sum(1 for s in hh["steps"] if s["k"] != "adv")
    cur = [(h, r, v) for h, _, r, v in items]
    cands, owner = [], []
    for gi, (h, clause, _, _) in enumerate(items):
        opi = [i for i, s in enumerate(h["steps"]) if s["k"] != "adv"]
        for sub in _ops_subsets(len(opi), min(kmax, len(opi) - 1)):
            keep = {opi[j] for j in sub}
            steps = retime([s for i, s in enumerate(h["steps"]) if s["k"] == "adv" or i in keep])
            cands.append({"steps": steps})
            owner.append(gi)
            # the same requests on a canonical clock: one quantum apart, then a sweep over every instant
            steps, t = [], 0
            for j in sub:
                if steps:
                    t += 1
                    steps.append(adv_step(t))
                steps.append(h["steps"][opi[j]])
            for _ in range(SWEEP):
                t += 1
                steps.append(adv_step(t))
            cands.append({"steps": steps})
            owner.append(gi)
    if cands:
        res = run_all(cands, pool)
        verdicts, _ = validate(wd, [r["events"] for r in res])
        # candidates come in order of increasing number of requests, original clock first
        for c, gi, r, v in zip(cands, owner, res, verdicts):
            if items[gi][1] in v["bad"] and nops(c) < nops(cur[gi][0]):
                cur[gi] = (c, r, v)
    comp = [compact_clock(h, r["events"][v["firstBad"] - 1]["t"]) for h, r, v in cur]
    res = run_all(comp, pool)
    verdicts, _ = validate(wd, [r["events"] for r in res])
    for gi, (c, r, v) in enumerate(zip(comp, res, verdicts)):
        if items[gi][1] in v["bad"]:
            cur[gi] = (c, r, v)
    return cur


def compare_with_model(history, events):
    """Model-predicted response class / location of every request vs. the real
    one (DRIFT only)."""
    ops = [e for e in events if e["k"] in ("reg", "sreg", "upd", "put", "del")]
    steps = [s for s in history["steps"] if s["k"] not in ("adv", "flk")]
    for s, e in zip(steps, ops):
        if s.get("cls") in (None, 0) or s.get("var") == "ltnoval":
            continue  # lt without a value: the statement does not say which error class
        if s["cls"] != e["cls"]:
            return "%s:%s (lt=%s lx=%s base=%s x=%s src=%s) answered %d.%02d, model predicts class %d" % (
                s["k"], s.get("var"), s.get("lt"), s.get("lx"), s.get("base"), s.get("x"), s.get("src"), e["code"] >> 5, e["code"] & 31, s["cls"])
        if s["k"] == "reg" and s["cls"] == 2 and s["loc"] != e["loc"]:
            return "reg:%s got location #%d (order of first appearance), model predicts #%d" % (s.get("var"), e["loc"], s["loc"])
    return None


def check_grace():
    from harness import require_repo
    from harness.rddrive import QUANTUM

    require_repo()
    from aiocoap.cli.rd import CommonRD

    g = CommonRD.Registration.grace_period
    if g != GRACE_Q * QUANTUM:
        # the property leaves the length of the grace period to the code: follow it
        if g % QUANTUM:
            raise MachineryError("grace period %r s is not a whole number of %d s quanta" % (g, QUANTUM))
    return g // QUANTUM


def clause_evaluations(traces, verdicts):
    """How often each clause was evaluated by TLC on real executions: the
    clauses are functions of the event kind (ObsEvent), the monitor stops at
    the first event at which one is false."""
    per = {
        "reg": ["C20_ReRegisterKeepsLocation"], "sreg": [],
        "lkep": ["C20_LookupsAreLive", "C20_FailedWriteChangesNothing", "C20_OnePerKey", "C20_LocationsDistinct", "C20_ReRegisterKeepsLocation"],
        "lkres": ["C20_LookupsAreLive", "C20_FailedWriteChangesNothing"],
        "flk": ["C20_FilteredLookupExact"],
    }
    n = {}
    for ev, v in zip(traces, verdicts):
        upto = v["firstBad"] or len(ev)
        for e in ev[:upto]:
            for c in per.get(e["k"], ()):
                n[c] = n.get(c, 0) + 1
            if e["k"] == "flk" and e["cnt"] and e["cls"] == 2:
                n["C20_PagingPartitions"] = n.get("C20_PagingPartitions", 0) + 1
    return n


def work(rep, args):
    global GRACE_Q
    from concurrent.futures import ThreadPoolExecutor
    from harness import rddrive

    quick = args.tier == "quick"
    seed = args.seed
    GRACE_Q = check_grace()
    with tlc.Workdir() as wd:
        vocab = get_vocab(wd)
        rddrive.set_vocab(vocab)
        _dbg("vocabulary: %d link sets, %d criterion values" % (len(vocab["links"]), len(vocab["attrs"]) + len(vocab["hrefs"]) + len(vocab["ancs"])))
        with Pool(min(16, os.cpu_count() or 4), initializer=_init_worker, initargs=(vocab,)) as pool:
            return _work(rep, args, wd, pool, vocab, quick, seed, ThreadPoolExecutor)


def _work(rep, args, wd, pool, vocab, quick, seed, ThreadPoolExecutor):
        from harness import rddrive

        if args.replay:
            data = json.load(open(args.replay))
            h = data["replay"]["history"]
            res = run_all([h], pool)
            verdicts, _ = validate(wd, [res[0]["events"]])
            for clause in sorted(verdicts[0]["bad"]):
                rep.violation(clause, "%s|%s" % (clause, shape(h)), "replayed history violates %s at event %d" % (clause, verdicts[0]["firstBad"]),
                              {"history": h, "events": res[0]["events"]})
            # keep the evidence of the last full run; a replay only adds to it
            try:
                prev = json.load(open(os.path.join(runner.EVIDENCE_DIR, "C20.json")))
                rep.coverage.update(prev.get("coverage", {}))
                rep.assumptions += prev.get("assumptions", [])
                rep.tier = prev.get("tier", rep.tier)
            except (OSError, ValueError):
                rep.coverage.update({"states": 0, "transitions": 0, "traces_validated_against_impl": 1, "samples": [h]})
            rep.coverage["last_replay"] = {"file": args.replay, "clauses_false": sorted(verdicts[0]["bad"])}
            return

        rng = random.Random(seed)
        nsim = 150 if quick else 6000
        sim_ops = 10
        sim_c = dict(SIM, filters=model_filters(rng, vocab, 40 if quick else 120))
        mc_ops, mcx_ops = 3, (2 if quick else 3)
        # quick: the filtered lookups of the exhaustive model are left to the thorough tier (they triple the transitions)
        mc_c = dict(MC, filters=[], maxtime=9) if quick else MC
        # the TLC runs do not depend on each other: 1. exhaustive, the design (validate before mutate) satisfies
        # every clause; 1x. the same for exotic lifetimes and far deadlines; 2. exhaustive with the order
        # hypotheses: candidate histories; 3. behaviours of the model with larger constants
        write_cfg(wd, "RD_mc", mc_c, mc_ops, "{}", MC_TAIL)
        write_cfg(wd, "RD_mcx", MCX, mcx_ops, "{}", MC_TAIL)
        write_cfg(wd, "RD_hyp", MC, 2 if quick else 3, ALL_HYP, HYP_TAIL)
        write_cfg(wd, "RD_sim", sim_c, sim_ops, "{}", SIM_TAIL)
        with ThreadPoolExecutor(4) as tp:
            f_mc = tp.submit(tlc.run, wd, "RD_mc.tla", "RD_mc.cfg", timeout=900)
            f_mcx = tp.submit(tlc.run, wd, "RD_mcx.tla", "RD_mcx.cfg", workers=2 if quick else 8, timeout=900)
            f_hyp = tp.submit(tlc.run, wd, "RD_hyp.tla", "RD_hyp.cfg", workers=1 if quick else 8, timeout=600 if quick else 1800)
            f_sim = tp.submit(tlc.run, wd, "RD_sim.tla", "RD_sim.cfg", workers=1, timeout=600 if quick else 2400,
                              simulate="num=%d" % nsim, depth=sim_ops + SIM["maxtime"] + SIM["maxlk"] + 8, seed=seed + 1)
            mc, mcx, hyp, sim = f_mc.result(), f_mcx.result(), f_hyp.result(), f_sim.result()
        tlc.need_ok_run(mc, "ResourceDirectory model check")
        tlc.need_ok_run(mcx, "ResourceDirectory model check, exotic lifetimes")
        tlc.need_ok_run(hyp, "ResourceDirectory model check with order hypotheses")
        tlc.need_ok_run(sim, "ResourceDirectory simulation")
        _dbg("mc done: %s" % mc.summary())
        _dbg("mcx done: %s" % mcx.summary())
        _dbg("hyp done: %s" % hyp.summary())
        _dbg("sim done: %s" % sim.summary())
        for r, what in ((mc, "3 requests"), (mcx, "exotic lifetimes")):
            if r.violated:
                raise MachineryError("ResourceDirectory model (%s) with Hyp = {} violates %s: the specification is inconsistent\n%s"
                                     % (what, r.violated, r.out[-3000:]))
        mc4 = None
        if not quick:
            write_cfg(wd, "RD_mc4", MC4, 4, "{}", MC_TAIL)
            mc4 = tlc.run(wd, "RD_mc4.tla", "RD_mc4.cfg", timeout=3000)
            tlc.need_ok_run(mc4, "ResourceDirectory model check, 4 requests")
            _dbg("mc4 done: %s" % mc4.summary())
            if mc4.violated:
                raise MachineryError("ResourceDirectory model (4 requests) with Hyp = {} violates %s: the specification is inconsistent\n%s"
                                     % (mc4.violated, mc4.out[-3000:]))
        cands = {}
        for v in tlc.printed_values(hyp, "BAD"):
            _, bad, blame, hist = v
            h = hist_to_history(hist)
            key = (tuple(sorted(bad)), shape(h))
            if key not in cands or len(h["steps"]) < len(cands[key]["steps"]):
                cands[key] = h
        cand_hists = [cands[k] for k in sorted(cands)]
        max_cands = 150 if quick else 2000
        if len(cand_hists) > max_cands:
            cand_hists = rng.sample(cand_hists, max_cands)
        if sim.violated:
            raise MachineryError("simulation of the Hyp = {} model violates %s" % sim.violated)
        sim_hists = []
        seen = set()
        for v in tlc.printed_values(sim, "HIST"):
            h = hist_to_history(v[1])
            key = json.dumps(h, sort_keys=True)
            if key not in seen and h["steps"]:
                seen.add(key)
                sim_hists.append(add_random_lookups(h, random.Random(seed * 1000003 + len(sim_hists)), vocab))
        if len(sim_hists) < nsim // 4:
            raise MachineryError("simulation produced only %d finished behaviours of %d" % (len(sim_hists), nsim))
        all_hists = cand_hists + sim_hists
        _dbg("histories: %d candidates, %d simulated" % (len(cand_hists), len(sim_hists)))
        results = run_all(all_hists, pool)
        traces = [r["events"] for r in results]
        _dbg("replayed; %d events" % sum(len(t) for t in traces))
        verdicts, _ = validate(wd, traces)
        _dbg("validated; %d traces with violations" % sum(1 for v in verdicts if v["bad"]))

        # violations: group, shrink one representative per group, report
        groups = {}
        for i, v in enumerate(verdicts):
            for clause in v["bad"]:
                ev = traces[i]
                trig = ""
                for e in ev[: v["firstBad"]]:
                    if e["k"] in ("reg", "sreg", "upd", "put", "del"):
                        trig = "%s:%s" % (e["k"], e["vg"])
                if clause in ("C20_FilteredLookupExact", "C20_PagingPartitions"):
                    trig = "flk:" + rddrive_group(ev[v["firstBad"] - 1])
                groups.setdefault((clause, trig), []).append(i)
        reproduced_cands = sum(1 for i in range(len(cand_hists)) if verdicts[i]["bad"])
        order = sorted(groups, key=lambda g: (-len(groups[g]), g))
        max_groups = 10 if quick else 40
        if len(order) > max_groups:
            rep.notes.append("%d further groups of failing traces not shrunk: %s" % (len(order) - max_groups, order[max_groups:]))
            order = order[:max_groups]
        items = []
        for g in order:
            idxs = sorted(groups[g], key=lambda i: (len(all_hists[i]["steps"]), i))
            i0 = idxs[0]
            items.append((all_hists[i0], g[0], results[i0], verdicts[i0]))
        shrunk = minimise_all(wd, pool, items) if items else []
        _dbg("minimised %d groups" % len(items))
        smalls = [x[0] for x in shrunk]
        finals = [x[1] for x in shrunk]
        fverd = [x[2] for x in shrunk]
        for g, small, r1, v1 in zip(order, smalls, finals, fverd):
            clause = g[0]
            if clause not in v1["bad"]:
                raise MachineryError("minimised history no longer violates %s" % clause)
            ops = [e for e in r1["events"] if e["k"] not in ("lkep", "lkres")]
            detail = (
                "clause %s false at event %d of a recorded execution; %d of %d explored histories fail in this group "
                "(last request before the failure: %s; failed writes blamed: %s).\nminimal history (t in 15 s quanta): %s\n"
                "responses: %s"
                % (
                    clause, v1["firstBad"], len(groups[g]), len(all_hists), g[1], v1["blame"] or "-",
                    "; ".join(describe_step(s) for s in small["steps"]),
                    ", ".join("%s->%d.%02d" % (e["k"], e["code"] >> 5, e["code"] & 31) for e in ops),
                )
            )
            rep.violation(clause, "%s|%s" % (clause, shape(small)), detail,
                          {"history": small, "events": r1["events"], "meta": r1["meta"], "group": list(g)})

        # spec -> code: model-predicted responses (only meaningful on executions without violation)
        ndrift = 0
        nclean = 0
        for h, r, v in zip(all_hists, results, verdicts):
            for d in r["meta"]["drift"]:
                rep.add_drift(d)
            if v["bad"]:
                continue
            nclean += 1
            d = compare_with_model(h, r["events"])
            if d:
                ndrift += 1
                if ndrift <= 5:
                    rep.add_drift("model prediction not reproduced: " + d)
        if ndrift > 5:
            rep.add_drift("... %d more model predictions not reproduced" % (ndrift - 5))
        hyp_note = "%d candidate histories from the order hypotheses, %d reproduced a clause violation on the real code" % (
            len(cand_hists), reproduced_cands)
        rep.notes.append(hyp_note)

        kinds = {}
        forms = set()
        expiries = 0
        flk = {"ep": 0, "res": 0, "by_criteria": {}, "paged": 0, "page_requests": 0, "entries_returned": 0, "empty_results": 0,
               "criterion_keys": {}, "wildcards": 0, "registration_resource_as_href": 0, "model_chosen": 0, "randomised": 0}
        lx_used, far_jumps, offgrid = set(), 0, 0
        names = set()
        maxlinks = 0
        for h in all_hists:
            for st in h["steps"]:
                if st["k"] == "flk":
                    flk["model_chosen" if "id" in st else "randomised"] += 1
        for ev in traces:
            prev = None
            for e in ev:
                if e["k"] not in ("lkep", "lkres", "flk"):
                    kinds[e["k"]] = kinds.get(e["k"], 0) + 1
                    forms.add((e["k"], e["var"], e["cls"]))
                    if e["lx"]:
                        lx_used.add((e["k"], e["lx"], e["cls"]))
                    if e["k"] in ("reg", "sreg"):
                        names.add((e["ep"], e["d"]))
                if e["k"] == "lkep":
                    if prev is not None and e["n"] < prev[0] and e["t"] > prev[1]:
                        expiries += 1
                        if e["t"] - prev[1] > 100:
                            far_jumps += 1
                    prev = (e["n"], e["t"])
                if e["k"] == "lkres":
                    maxlinks = max(maxlinks, e["n"])
                if e["k"] == "flk":
                    flk[e["iface"]] += 1
                    nc = str(len(e["crit"]))
                    flk["by_criteria"][nc] = flk["by_criteria"].get(nc, 0) + 1
                    flk["entries_returned"] += e["n"]
                    flk["empty_results"] += e["n"] == 0
                    for c in e["crit"]:
                        flk["criterion_keys"][c["k"]] = flk["criterion_keys"].get(c["k"], 0) + 1
                        flk["wildcards"] += c["w"]
                        flk["registration_resource_as_href"] += c["loc"] != 0
                    if e["cnt"]:
                        flk["paged"] += 1
                        flk["page_requests"] += len(e["pages"]) + 1
        mcs = [("3 requests", mc_c, mc_ops, mc), ("exotic lifetimes", MCX, mcx_ops, mcx)] + ([("4 requests", MC4, 4, mc4)] if mc4 else [])
        rep.coverage.update(
            {
                "states": sum(r.distinct for _, _, _, r in mcs),
                "transitions": sum(r.generated for _, _, _, r in mcs),
                "depth": max(r.depth for _, _, _, r in mcs),
                "mc_runs": [dict(what=w, constants=dict(c, maxops=o), states=r.distinct, transitions=r.generated, wall_s=round(r.wall, 1))
                            for w, c, o, r in mcs],
                "hypothesis_states": hyp.distinct,
                "hypothesis_candidates": len(cand_hists),
                "hypothesis_candidates_reproduced": reproduced_cands,
                "simulated_behaviours": len(sim_hists),
                "sim_constants": dict(sim_c, maxops=sim_ops, filters=len(sim_c["filters"])),
                "traces_validated_against_impl": len(traces),
                "events_validated": sum(len(t) for t in traces),
                "clause_evaluations_on_real_executions": clause_evaluations(traces, verdicts),
                "requests_by_kind": kinds,
                "distinct_request_forms_and_outcomes": len(forms),
                "filtered_lookups": flk,
                "simple_registration_fetches_answered": sum(r["meta"]["fetches"] for r in results),
                "lookups_transferred_blockwise": sum(r["meta"]["blockwise_lookups"] for r in results),
                "largest_resource_lookup_entries": maxlinks,
                "exotic_lifetime_forms_and_outcomes": sorted("%s:lt=%s->%d" % (k, rddrive.VOCAB["lx"][i], c) for k, i, c in lx_used),
                "distinct_registration_keys": len(names),
                "registration_keys_outside_ascii_or_differing_in_case_or_percent": sorted(
                    "%s/%s" % k for k in names if not (k[0] + k[1]).isascii() or "%" in k[0] + k[1] or (k[0] + k[1]).lower() != k[0] + k[1])[:12],
                "lookups_that_observed_an_expiry": expiries,
                "expiries_observed_after_a_clock_jump": far_jumps,
                "traces_with_violation": sum(1 for v in verdicts if v["bad"]),
                "model_predictions_compared": nclean,
                "model_predictions_not_reproduced": ndrift,
                "exhaustive": True,
                "samples": [
                    {"history": all_hists[-1], "events": traces[-1][:9]},
                    {"history": all_hists[0], "events": traces[0][:9]},
                ],
                "checker_cmd": "tlc RD_*(ResourceDirectory).tla exhaustive (Hyp={} and with order hypotheses) + -simulate; "
                               "tlc ResourceDirectoryTrace.tla on recorded traces; RFC 3986 5.4 examples as ASSUME",
            }
        )
        rep.assumptions += [
            "virtual-time event loop and fake UDP socket stand in for the OS (harness/vloop.py, fakenet.py)",
            "requests are sent one at a time and answered before the next one (no concurrent requests); the registrant of a "
            "simple registration answers the directory's GET /.well-known/core at once",
            "one quantum = 15 s; only whole quanta are visited, including each deadline and the quantum before it "
            "(lifetimes with a remainder of seconds end between two visited instants)",
            "distinct registrations sharing a location is read as: at the same time (a freed location may be reused)",
            "lookup filters: keys ep, d, registration and link attributes, href, anchor with exact values and trailing *; what the "
            "statement does not settle is accepted either way (implicit anchors, base / rt=core.rd-ep of the endpoint entry, "
            "rel / rev split at spaces) and such keys are not generated; page / count only with valid numbers",
            "the driver's link-format and CoAP codecs (harness/rddrive.py, wire.py) are independent of aiocoap and trusted",
            "exhaustive model check uses the small constants in mc_runs; larger behaviours by simulation",
        ]


def rddrive_group(e):
    from harness.rddrive import flk_group

    return flk_group(e)


def describe_step(s):
    if s["k"] == "adv":
        return "adv->t=%d" % s["t"]
    if s["k"] == "flk":
        return "flk(%s %s%s)" % (s["iface"], "&".join(
            "href=<loc %s>" % (c.get("ref", c["loc"]),) if c.get("loc") or c.get("ref") is not None else "%s=%s%s" % (c["k"], c["v"], "*" if c["w"] else "")
            for c in s["crit"]), " count=%d" % s["cnt"] if s.get("cnt") else "")
    return "%s(%s)" % (s["k"], ",".join("%s=%s" % (k, s[k]) for k in ("ep", "d", "loc", "lt", "lx", "base", "x", "links", "var") if s.get(k)))


if __name__ == "__main__":
    import sys

    sys.exit(runner.main("C20", work))
