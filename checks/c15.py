"""C15 -- CoAP over TCP: framing independent of segmentation, signalling rules enforced.

1. TLC checks spec/CoapTcp.tla exhaustively: every sequence of up to 3 of 18
   message archetypes, every chunking of the resulting byte stream, the
   clauses of the property as invariants over the receiver of CoapTcpFrame.
2. spec -> code: behaviours of that model (tlc -simulate: archetype sequence,
   chunking, and after every chunk the dispatched / written / closed the model
   expects) are replayed on the real TcpConnection over a fake transport
   (harness/tcpdrive.py).
3. TLC as evaluator (spec/CoapTcpEval.tla): the reference framing of RFC 8323
   section 3.2 for messages whose length crosses 12/13, 268/269, 65804/65805
   is computed by TLC and compared with tcp._serialize and with what a
   connection writes; the same frames, malformed variants and random message
   sequences are fed to the real connection in chunkings that cut inside the
   extended length and the token, down to single bytes.
4. code -> spec: every recorded execution (2. and 3.) goes back to TLC, which
   runs the model receiver over the same chunks and evaluates the clauses after
   every chunk.  Only a clause false on a real execution is a VIOLATION.
"""

import json
import os
import random
import sys
import time
from concurrent.futures import ThreadPoolExecutor
from multiprocessing import Pool

from harness import tlc, runner, MachineryError, require_repo
from harness import tcpdrive

CLAUSES = [
    "C15_DispatchIndependentOfChunking",
    "C15_NoDispatchBeforeCsm",
    "C15_FatalAborts",
    "C15_PingPong",
    "C15_EmptyIgnored",
    "C15_ReleaseAbortFailPending",
    "C15_FrameIs8323",
]

MODEL_MAXMSG = 16
NARCH = 18

MC_CFG = """SPECIFICATION Spec
CONSTANTS
  MaxSeq = %(maxseq)d
  MaxMsg = 16
  LongFirst = {%(longfirst)s}
  LongTooks = {%(longtooks)s}
  Tooks = {%(tooks)s}
"""
MC_INVS = "".join("INVARIANT %s\n" % c for c in CLAUSES[:6])

CSM, PING, PONG, RELEASE, ABORT = 225, 226, 227, 228, 229
KNOWN_SIG = (CSM, PING, PONG, RELEASE, ABORT)


# --------------------------------------------------------------------------
# running the real code
def _run_one(case):
    try:
        return tcpdrive.run_case(case)
    except Exception:
        import traceback

        return {"error": traceback.format_exc()}


def run_cases(cases):
    if not cases:
        return []
    with Pool(min(16, os.cpu_count() or 4)) as p:
        return p.map(_run_one, cases, chunksize=max(1, len(cases) // 128))


def _ser_one(e):
    try:
        d, w = tcpdrive.serialize(e["code"], e["tok"], e["opts"], e["pay"])
        return {"direct": d, "written": w}
    except Exception:
        import traceback

        return {"error": traceback.format_exc()}


# --------------------------------------------------------------------------
# TLC as evaluator
def tlc_eval(wd, tag, enc, rx, timeout=600, parts=1):
    """One (or `parts` parallel) evaluator run(s); returns (heads, verdicts)."""
    heads = [None] * len(enc)
    verdicts = [None] * len(rx)
    jobs = []
    if enc:
        jobs.append(("e", enc, [], 0))
    if rx:
        parts = max(1, min(parts, len(rx)))
        size = (len(rx) + parts - 1) // parts
        for k in range(0, len(rx), size):
            jobs.append(("r%d" % k, [], rx[k : k + size], k))
    wd.write("CoapTcpEval_run.cfg", "SPECIFICATION ESpec\nINVARIANT Report\nCHECK_DEADLOCK FALSE\n")

    def one(job):
        name, e, r, base = job
        tf = wd.file("%s-%s.json" % (tag, name))
        with open(tf, "w") as f:
            json.dump({"enc": e, "rx": r}, f, separators=(",", ":"))
        res = tlc.run(wd, "CoapTcpEval.tla", "CoapTcpEval_run.cfg", workers=1, timeout=timeout, env={"TRACE_FILE": tf, "JAVA_TOOL_OPTIONS": "-Xss512m -XX:ParallelGCThreads=2 -XX:TieredStopAtLevel=1"}, heap="3g")
        tlc.need_ok_run(res, "CoapTcpEval " + tag)
        return job, res

    with ThreadPoolExecutor(max_workers=12) as ex:
        results = list(ex.map(one, jobs))
    for (name, e, r, base), res in results:
        for v in tlc.printed_values(res):
            if v and v[0] == "ENC":
                heads[v[1] - 1] = v[2]
            elif v and v[0] == "CASE":
                verdicts[base + v[1] - 1] = {"bad": set(v[2]), "first": v[3], "exp": v[4]}
    if any(h is None for h in heads) or any(v is None for v in verdicts):
        raise MachineryError("CoapTcpEval %s: missing results (%d heads, %d verdicts missing)" % (tag, heads.count(None), verdicts.count(None)))
    return heads, verdicts


def rx_record(case, obs):
    return {
        "frames": case["frames"],
        "cuts": case["cuts"],
        "maxmsg": case["maxmsg"],
        "ptoks": obs["ptoks"],
        "obs": {"init": [x for b in obs["init"] for x in b], "steps": obs["steps"]},
    }


# --------------------------------------------------------------------------
# message / frame generation (inputs only; what is expected comes from TLC)
def uint_bytes(v):
    return list(v.to_bytes((v.bit_length() + 7) // 8, "big"))


def ext_len(v):
    return 0 if v < 13 else 1 if v < 269 else 2


def opts_len(opts):
    last = n = 0
    for num, val in opts:
        n += 1 + ext_len(num - last) + ext_len(len(val)) + len(val)
        last = num
    return n


def frame_ext(body):
    return 0 if body < 13 else 1 if body < 269 else 2 if body < 65805 else 4


TEXT = "abcxyz019-._~/?=&%é ü→\U0001f600"
STRING_OPTS = {3: 60, 8: 40, 11: 40, 15: 40, 20: 40, 35: 80, 39: 10}
UINT_OPTS = {7: 2, 12: 2, 14: 4, 17: 2, 28: 4, 60: 4, 6: 3, 258: 1, 16: 1}
OPAQUE_OPTS = {1: (0, 8), 4: (1, 8), 9: (0, 30), 252: (1, 40), 292: (0, 8), 5: (0, 0), 21: (0, 0)}
UNKNOWN_OPTS = [33, 47, 259, 300, 2049, 65000, 65001]


def rand_text(rng, maxbytes):
    s = ""
    while rng.random() < 0.8:
        c = rng.choice(TEXT)
        if len((s + c).encode()) > maxbytes:
            break
        s += c
    return list(s.encode())


def rand_opts(rng, n=None):
    if n is None:
        n = rng.choice([0, 0, 1, 1, 2, 3, 5])
    opts = []
    used = set()
    for _ in range(n):
        kind = rng.choice(["str", "str", "uint", "opaque", "block", "unknown"])
        if kind == "str":
            num = rng.choice(list(STRING_OPTS))
            if num in (3, 35, 39) and num in used:
                continue
            val = rand_text(rng, STRING_OPTS[num])
            if num in (3, 35, 39) and not val:
                val = [97]
        elif kind == "uint":
            num = rng.choice(list(UINT_OPTS))
            if num in used:
                continue
            val = uint_bytes(rng.choice([0, 1, 255, 256, rng.randrange(1 << (8 * UINT_OPTS[num]))]))
        elif kind == "block":
            num = rng.choice([23, 27])
            if num in used:
                continue
            val = uint_bytes((rng.choice([0, 1, 15, 16, 4095, 65535]) << 4) | (rng.randrange(2) << 3) | rng.randrange(7))
        elif kind == "opaque":
            num = rng.choice(list(OPAQUE_OPTS))
            if num in used:
                continue
            lo, hi = OPAQUE_OPTS[num]
            val = list(rng.randbytes(rng.randint(lo, hi)))
        else:
            num = rng.choice(UNKNOWN_OPTS)
            if num in used:
                continue
            val = list(rng.randbytes(rng.choice([0, 1, 12, 13, 14, 268, 269, 270])))
        used.add(num)
        opts.append([num, val])
    opts.sort(key=lambda o: o[0])
    return opts


def rand_token(rng):
    return list(rng.randbytes(rng.choice([0, 0, 1, 2, 4, 7, 8])))


def E(code, tok, opts=(), plen=0, tkl=None, ob=None):
    return {
        "code": code,
        "tok": list(tok),
        "tkl": len(tok) if tkl is None else tkl,
        "raw": ob is not None,
        "ob": list(ob or []),
        "opts": [[n, list(v)] for n, v in opts],
        "plen": plen,
    }


class Spec:
    """One frame to be built: label, the message to be framed by TLC, its
    payload bytes, and optionally a truncation (header only)."""

    def __init__(self, k, enc, pay=b"", trunc=None):
        self.k = k
        self.enc = enc
        self.pay = bytes(pay)
        self.trunc = trunc
        assert enc["plen"] == len(self.pay)


def sized(k, rng, code, tok, opts, body):
    """A message whose options + payload take exactly `body` bytes (or as
    close as the options allow)."""
    ol = opts_len(opts)
    if body < ol + 2:
        if body < ol:
            opts = []
            ol = 0
        plen = max(0, body - ol - 1) if body != ol else 0
    else:
        plen = body - ol - 1
    e = frame_ext(ol + (1 + plen if plen else 0))
    lab = k + ("/e%d" % e if e else "")
    return Spec(lab, E(code, tok, opts, plen), rng.randbytes(plen))


def sig_frame(k, rng, code, tok, opts, maxmsg, p_payload):
    """A signalling message; with probability p_payload it carries a diagnostic
    payload (RFC 8323 5.1 allows one in every signalling message) sized so that
    options + payload sit at an extended-length boundary now and then."""
    if rng.random() >= p_payload:
        return Spec(k, E(code, tok, opts))
    ol = opts_len(opts)
    body = rng.choice([ol + 2, ol + 8, 11, 12, 13, 14, 268, 269, 270])
    body = max(ol + 2, min(body, maxmsg - 16))
    s = sized(k + "+pay", rng, code, tok, opts, body)
    return s


REQ_CODES = [1, 2, 3, 4, 5, 6, 7, 31]
RESP_CODES = [65, 68, 69, 95, 128, 132, 143, 160, 165]
BAD_BODIES = [[0xF0], [0x1F, 0x00], [0xB5, 0x61], [0xD0], [0xE0, 0x00], [0x0E, 0x01], [0xB1, 0x61, 0xF1]]


def gen_frame(rng, kind, maxmsg, ptoks, big_ok):
    if kind == "csm":
        opts = []
        if rng.random() < 0.7:
            opts.append([2, uint_bytes(rng.choice([1152, 64, 1 << 20, 70000]))])
        if rng.random() < 0.5:
            opts.append([4, []])
        if rng.random() < 0.3:
            opts.append([rng.choice([6, 1000, 65000]), list(rng.randbytes(rng.randint(0, 3)))])
        return sig_frame("csm", rng, CSM, rand_token(rng) if rng.random() < 0.2 else [], opts, maxmsg, 0.15)
    if kind == "ping":
        return sig_frame("ping", rng, PING, rand_token(rng), [[2, []]] if rng.random() < 0.2 else [], maxmsg, 0.4)
    if kind == "pong":
        return sig_frame("pong", rng, PONG, rand_token(rng), [], maxmsg, 0.3)
    if kind == "release":
        opts = rng.choice([[], [[2, list(b"coap+tcp://alt.example")]], [[4, [5]]]])
        return sig_frame("release", rng, RELEASE, rand_token(rng) if rng.random() < 0.25 else [], opts, maxmsg, 0.3)
    if kind == "abort":
        opts = [[2, [1]]] if rng.random() < 0.3 else []
        return sig_frame("abort", rng, ABORT, rand_token(rng) if rng.random() < 0.25 else [], opts, maxmsg, 0.5)
    if kind == "sig-crit":
        code = rng.choice(KNOWN_SIG)
        name = {CSM: "csm", PING: "ping", PONG: "pong", RELEASE: "release", ABORT: "abort"}[code]
        num = rng.choice([1, 3, 3, 7, 301])
        if num == 3 and rng.random() < 0.5:
            # in the request/response number space 3 is a string option
            val, name = rng.choice([[0xC5], [0xFF, 0x61]]), name + "-crit-bin3"
        elif num == 3:
            val, name = list(b"ab"), name + "-crit"
        else:
            val, name = list(rng.randbytes(rng.randint(0, 2))), name + "-crit"
        return Spec(name, E(code, rand_token(rng) if code == PING else [], [[num, val]]))
    if kind == "sig-elective":
        # unknown elective options (even numbers) are to be ignored whatever their value
        code = rng.choice([CSM, CSM, PING, PONG])
        name = {CSM: "csm", PING: "ping", PONG: "pong"}[code]
        num = rng.choice([6, 8, 8, 20, 1000])
        val = rng.choice([[0xFF], [0xC3], list(b"ok"), [0x80, 0x80]])
        binary = num in (8, 20) and val != list(b"ok")
        return Spec(name + ("+o%dbin" % num if binary else "+elective"), E(code, rand_token(rng) if code == PING else [], [[num, val]]))
    if kind == "empty":
        pay = rng.choice([b"", b"", b"x"])
        return Spec("empty", E(0, rand_token(rng), [], len(pay)), pay)
    if kind == "sig-unknown":
        code = rng.choice([224] + list(range(230, 256)))
        return Spec("sig-unknown", E(code, rand_token(rng), [[2, [1]]] if rng.random() < 0.2 else []))
    if kind in ("req", "resp"):
        code = rng.choice(REQ_CODES if kind == "req" else RESP_CODES)
        tok = rand_token(rng)
        if kind == "resp" and ptoks and rng.random() < 0.6:
            tok = rng.choice(ptoks)
        opts = rand_opts(rng)
        cls = rng.random()
        limit = maxmsg - 16
        if cls < 0.55:
            body = opts_len(opts) + rng.choice([0, 2, 3, 9])
        elif cls < 0.9:
            body = rng.choice([11, 12, 13, 14, 267, 268, 269, 270])
        elif big_ok:
            body = rng.choice([65803, 65804, 65805, 65806])
        else:
            body = rng.choice([12, 13, 268, 269])
        if body > limit:
            opts = []
            body = max(0, min(body, limit))
        return sized(kind, rng, code, tok, opts, body)
    if kind == "req-badutf8":
        opts = rand_opts(rng, 1)
        bad = rng.choice([[0xFF], [0x61, 0xC3], [0xC0, 0xAF], [0xED, 0xA0, 0x80], [0x80], [0xF5, 0x80, 0x80, 0x80]])
        opts.append([rng.choice([3, 8, 11, 15, 20, 35, 39]), bad])
        opts.sort(key=lambda o: o[0])
        return Spec("req-badutf8", E(rng.choice(REQ_CODES), rand_token(rng), opts))
    if kind == "exactfit":
        tok = rand_token(rng)
        # total = 1 + ext + 1 + tkl + body = maxmsg
        for ext in (0, 1, 2, 4):
            body = maxmsg - 2 - ext - len(tok)
            if body >= 0 and frame_ext(body) == ext:
                s = sized("req", rng, 2, tok, [], body)
                s.k = "req-exactfit"
                return s
        return gen_frame(rng, "req", maxmsg, ptoks, False)
    if kind == "oversize":
        tok = rand_token(rng)
        over = rng.choice([1, 1, 2, 9])
        for ext in (0, 1, 2, 4):
            body = maxmsg + over - 2 - ext - len(tok)
            if body >= 2 and frame_ext(body) == ext:
                s = sized("oversize", rng, 2, tok, [], body)
                s.k = "oversize"
                return s
        return gen_frame(rng, "oversize-hdr", maxmsg, ptoks, False)
    if kind == "oversize-hdr":
        # announces far more than the maximum; only the start of it is ever sent
        n = rng.choice([maxmsg + 1, maxmsg * 2 + 100000, 0x7F000000, 0x30000000])
        e = frame_ext(n)
        first = {0: None, 1: 13, 2: 14, 4: 15}[e]
        if first is None:
            return gen_frame(rng, "oversize", maxmsg, ptoks, False)
        off = {1: 13, 2: 269, 4: 65805}[e]
        hdr = bytes([first << 4]) + (n - off).to_bytes(e, "big") + bytes([2])
        keep = rng.choice([len(hdr) - 1, len(hdr), len(hdr)])
        s = Spec("oversize-hdr", E(2, [], [], 0))
        s.rawbytes = hdr[:keep] + (b"zz" if keep == len(hdr) else b"")
        return s
    if kind == "tkl":
        tkl = rng.randint(9, 15)
        tok = list(rng.randbytes(tkl))
        opts = rand_opts(rng, rng.choice([0, 1]))
        plen = rng.choice([0, 0, 3])
        return Spec("tkl", E(rng.choice([1, 69, CSM]), tok, opts, plen, tkl=tkl), rng.randbytes(plen))
    if kind == "badopt":
        pre = rand_opts(rng, rng.choice([0, 0, 1]))
        pre = [o for o in pre if len(o[1]) < 13 and o[0] < 13]
        ob = []
        last = 0
        for num, val in pre:
            ob += [((num - last) << 4) | len(val)] + val
            last = num
        ob += rng.choice(BAD_BODIES)
        return Spec("badopt", E(rng.choice([1, 2, 69, CSM, PING]), rand_token(rng), ob=ob))
    raise AssertionError(kind)


KIND_WEIGHTS = [
    ("req", 22),
    ("resp", 12),
    ("ping", 8),
    ("pong", 4),
    ("empty", 8),
    ("csm", 5),
    ("sig-unknown", 4),
    ("release", 3),
    ("abort", 3),
    ("sig-crit", 4),
    ("sig-elective", 3),
    ("req-badutf8", 3),
    ("tkl", 3),
    ("badopt", 4),
    ("oversize", 3),
    ("exactfit", 3),
    ("oversize-hdr", 2),
]


def gen_sequence(rng, big_ok):
    maxmsg = rng.choice([1 << 20, 1 << 20, 1 << 20, 64, 300, 1200, 70000])
    npend = rng.choice([0, 1, 2, 2])
    role = "client" if npend or rng.random() < 0.5 else "server"
    ptoks = [[tcpdrive.PEND_TOKEN_BASE + 1 + j] for j in range(npend)]
    n = rng.choice([1, 2, 2, 3, 3, 4, 5, 6, 8])
    kinds = [k for k, w in KIND_WEIGHTS for _ in range(w)]
    specs = []
    if rng.random() < 0.85:
        specs.append(gen_frame(rng, "csm", maxmsg, ptoks, False))
    nbig = 0
    for _ in range(n):
        k = rng.choice(kinds)
        if k in ("oversize", "exactfit") and maxmsg > 70000:
            k = "req"
        s = gen_frame(rng, k, maxmsg, ptoks, big_ok and nbig == 0 and maxmsg >= (1 << 20))
        if s.enc["plen"] > 60000:
            nbig += 1
        specs.append(s)
        if s.k == "oversize-hdr":
            break  # whatever followed would be swallowed as its body
    return {
        "specs": specs,
        "maxmsg": maxmsg,
        "npend": npend,
        "role": role,
        # the peer has stopped reading (write backlog) / the pending requests were started
        # together before the host was connected (one connection each, one of them filed)
        "backlog": rng.random() < 0.35,
        "spawn": "concurrent" if npend == 2 and rng.random() < 0.4 else None,
    }


def pipelined(rng, n):
    """CSM + n small frames: what a pipelining peer puts into one segment."""
    specs = [gen_frame(rng, "csm", 1 << 20, [], False)]
    for i in range(n):
        k = rng.choice(["req", "req", "req", "ping", "empty", "resp"])
        tok = list(i.to_bytes(2, "big"))
        if k == "req":
            specs.append(Spec("req", E(1, tok, [[11, [97 + i % 26]]])))
        elif k == "resp":
            specs.append(Spec("resp", E(69, tok, [], 1), bytes([i & 0xFF])))
        elif k == "ping":
            specs.append(Spec("ping", E(PING, tok)))
        else:
            specs.append(Spec("empty", E(0, [])))
    return specs


def boundary_sequences(rng, tier):
    """CSM + one request whose body length sits on each side of every
    extended-length boundary; CSM + each fatal kind; fatal frame first."""
    out = []
    sizes = [0, 1, 2, 11, 12, 13, 14, 267, 268, 269, 270]
    big = [65803, 65804, 65805, 65806] if tier == "thorough" else [65804, 65805]
    for body in sizes + big:
        for tkl in (0, 8) if body < 60000 else (3,):
            tok = list(rng.randbytes(tkl))
            csm = gen_frame(rng, "csm", 1 << 20, [], False)
            out.append({"specs": [csm, sized("req", rng, 2, tok, [], body)], "maxmsg": 1 << 20, "npend": 0, "role": "server"})
            out.append(
                {
                    "specs": [csm, sized("resp", rng, 69, [tcpdrive.PEND_TOKEN_BASE + 1], [[12, [42]]] if body > 3 else [], body), gen_frame(rng, "ping", 0, [], False)],
                    "maxmsg": 1 << 20,
                    "npend": 1,
                    "role": "client",
                }
            )
    for k in ("sig-crit", "sig-elective", "tkl", "badopt", "oversize", "oversize-hdr", "req-badutf8", "release", "abort", "empty", "sig-unknown"):
        for mm in (64, 1200):
            csm = gen_frame(rng, "csm", mm, [], False)
            x = gen_frame(rng, k, mm, [], False)
            out.append({"specs": [csm, x], "maxmsg": mm, "npend": 2, "role": "client"})
            out.append({"specs": [x, csm], "maxmsg": mm, "npend": 0, "role": "server"})
            r = gen_frame(rng, "req", mm, [], False)
            if x.k != "oversize-hdr":
                out.append({"specs": [csm, r, x, gen_frame(rng, "req", mm, [], False)], "maxmsg": mm, "npend": 1, "role": "client"})
            # the same with a write backlog, and on connections opened by concurrent first requests
            x2 = gen_frame(rng, k, mm, [], False)
            if mm == 64:
                out.append({"specs": [csm, x2], "maxmsg": mm, "npend": 2, "role": "client", "backlog": True, "few": True})
            else:
                out.append({"specs": [csm, x2], "maxmsg": mm, "npend": 2, "role": "client", "spawn": "concurrent", "backlog": k in ("tkl", "badopt"), "few": True})
    # signalling messages with token and diagnostic payload, across the 13 / 269 boundaries
    for code, k in ((PING, "ping"), (PONG, "pong"), (RELEASE, "release"), (CSM, "csm")):
        for body in (2, 12, 13, 268, 269):
            csm = gen_frame(rng, "csm", 1 << 20, [], False)
            x = sized(k + "+pay", rng, code, list(rng.randbytes(rng.choice([0, 2, 8]))), [], body)
            out.append({"specs": [csm, x, gen_frame(rng, "req", 1200, [], False), gen_frame(rng, "ping", 1200, [], False)], "maxmsg": 1 << 20, "npend": 2, "role": "client", "few": True})
    # pipelining: many complete frames in one segment
    for n in (100, 300, 1500) if tier == "thorough" else (100, 300):
        specs = pipelined(rng, n)
        out.append({"specs": specs, "maxmsg": 1 << 20, "npend": 0, "role": "server", "pieces": [1, 2]})
    return out


def header_len(b):
    if not b:
        return 1
    nib = b[0] >> 4
    return 2 + (0 if nib < 13 else 1 if nib == 13 else 2 if nib == 14 else 4)


def chunkings(rng, frames, want_single):
    """Lists of chunk lengths over the concatenation of `frames`."""
    total = sum(len(f) for f in frames)
    if total == 0:
        return []
    out = [[total]]
    if total == 1:
        return out

    def from_cuts(cuts):
        cuts = sorted(set(c for c in cuts if 0 < c < total))
        edges = [0] + cuts + [total]
        return [edges[i + 1] - edges[i] for i in range(len(edges) - 1)]

    if want_single and total <= 200:
        out.append([1] * total)
    k = rng.randint(1, min(12, total - 1))
    out.append(from_cuts(rng.sample(range(1, total), k)))
    # cuts inside the extended length, after the code, inside the token, before the last byte
    cand = []
    s = 0
    for f in frames:
        h = header_len(f)
        tkl = (f[0] & 15) if f else 0
        cand += [s + 1, s + 2, s + h - 1, s + h, s + h + max(1, tkl // 2), s + h + tkl, s + len(f) - 1, s + len(f)]
        s += len(f)
    cand = sorted(set(c for c in cand if 0 < c < total))
    if cand:
        out.append(from_cuts(rng.sample(cand, min(len(cand), rng.randint(1, 8)))))
    return out


def build_cases(rng, seqs, heads_iter, want_single=True):
    cases = []
    for sq in seqs:
        frames = []
        for s in sq["specs"]:
            head = next(heads_iter)
            if hasattr(s, "rawbytes"):
                b = s.rawbytes
            else:
                b = bytes(head) + s.pay
            frames.append({"k": s.k, "b": list(b)})
        if sq.get("pieces"):
            total = sum(len(f["b"]) for f in frames)
            # cut between two frames, not too close to either end
            ends = []
            e = 0
            for f in frames:
                e += len(f["b"])
                ends.append(e)
            mid = ends[(2 * len(ends)) // 3]
            cutss = [[total] if n == 1 else [mid, total - mid] for n in sq["pieces"]]
        else:
            cutss = chunkings(rng, [f["b"] for f in frames], want_single)
            if sq.get("few") and len(cutss) > 2:
                cutss = [cutss[0], cutss[-1]]  # in one piece; cut inside headers and tokens
        for cuts in cutss:
            cases.append(
                {
                    "frames": frames,
                    "cuts": cuts,
                    "maxmsg": sq["maxmsg"],
                    "npend": sq["npend"],
                    "role": sq["role"],
                    "backlog": bool(sq.get("backlog")),
                    "spawn": sq.get("spawn"),
                    "src": "gen",
                }
            )
    return cases


# --------------------------------------------------------------------------
# serialisation cases (outgoing)
def ser_cases(rng, tier):
    out = []
    bodies = [0, 1, 2, 11, 12, 13, 14, 15, 100, 267, 268, 269, 270, 271, 1000, 65803, 65804, 65805, 65806]
    if tier == "thorough":
        bodies += [65535, 65536, 70000, 131072, 300000]
    templates = [
        [],
        [[11, list(b"a")]],
        [[3, list(b"host.example")], [11, list(b"seg")], [11, list("é".encode())], [12, [50]], [15, list(b"k=v")]],
        [[300, list(b"0123456789abcd")], [2049, [7] * 270]],
        [[5, []]],
    ]
    for body in bodies:
        for ti, opts in enumerate(templates):
            if opts_len(opts) > body and opts:
                continue
            if body == 1 and not opts:
                continue
            for tkl in ((0, 8) if ti < 2 else (rng.choice([1, 2, 5]),)):
                code = rng.choice([1, 2, 69, 132, CSM, ABORT, 0]) if body else rng.choice([1, 0, PONG, RELEASE, 68])
                s = sized("ser", rng, code, list(rng.randbytes(tkl)), opts, body)
                out.append(s)
    for _ in range(60 if tier == "quick" else 600):
        code = rng.choice(REQ_CODES + RESP_CODES + list(KNOWN_SIG) + [0])
        opts = rand_opts(rng)
        body = opts_len(opts) + rng.choice([0, 2, 5, 12 - min(12, opts_len(opts)), 13, 269, rng.randint(2, 400)])
        out.append(sized("ser", rng, code, rand_token(rng), opts, body))
    return out


def body_class(n):
    for b in (13, 269, 65805):
        if abs(n - b) <= 2 or n == b - 1:
            return "body=%d" % n
    return "body<13" if n < 13 else "body<269" if n < 269 else "body<65805" if n < 65805 else "body>=65805"


# --------------------------------------------------------------------------
# model behaviours -> cases
def behaviours_to_cases(behaviours, arch):
    cases = []
    seen = set()
    for beh in behaviours:
        if not beh:
            continue
        st0 = beh[0][1]
        seq = st0["seq"] if isinstance(st0["seq"], list) else []
        frames = [{"k": arch[a][0], "b": arch[a][1]} for a in seq]
        total = sum(len(f["b"]) for f in frames)
        cuts = []
        expect = []
        pos = 0
        for label, st in beh[1:]:
            n = st["pos"] - pos
            if n <= 0:
                continue
            pos = st["pos"]
            cuts.append(n)
            expect.append({"ndisp": len(st["dispatched"]), "wr": st["written"], "closed": st["closed"], "done": st["done"]})
        if not cuts:
            continue
        if pos < total:
            cuts.append(total - pos)
        key = (tuple(seq), tuple(cuts))
        if key in seen:
            continue
        seen.add(key)
        cases.append(
            {
                "frames": frames,
                "cuts": cuts,
                "maxmsg": MODEL_MAXMSG,
                "npend": 2,
                "role": "client",
                "backlog": len(cases) % 3 == 2,  # every third one with the peer not reading
                "spawn": None,
                "src": "model",
                "expect": expect,
            }
        )
    return cases


def compare_with_model(case, obs):
    """None if the execution went as the model behaviour predicted, compared
    chunk by chunk for as long as the model judges (done = "no") and the
    implementation has not closed; what lies beyond is the evaluator's business."""
    nd = 0
    for k, exp in enumerate(case["expect"]):
        if k >= len(obs["steps"]):
            return None
        s = obs["steps"][k]
        nd += len(s["disp"])
        if exp["done"] != "no" or s["closed"] or s["exc"]:
            return None
        if nd != exp["ndisp"]:
            return "after chunk %d model has dispatched %d messages, implementation %d" % (k + 1, exp["ndisp"], nd)
    return None


# --------------------------------------------------------------------------
def norm_kind(k):
    """Archetype label as used in signatures: the signalling code does not
    matter for the option-value cases, an elective-only CSM is a CSM."""
    import re

    if k == "csm+elective":
        return "csm"
    if re.fullmatch(r"(csm|ping|pong)\+o(8|20)bin", k):
        return "sig+o8/20bin"
    if re.fullmatch(r"(csm|ping|pong|release|abort)-crit-bin3", k):
        return "sig-crit-bin3"
    return k


def compress(kinds):
    """Label list for a signature; long (pipelined) streams by their distinct kinds."""
    kinds = [norm_kind(k) for k in kinds]
    if len(kinds) <= 12:
        return ",".join(kinds)
    seen = []
    for k in kinds:
        if k not in seen:
            seen.append(k)
    return "pipelined(>12 frames):" + ",".join(seen)


def shape_of(case, upto):
    return compress([f["k"] for f in case["frames"][:upto]])


def hexs(b):
    return bytes(b).hex()


def work(rep, args):
    require_repo()
    quick = args.tier == "quick"
    seed = args.seed
    rng = random.Random(seed * 7919 + 15)
    t0 = time.time()

    if args.replay:
        return replay(rep, args)

    with tlc.Workdir() as wd:
        # ---- inputs for the evaluator (generated; what is expected comes from TLC)
        sers = ser_cases(rng, args.tier)
        seqs = boundary_sequences(rng, args.tier)
        nrand = 80 if quick else 3000
        nbig = 0
        for i in range(nrand):
            big_ok = (nbig < (3 if quick else 30)) and rng.random() < 0.1
            sq = gen_sequence(rng, big_ok)
            if any(s.enc["plen"] > 60000 for s in sq["specs"]):
                nbig += 1
            seqs.append(sq)
        enc = [s.enc for s in sers] + [s.enc for sq in seqs for s in sq["specs"]]

        allarch = ",".join(str(i) for i in range(1, NARCH + 1))
        consts = dict(maxseq=3, longfirst="1" if quick else allarch, longtooks="TRUE" if quick else "TRUE, FALSE", tooks="TRUE, FALSE")
        wd.write("CoapTcp_mc.cfg", MC_CFG % consts + MC_INVS)
        nsim = 250 if quick else 6000
        simdir = wd.file("sim")
        os.makedirs(simdir)
        wd.write("CoapTcp_sim.cfg", MC_CFG % dict(maxseq=3, longfirst=allarch, longtooks="TRUE", tooks="TRUE"))

        # ---- 1. exhaustive model check, 2. behaviours of the model, 3. reference
        #         framing: three independent TLC runs, side by side
        def job_mc():
            fast = {"JAVA_TOOL_OPTIONS": "-XX:TieredStopAtLevel=1 -XX:ParallelGCThreads=4"}  # short run: no point in C2
            r = tlc.run(wd, "CoapTcp.tla", "CoapTcp_mc.cfg", timeout=300 if quick else 1800, workers=8 if quick else 14, env=fast if quick else None)
            return r, time.time() - t0

        def job_sim():
            r = tlc.run(wd, "CoapTcp.tla", "CoapTcp_sim.cfg", workers=1, timeout=600, env={"JAVA_TOOL_OPTIONS": "-XX:TieredStopAtLevel=1 -XX:ParallelGCThreads=2"}, simulate="file=%s/tr,num=%d" % (simdir, nsim), depth=60, seed=seed + 1)
            return r, time.time() - t0

        def job_enc():
            return tlc_eval(wd, "enc", enc, [], timeout=600), time.time() - t0

        with ThreadPoolExecutor(max_workers=3) as ex:
            f_mc, f_sim, f_enc = ex.submit(job_mc), ex.submit(job_sim), ex.submit(job_enc)
            (mc, t_mc), (sim, t_sim), ((heads, _), t_enc) = f_mc.result(), f_sim.result(), f_enc.result()
        tlc.need_ok_run(mc, "CoapTcp model check")
        if mc.violated:
            raise MachineryError(
                "CoapTcp model violates %s: the model follows the statement by construction, so the specification is wrong\n%s"
                % (mc.violated, "\n".join(mc.out.splitlines()[-60:]))
            )
        arch = {}
        for v in tlc.printed_values(mc, "ARCH"):
            arch[v[1]] = (v[2], v[3])
        if len(arch) != NARCH:
            raise MachineryError("archetype table incomplete: %s" % sorted(arch))
        tlc.need_ok_run(sim, "CoapTcp simulation")
        behaviours = tlc.read_sim_traces(os.path.join(simdir, "tr"))
        model_cases = behaviours_to_cases(behaviours, arch)
        if not model_cases:
            raise MachineryError("no behaviours from simulation")
        t_tlc = time.time() - t0

        # outgoing: _serialize / _send_message against the reference
        ser_inputs = []
        for s, h in zip(sers, heads):
            ser_inputs.append({"code": s.enc["code"], "tok": s.enc["tok"], "opts": s.enc["opts"], "pay": s.pay})
        with Pool(min(16, os.cpu_count() or 4)) as p:
            ser_results = p.map(_ser_one, ser_inputs, chunksize=8)
        ser_bodies = set()
        ser_samples = []
        for s, h, r in zip(sers, heads, ser_results):
            want = bytes(h) + s.pay
            body = opts_len(s.enc["opts"]) + (1 + len(s.pay) if s.pay else 0)
            ser_bodies.add(body)
            if "error" in r:
                rep.violation(
                    "C15_FrameIs8323",
                    "C15_FrameIs8323|raises|%s" % body_class(body),
                    "serialising a message (code %d, token %d bytes, body %d bytes) raised\n%s" % (s.enc["code"], len(s.enc["tok"]), body, r["error"][-600:]),
                    {"message": {"code": s.enc["code"], "tok": s.enc["tok"], "opts": s.enc["opts"], "paylen": len(s.pay)}},
                )
                continue
            for how in ("direct", "written"):
                got = r[how]
                if got != want:
                    n = next((i for i in range(min(len(got), len(want))) if got[i] != want[i]), min(len(got), len(want)))
                    rep.violation(
                        "C15_FrameIs8323",
                        "C15_FrameIs8323|%s|%s" % ("_serialize" if how == "direct" else "_send_message", body_class(body)),
                        "message code %d, token %s, options %s, payload %d bytes (options+payload = %d bytes): RFC 8323 3.2 frame starts %s (length %d), implementation produced %s (length %d); first difference at byte %d"
                        % (s.enc["code"], hexs(s.enc["tok"]), s.enc["opts"][:3], len(s.pay), body, hexs(want[:12]), len(want), hexs(got[:12]), len(got), n),
                        {"message": {"code": s.enc["code"], "tok": s.enc["tok"], "opts": s.enc["opts"], "paylen": len(s.pay)}, "expected_head": list(h)},
                    )
                    break
            if len(ser_samples) < 3 and body in (12, 13, 269):
                ser_samples.append({"body": body, "expected_first_bytes": hexs(want[:8]), "implementation_first_bytes": hexs(r["direct"][:8])})

        # incoming: streams from the reference frames
        hi = iter(heads[len(sers) :])
        gen_cases = build_cases(rng, seqs, hi)
        all_cases = model_cases + gen_cases
        results = run_cases(all_cases)
        check_ran(all_cases, results)
        xc, xr, _ = expand(all_cases, results)
        all_cases = all_cases + xc  # model cases stay in front
        results = results + xr
        t_run = time.time() - t0 - t_tlc

        # ---- 4. the recorded executions go back to TLC ----------------------------
        rx = [rx_record(c, o) for c, o in zip(all_cases, results)]
        _, verdicts = tlc_eval(wd, "judge", [], rx, timeout=900 if quick else 2400, parts=4 if quick else 12)
        t_judge = time.time() - t0 - t_tlc - t_run
        if os.environ.get("C15_TIMING"):
            print("timing mc %.1f sim %.1f enc %.1f (parallel: %.1f) run %.1f judge %.1f; cases %d" % (t_mc, t_sim, t_enc, t_tlc, t_run, t_judge, len(all_cases)))

        ndrift_model = 0
        for c, o in zip(model_cases, results):
            d = compare_with_model(c, o)
            if d:
                ndrift_model += 1
                if ndrift_model <= 5:
                    rep.add_drift("model behaviour %s cuts %s not reproduced: %s" % (shape_of(c, 9), c["cuts"], d))

        clause_hits = {c: 0 for c in CLAUSES}
        failing = []
        drift_kinds = {}
        for i, (c, o, v) in enumerate(zip(all_cases, results, verdicts)):
            bad = sorted(x for x in v["bad"] if x.startswith("C15_"))
            for x in v["bad"]:
                if x.startswith("DRIFT_"):
                    drift_kinds[x] = drift_kinds.get(x, 0) + 1
                    if drift_kinds[x] <= 2:
                        rep.add_drift("%s on %s cuts %s" % (x[6:], shape_of(c, 9), c["cuts"][:12]))
            if bad:
                failing.append(i)
                for x in bad:
                    clause_hits[x] += 1

        # ---- localisation: which frame, and the smallest stream showing it --------
        report_failures(rep, wd, all_cases, results, verdicts, failing)

        kinds_seen = {}
        for c in all_cases:
            for f in c["frames"]:
                kinds_seen[f["k"]] = kinds_seen.get(f["k"], 0) + 1
        done_seen = {}
        for v in verdicts:
            done_seen[v["exp"]["done"]] = done_seen.get(v["exp"]["done"], 0) + 1
        nontrivial = set()
        for c in all_cases:
            nontrivial.add((tuple(f["k"] for f in c["frames"]), len(c["cuts"])))
        if not quick or True:
            for need in ("fatal", "peer", "may", "no"):
                if not done_seen.get(need):
                    raise MachineryError("vacuous run: no execution ended in model state done=%s" % need)
        si = len(model_cases)
        rep.coverage.update(
            {
                "states": mc.distinct,
                "transitions": mc.generated,
                "mc_constants": {"MaxSeq": 3, "MaxMsg": MODEL_MAXMSG, "archetypes": NARCH, "length3_sequences": "CSM first, aborting receiver" if quick else "all, both receivers", "receiver_kinds": 2},
                "exhaustive": True,
                "traces_validated_against_impl": len(rx),
                "schedules_from_model_behaviours": len(model_cases),
                "model_behaviours_reproduced_exactly": len(model_cases) - ndrift_model,
                "generated_sequences": len(seqs),
                "generated_cases": len(gen_cases),
                "single_byte_chunkings": sum(1 for c in all_cases if len(c["cuts"]) > 1 and all(n == 1 for n in c["cuts"])),
                "chunks_fed": sum(len(o["steps"]) for o in results),
                "executions_with_write_backlog": sum(1 for c in all_cases if c.get("backlog")),
                "executions_on_concurrently_opened_connections": sum(1 for c in all_cases if c.get("spawn")),
                "executions_on_connections_not_in_pool": sum(1 for o in results if o.get("in_pool") is False),
                "most_frames_in_one_stream": max(len(c["frames"]) for c in all_cases),
                "signalling_frames_with_payload": sum(1 for c in all_cases for f in c["frames"] if "+pay" in f["k"]),
                "frames_over_60000_bytes": sum(1 for c in gen_cases for f in c["frames"] if len(f["b"]) > 60000),
                "serialisation_cases": len(sers),
                "serialisation_body_lengths": sorted(b for b in ser_bodies if b in (0, 1, 12, 13, 14, 268, 269, 270, 65804, 65805, 65806)),
                "frame_kinds_fed": kinds_seen,
                "executions_by_final_model_state": done_seen,
                "clause_violations_by_clause": {k: v for k, v in clause_hits.items() if v},
                "distinct_nontrivial": len(nontrivial),
                "evaluations": len(enc) + len(rx),
                "wall_breakdown_s": {"mc": round(t_mc, 1), "sim": round(t_sim, 1), "enc": round(t_enc, 1), "mc_sim_enc_side_by_side": round(t_tlc, 1), "run": round(t_run, 1), "judge": round(t_judge, 1)},
                "samples": [
                    {"frames": [(f["k"], hexs(f["b"][:24])) for f in all_cases[0]["frames"]], "cuts": all_cases[0]["cuts"], "steps": results[0]["steps"][:4], "verdict": sorted(verdicts[0]["bad"])},
                    {"frames": [(f["k"], hexs(f["b"][:24])) for f in all_cases[si]["frames"]], "cuts": all_cases[si]["cuts"][:12], "verdict": sorted(verdicts[si]["bad"]), "model": verdicts[si]["exp"]},
                ]
                + ser_samples,
                "checker_cmd": "tlc CoapTcp.tla (exhaustive, -simulate); tlc CoapTcpEval.tla (reference framing; clauses on recorded executions)",
            }
        )
        rep.assumptions += [
            "fake asyncio.Transport and create_connection stand in for the OS (harness/tcpdrive.py); nothing is delivered to a connection after it closed its transport or data_received raised",
            "option values generated are legal for their format (minimal uints, UTF-8 strings) except in the archetype req-badutf8, where refusing (Abort) and passing on are both accepted",
            "frames after a fatal frame, after the peer's Release/Abort, after an unknown 7.xx code or a request before the CSM on which the endpoint gave up are not judged",
            "a payload marker followed by no payload is not generated (RFC 7252 calls it a format error; aiocoap accepts it; C15 does not name it)",
            "exhaustive for sequences of <= 3 of %d archetypes with a 16-byte maximum message size; real sizes (1 MiB default maximum, 64 KiB frames) are sampled" % NARCH,
        ]


def expand(cases, results):
    """One execution per connection: a case run with concurrent first requests
    has several (harness/tcpdrive.py); the further ones are appended as cases
    of their own (same stream, same chunks; "conn" = index of the connection)."""
    xc, xr, owner = [], [], []
    for i, (c, o) in enumerate(zip(cases, results)):
        for k, o2 in enumerate(o.get("others") or []):
            xc.append(dict(c, conn=k + 1))
            xr.append(o2)
            owner.append(i)
    return xc, xr, owner


def check_ran(cases, results):
    for c, o in zip(cases, results):
        if "error" in o:
            raise MachineryError("driver failed on case %s\n%s" % ([f["k"] for f in c["frames"]], o["error"]))
        for o2 in [o] + (o.get("others") or []):
            if len(o2["steps"]) < len(c["cuts"]) and not (o2["steps"] and (o2["steps"][-1]["closed"] or o2["steps"][-1]["exc"])):
                raise MachineryError("driver stopped early without reason on %s" % [f["k"] for f in c["frames"]])


def judge_cases(wd, tag, cases):
    """Runs and judges `cases`; per case the execution (of the connection)
    that breaks a clause, if there is one."""
    results = run_cases(cases)
    check_ran(cases, results)
    xc, xr, owner = expand(cases, results)
    rx = [rx_record(c, o) for c, o in zip(cases + xc, results + xr)]
    _, verdicts = tlc_eval(wd, tag, [], rx, timeout=600, parts=2)
    out_r, out_v = list(results), list(verdicts[: len(cases)])
    for k, i in enumerate(owner):
        v = verdicts[len(cases) + k]
        if any(x.startswith("C15_") for x in v["bad"]) and not any(x.startswith("C15_") for x in out_v[i]["bad"]):
            out_r[i], out_v[i] = xr[k], v
    return out_r, out_v


MODE_KEYS = ("maxmsg", "npend", "role", "backlog", "spawn")


def mode_of(c):
    return ("+backlog" if c.get("backlog") else "") + ("+concurrent" if c.get("spawn") == "concurrent" else "")


def first_csm(frames, upto):
    for f in frames[:upto]:
        if f["k"].split("/")[0] in ("csm", "csm+elective", "csm+pay"):
            return f
    return None


def describe(clause, n, rc, ro, rv):
    stream = b"".join(bytes(f["b"]) for f in rc["frames"])
    k = rv["first"]
    step = ro["steps"][k - 1] if k and k <= len(ro["steps"]) else {}
    return (
        "%s false on a real execution (%d executions of this shape).\n"
        "reproduction: role=%s%s, local maximum message size %d, %d pending requests; peer sends %s = %s%s in chunks %s\n"
        "after chunk %d the statement demands: dispatched %d messages (codes %s), written %s, state %s;\n"
        "the connection dispatched %s, wrote %s, closed=%s, pending=%s%s"
        % (
            clause,
            n,
            rc["role"],
            (", peer not reading (write backlog)" if rc.get("backlog") else "")
            + (", requests started concurrently (one connection each; this one %s the pool)" % ("is in" if ro.get("in_pool") else "is NOT in") if rc.get("spawn") else ""),
            rc["maxmsg"],
            rc["npend"],
            [f["k"] for f in rc["frames"]] if len(rc["frames"]) <= 12 else compress([f["k"] for f in rc["frames"]]) + " (%d frames)" % len(rc["frames"]),
            hexs(stream[:48]),
            "..." if len(stream) > 48 else "",
            rc["cuts"][:16],
            k,
            rv["exp"]["ndisp"],
            rv["exp"]["codes"] if len(rv["exp"]["codes"]) <= 12 else "%s..." % rv["exp"]["codes"][:12],
            rv["exp"]["wr"],
            rv["exp"]["done"],
            (lambda dd: dd if len(dd) <= 10 else "%d messages, the last one %s" % (len(dd), dd[-1]))([(d["how"], d["code"], hexs(d["tok"]), len(d["pay"])) for s in ro["steps"][:k] for d in s["disp"]]),
            hexs([x for s in ro["steps"][:k] for x in s["wr"]][:40]),
            step.get("closed"),
            step.get("pend"),
            ("; data_received raised " + step["exc"]) if step.get("exc") else "",
        )
    )


def replay_data(rc, ro, rv):
    small = sum(len(f["b"]) for f in rc["frames"]) <= 4096
    return {
        "case": {
            "frames": rc["frames"] if small else [{"k": f["k"], "len": len(f["b"]), "head": f["b"][:16]} for f in rc["frames"]],
            "cuts": rc["cuts"],
            "maxmsg": rc["maxmsg"],
            "npend": rc["npend"],
            "role": rc["role"],
            "backlog": bool(rc.get("backlog")),
            "spawn": rc.get("spawn"),
        },
        "replayable": small,
        "observed": ro["steps"] if small else None,
        "expected": rv["exp"],
        "clauses": sorted(rv["bad"]),
    }


def report_failures(rep, wd, all_cases, results, verdicts, failing):
    """Names every failing execution by clause + the smallest archetype
    sequence that shows the same clause false: (CSM,) one frame, fed in one
    piece each, where that suffices; else the frame-by-frame prefix; else the
    frames touched by the chunk after which the clause was first false."""
    if not failing:
        return

    def clauses_of(v):
        return sorted(x for x in v["bad"] if x.startswith("C15_"))

    # 1. atomic candidates: (CSM +) one frame, one representative per (csm?, kind)
    atoms = {}
    for i in failing:
        c = all_cases[i]
        for j, f in enumerate(c["frames"]):
            if not f["b"]:
                continue
            csm = first_csm(c["frames"], j)
            key = (csm is not None, norm_kind(f["k"]), c["npend"] > 0, mode_of(c))
            if key in atoms or len(atoms) >= 150:
                continue
            fr = ([csm] if csm else []) + [f]
            atoms[key] = dict({k: c.get(k) for k in MODE_KEYS}, frames=fr, cuts=[len(x["b"]) for x in fr])
    akeys = list(atoms)
    ares, aver = judge_cases(wd, "atoms", [atoms[k] for k in akeys])
    abad = {k: (atoms[k], o, v) for k, o, v in zip(akeys, ares, aver) if clauses_of(v)}

    # 2. explain each failing execution
    sigs = {}  # signature -> [clause, count, (case, obs, verdict)]
    unexplained = {}

    def touched_by(c, v):
        pos = sum(c["cuts"][: v["first"]])
        lo = pos - c["cuts"][v["first"] - 1] if v["first"] else 0
        s0 = 0
        out = []
        for f in c["frames"]:
            e0 = s0 + len(f["b"])
            if e0 > lo and s0 < pos:
                out.append(f["k"])
            s0 = e0
        return out

    for i in failing:
        c, v = all_cases[i], verdicts[i]
        keys = [(first_csm(c["frames"], j) is not None, norm_kind(f["k"]), c["npend"] > 0, mode_of(c)) for j, f in enumerate(c["frames"])]
        todo = clauses_of(v)
        if "NOTE_exception" in v["bad"]:
            # data_received raised: whatever clauses this execution breaks from there on
            # are named after the frame that raises on its own
            hit = next((k for k in keys if k in abad and "NOTE_exception" in abad[k][2]["bad"]), None)
            if hit:
                for clause in clauses_of(abad[hit][2]):
                    e = sigs.setdefault("%s|%s%s" % (clause, shape_of(abad[hit][0], 9), mode_of(c)), [clause, 0, abad[hit]])
                    e[1] += 1
                todo = [x for x in todo if x not in ("C15_DispatchIndependentOfChunking", "C15_FatalAborts")]
        for clause in todo:
            hit = next((k for k in keys if k in abad and clause in abad[k][2]["bad"]), None)
            if hit:
                e = sigs.setdefault("%s|%s%s" % (clause, shape_of(abad[hit][0], 9), mode_of(c)), [clause, 0, abad[hit]])
                e[1] += 1
            else:
                unexplained.setdefault((clause, tuple(touched_by(c, v)), mode_of(c)), []).append(i)

    # 3. the rest: same frames, one chunk per frame
    ukeys = sorted(unexplained, key=lambda k: (len(k[1]), k))
    loc = ukeys[:40]
    cand = []
    for key in loc:
        i = min(unexplained[key], key=lambda j: (len(all_cases[j]["frames"]), len(all_cases[j]["cuts"])))
        c = all_cases[i]
        fr = [f for f in c["frames"] if f["b"]]
        cand.append(dict({k: c.get(k) for k in MODE_KEYS}, frames=fr, cuts=[len(f["b"]) for f in fr], _i=i))
    cres, cver = judge_cases(wd, "loc", cand) if cand else ([], [])
    for key, c2, o2, v2 in zip(loc, cand, cres, cver):
        clause, touched, mode = key
        i = c2["_i"]
        if clause in v2["bad"] and v2["first"]:
            sig = "%s|%s%s" % (clause, shape_of(c2, v2["first"]), mode)
            rep_case = (c2, o2, v2)
        else:
            sig = "%s|chunking:%s%s" % (clause, compress(touched), mode)
            rep_case = (all_cases[i], results[i], verdicts[i])
        e = sigs.setdefault(sig, [clause, 0, rep_case])
        e[1] += len(unexplained[key])
    for key in ukeys[40:]:
        clause, touched, mode = key
        i = unexplained[key][0]
        e = sigs.setdefault("%s|chunking:%s%s" % (clause, compress(touched), mode), [clause, 0, (all_cases[i], results[i], verdicts[i])])
        e[1] += len(unexplained[key])

    for sig in sorted(sigs):
        clause, n, (rc, ro, rv) = sigs[sig]
        rep.violation(clause, sig, describe(clause, n, rc, ro, rv), replay_data(rc, ro, rv))


def _keep_evidence():
    """A replay is not a check run: put the evidence file of the last real run
    back after runner.finish has written its own."""
    import atexit

    path = os.path.join(runner.EVIDENCE_DIR, "C15.json")
    try:
        old = open(path).read()
    except OSError:
        return
    atexit.register(lambda: open(path, "w").write(old))


def replay(rep, args):
    _keep_evidence()
    with open(args.replay) as f:
        data = json.load(f)
    r = data.get("replay", {})
    if "message" in r:
        m = r["message"]
        pay = bytes((7 * i + 1) & 0xFF for i in range(m["paylen"]))
        with tlc.Workdir() as wd:
            heads, _ = tlc_eval(wd, "replay", [E(m["code"], m["tok"], m["opts"], len(pay))], [])
        want = bytes(heads[0]) + pay
        got = _ser_one({"code": m["code"], "tok": m["tok"], "opts": m["opts"], "pay": pay})
        if "error" in got:
            bad = "raised: " + got["error"].strip().splitlines()[-1]
        else:
            bad = next(("%s produced %s..., RFC 8323 3.2 frame is %s..." % (h, hexs(got[h][:12]), hexs(want[:12])) for h in ("direct", "written") if got[h] != want), None)
        print("replay: message code %d, token %d bytes, %d options, payload %d bytes -> %s" % (m["code"], len(m["tok"]), len(m["opts"]), m["paylen"], bad or "serialised as RFC 8323 prescribes"))
        if bad:
            rep.violation("C15_FrameIs8323", data.get("signature", "C15_FrameIs8323|replay"), bad, {"message": m})
        rep.coverage.update({"states": 0, "transitions": 0, "traces_validated_against_impl": 1, "samples": [hexs(want[:16])]})
        return
    if not r.get("replayable"):
        raise MachineryError("replay file carries no replayable case")
    case = r["case"]
    with tlc.Workdir() as wd:
        results, verdicts = judge_cases(wd, "replay", [case])
        v = verdicts[0]
        bad = sorted(x for x in v["bad"] if x.startswith("C15_"))
        print("replay: frames %s cuts %s -> %s" % ([f["k"] for f in case["frames"]], case["cuts"], bad or "all clauses hold"))
        for clause in bad:
            rep.violation(clause, "%s|%s" % (clause, shape_of(case, 9)), "replayed case violates %s; expected %s; observed %s" % (clause, v["exp"], results[0]["steps"]), {"case": case, "replayable": True})
        rep.coverage.update({"states": 0, "transitions": 0, "traces_validated_against_impl": 1, "samples": [results[0]["steps"]]})


if __name__ == "__main__":
    sys.exit(runner.main("C15", work))
