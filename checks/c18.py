"""C18 -- shutdown at any moment fails pending work and leaves nothing running.

1. TLC checks spec/Endpoint.tla (pending client requests, running handlers with
   their empty-ACK timers, a second context, Shutdown enabled in every state)
   exhaustively with the clauses of ShutdownObs as invariants.
2. spec -> code: simulated behaviours are replayed on the real stack (two real
   contexts in one loop) and compared.
3. crash-point enumeration on the real code: each busy base scenario (request
   awaiting ACK / awaiting a separate response, queued backlog, running handler
   with pending empty-ACK timer, separate CON response in retransmission,
   unexpired deduplication entries, block-wise transfer and observations when
   available, second context busy) is re-run once per distinct instant with
   shutdown() called there; every recorded trace is validated by TLC against
   ShutdownTrace.tla (clauses evaluated at every step of the real execution),
   the loop being run on for 2 x EXCHANGE_LIFETIME of virtual time afterwards."""

import copy
import json
import os
import random
import sys

from harness import tlc, tracecheck, MachineryError, runner
from harness.drive import run_all

CFG = """SPECIFICATION Spec
CONSTANTS
  ShutdownTimeout = 3
  NReqs = 3
  NInv = 2
  EmptyAckDelay = 1
  MaxTime = 3
  MaxEnv = %(maxenv)d
  CancelPiggyOnShutdown = TRUE
%(extra)s
"""

HORIZON = 600 * 1024


def behaviour_to_schedule(beh):
    steps = []
    expected = []
    used_other = False
    other_invs, released = set(), set()
    for label, st in beh[1:]:
        emit = st.get("emit", [])
        if not emit:
            continue
        e0 = emit[0]
        t = e0["t"] * 1024
        if e0["k"] == "submit":
            con = any(e["k"] == "tx" for e in emit)  # refined below
            other = e0["x"] == "other"
            used_other = used_other or other
            phase = st["cq"][e0["q"] - 1]["phase"] if isinstance(st["cq"], list) else st["cq"][e0["q"]]["phase"]
            steps.append({"at": t, "do": "submit", "q": e0["q"], "r": 1, "con": phase == "ack", "ctx": "other" if other else "", "f": 1.0})
        elif e0["k"] == "rx" and e0["cls"] == "empty":
            steps.append({"at": t, "do": "rx", "r": 1, "ty": "ACK", "code": 0, "mid": {"of": e0["q"]}, "ctxof": e0["q"]})
        elif e0["k"] == "rx" and e0["cls"] == "resp":
            steps.append({"at": t, "do": "rx", "r": 1, "ty": "NON", "code": 69, "mid": 9000 + len(steps), "tok": {"of": e0["q"]}, "ctxof": e0["q"]})
        elif e0["k"] == "rx" and e0["cls"] == "req":
            hrec = st["hs"][e0["inv"] - 1] if isinstance(st["hs"], list) else st["hs"][e0["inv"]]
            con = hrec["due"] >= 0
            if hrec.get("other"):
                # a request read by the second context
                other_invs.add(e0["inv"])
                used_other = True
                steps.append({"at": t, "do": "rx", "r": 2, "ty": "CON" if con else "NON", "code": 1, "mid": 600 + e0["inv"],
                              "tok": "0b%02x" % e0["inv"], "path": ["h", "1"], "ctx": "other"})
            else:
                steps.append({"at": t, "do": "rx", "r": 2, "ty": "CON" if con else "NON", "code": 1, "mid": 500 + e0["inv"], "tok": "b%d" % e0["inv"], "path": ["h", "1"]})
        elif e0["k"] == "release":
            released.add(e0["inv"])
            steps.append({"at": t, "do": "release", "inv": e0["inv"], "outcome": "ok"})
        elif e0["k"] == "shutdown":
            steps.append({"at": t, "do": "shutdown"})
        for e in emit:
            if e["k"] in ("submit", "done", "call", "release", "cancelled", "shutdown", "shutdown-done", "loopexc"):
                expected.append((e["k"], e["t"] * 1024, e["q"], e["inv"], e["cls"] if e["k"] == "done" else ""))
    others = {s["q"] for s in steps if s["do"] == "submit" and s.get("ctx") == "other"}
    # the behaviour may have been cut before the second context's peer answered: it always does
    answered = {s["tok"]["of"] for s in steps if s["do"] == "rx" and isinstance(s.get("tok"), dict)}
    tmax = max([s["at"] for s in steps] + [0])
    for q in sorted(others - answered):
        steps.append({"at": tmax + 8, "do": "rx", "r": 1, "ty": "NON", "code": 69, "mid": 9900 + q, "tok": {"of": q}, "ctxof": q})
    # ... and its handlers always finish
    for inv in sorted(other_invs - released):
        steps.append({"at": tmax + 8, "do": "release", "inv": inv, "outcome": "ok"})
    for s in steps:
        if "ctxof" in s:
            if s.pop("ctxof") in others:
                s["ctx"] = "other"
    return {
        "tuning": {"EMPTY_ACK_DELAY": 1.0, "ACK_TIMEOUT": 64.0},
        "mid0": 100,
        "tok0": 10,
        "nremotes": 2,
        "handlers": {"1": {"delay": None}},
        "other_context": True,
        "other_handlers": {"1": {"delay": None}},
        # the peers acknowledge separate confirmable responses at once (NSTART would hold the next one back)
        "triggers": [{"on": {"tx": {"ty": "CON", "cls": "resp", "nth": nth}}, "delay": 1, "rx": {"ty": "ACK", "code": 0, "mid": "same"}}
                     for nth in range(1, 9)],
        "steps": steps,
        "horizon": 8 * 1024,
    }, expected


def project(e):
    return (e["k"], e["t"], e["q"], e["inv"], e["cls"] if e["k"] == "done" else "")


def compare(expected, real):
    got = [project(e) for e in real if e["k"] in ("submit", "done", "call", "release", "cancelled", "shutdown", "shutdown-done", "loopexc")]
    # compare per instant as multisets (task scheduling order inside one instant is not the model's business)
    ts = sorted({x[1] for x in expected})
    for t in ts:
        a = sorted(x for x in expected if x[1] == t)
        b = sorted(x for x in got if x[1] == t)
        if a != b:
            return "at t=%d model predicts %s, implementation produced %s" % (t, a, b)
    return None


# -- busy base scenarios -------------------------------------------------------------
def base_scenarios():
    T = {"EMPTY_ACK_DELAY": 0.125}
    S = []

    def mk(name, steps, triggers=(), handlers=None, other=False, autoreply=()):
        S.append(
            {
                "name": name,
                "tuning": dict(T),
                "mid0": 4000,
                "tok0": 20,
                "nremotes": 3,
                "handlers": handlers or {},
                "other_context": other,
                "steps": steps,
                "triggers": list(triggers),
                "autoreply": [dict(a) for a in autoreply],
                "horizon": HORIZON,
            }
        )

    mk("awaiting-ack", [{"at": 0, "do": "submit", "q": 1, "r": 1, "con": True, "f": 0.5}])
    mk(
        "awaiting-separate-response",
        [{"at": 0, "do": "submit", "q": 1, "r": 1, "con": True, "f": 0.5}],
        [{"on": {"q": 1, "copy": 1}, "delay": 30, "rx": {"r": 1, "ty": "ACK", "code": 0, "mid": {"of": 1}}}],
    )
    mk(
        "queued-backlog",
        [
            {"at": 0, "do": "submit", "q": 1, "r": 1, "con": True, "f": 0.0},
            {"at": 5, "do": "submit", "q": 2, "r": 1, "con": True, "f": 0.0},
            {"at": 9, "do": "submit", "q": 3, "r": 1, "con": True, "f": 0.0},
            {"at": 9, "do": "submit", "q": 4, "r": 2, "con": False},
        ],
    )
    mk(
        "handler-with-pending-empty-ack",
        [{"at": 10, "do": "rx", "r": 1, "ty": "CON", "code": 1, "mid": 77, "tok": "c1", "path": ["h", "1"]}],
        handlers={"1": {"delay": 5000, "outcome": "ok"}},
    )
    mk(
        "handler-after-empty-ack-and-non",
        [
            {"at": 10, "do": "rx", "r": 1, "ty": "CON", "code": 1, "mid": 77, "tok": "c1", "path": ["h", "1"]},
            {"at": 60, "do": "rx", "r": 2, "ty": "NON", "code": 1, "mid": 78, "tok": "c2", "path": ["h", "2"]},
        ],
        handlers={"1": {"delay": 700, "outcome": "ok"}, "2": {"delay": 900, "outcome": "ok"}},
    )
    mk(
        "separate-con-response-retransmitting",
        [{"at": 10, "do": "rx", "r": 1, "ty": "CON", "code": 1, "mid": 77, "tok": "c1", "path": ["h", "1"]}],
        handlers={"1": {"delay": 300, "outcome": "ok"}},
    )
    mk(
        "unexpired-dedup-entries",
        [
            {"at": 10, "do": "rx", "r": 1, "ty": "CON", "code": 1, "mid": 77, "tok": "c1", "path": ["h", "1"]},
            {"at": 20, "do": "rx", "r": 2, "ty": "NON", "code": 1, "mid": 77, "tok": "c2", "path": ["h", "1"]},
            {"at": 40, "do": "rx", "r": 1, "ty": "CON", "code": 1, "mid": 77, "tok": "c1", "path": ["h", "1"]},
        ],
        handlers={"1": {"delay": 0, "outcome": "ok"}},
    )
    mk(
        "mixed-with-second-context",
        [
            {"at": 0, "do": "submit", "q": 1, "r": 1, "con": True, "f": 0.5},
            {"at": 3, "do": "submit", "q": 2, "r": 1, "con": True, "ctx": "other", "f": 0.5},
            {"at": 10, "do": "rx", "r": 2, "ty": "CON", "code": 1, "mid": 77, "tok": "c1", "path": ["h", "1"]},
        ],
        [
            {"on": {"q": 2, "copy": 2}, "delay": 40, "rx": {"r": 1, "ty": "ACK", "code": 69, "mid": {"of": 2}, "tok": {"of": 2}}},
        ],
        handlers={"1": {"delay": 2600, "outcome": "ok"}},
        other=True,
    )
    S.append(
        {
            # the second context is a busy server: a confirmable request whose empty ACK is still pending, one
            # that has been acknowledged and is still being rendered, a non-confirmable one
            "name": "second-context-serving",
            "tuning": dict(T), "mid0": 4000, "tok0": 20, "nremotes": 3,
            "handlers": {"1": {"delay": 2600, "outcome": "ok"}},
            "other_context": True,
            "other_handlers": {"1": {"delay": 1500, "outcome": "ok"}, "2": {"delay": 60, "outcome": "ok"}},
            "steps": [
                {"at": 0, "do": "submit", "q": 1, "r": 1, "con": True, "f": 0.5},
                {"at": 5, "do": "rx", "r": 2, "ty": "CON", "code": 1, "mid": 77, "tok": "c1", "path": ["h", "1"]},
                {"at": 10, "do": "rx", "r": 2, "ty": "CON", "code": 1, "mid": 88, "tok": "d1", "path": ["h", "1"], "ctx": "other"},
                {"at": 300, "do": "rx", "r": 3, "ty": "CON", "code": 1, "mid": 89, "tok": "d2", "path": ["h", "2"], "ctx": "other"},
                {"at": 320, "do": "rx", "r": 1, "ty": "NON", "code": 1, "mid": 90, "tok": "d3", "path": ["h", "1"], "ctx": "other"},
            ],
            "triggers": [], "autoreply": [], "horizon": HORIZON,
        }
    )
    mk(
        # a second request on the same (endpoint, token) while the first is still being rendered replaces it
        # (RFC 7641 re-registration, clients using the empty token); then a third
        "same-token-override",
        [
            {"at": 10, "do": "rx", "r": 1, "ty": "CON", "code": 1, "mid": 77, "tok": "c1", "path": ["h", "1"]},
            {"at": 400, "do": "rx", "r": 1, "ty": "CON", "code": 1, "mid": 78, "tok": "c1", "path": ["h", "1"]},
            {"at": 800, "do": "rx", "r": 1, "ty": "NON", "code": 1, "mid": 79, "tok": "c1", "path": ["h", "2"]},
        ],
        handlers={"1": {"delay": 3000, "outcome": "ok"}, "2": {"delay": 3000, "outcome": "ok"}},
    )
    mk(
        "mid-blockwise-upload",
        [{"at": 0, "do": "submit", "q": 1, "r": 1, "con": True, "code": 3, "payload_len": 3000, "blockwise": True, "f": 0.5}],
        autoreply=[{"match": {"b1more": 1}, "code": 95, "echo_b1": True, "delay": 300, "max": 2}],
    )
    mk(
        "active-client-observation",
        [{"at": 0, "do": "submit", "q": 1, "r": 1, "con": True, "observe": 0, "f": 0.5},
         {"at": 900, "do": "rx", "r": 1, "ty": "CON", "code": 69, "mid": 7001, "tok": {"of": 1}, "observe": 5, "payload": "01"},
         {"at": 1800, "do": "rx", "r": 1, "ty": "NON", "code": 69, "mid": 7002, "tok": {"of": 1}, "observe": 6, "payload": "02"}],
        autoreply=[{"match": {"observe": 0}, "code": 69, "observe": 4, "delay": 20, "max": 1}],
    )
    for name, bw, it in (("active-client-observation-iterated", False, True), ("active-client-observation-blockwise", True, False),
                         ("active-client-observation-blockwise-iterated", True, True)):
        mk(
            name,
            [{"at": 0, "do": "submit", "q": 1, "r": 1, "con": True, "observe": 0, "f": 0.5, "blockwise": bw, "iterate": it},
             {"at": 900, "do": "rx", "r": 1, "ty": "CON", "code": 69, "mid": 7001, "tok": {"of": 1}, "observe": 5, "payload": "01"},
             {"at": 1800, "do": "rx", "r": 1, "ty": "NON", "code": 69, "mid": 7002, "tok": {"of": 1}, "observe": 6, "payload": "02"}],
            autoreply=[{"match": {"observe": 0}, "code": 69, "observe": 4, "delay": 20, "max": 1}],
        )
    # a request interface whose own shutdown stalls: shutdown() returns within SHUTDOWN_TIMEOUT all the same
    for name, stall in (("stalling-interface-never", "never"), ("stalling-interface-slow", 1500), ("stalling-interface-too-slow", 5000)):
        mk(name, [{"at": 0, "do": "submit", "q": 1, "r": 1, "con": True, "f": 0.5},
                  {"at": 10, "do": "rx", "r": 2, "ty": "CON", "code": 1, "mid": 77, "tok": "c1", "path": ["h", "1"]}],
           handlers={"1": {"delay": 700, "outcome": "ok"}})
        S[-1]["stall_interface"] = stall
    # requests whose destination is still being resolved (Context.find_remote_and_interface awaits the transport's
    # name lookup): they have left the application but have not reached the token manager when shutdown() runs,
    # and arrive there after it returned
    mk("resolving-remote", [{"at": 0, "do": "submit", "q": 1, "r": 1, "con": True, "f": 0.5, "resolve": 600},
                            {"at": 200, "do": "submit", "q": 2, "r": 2, "con": False, "resolve": 600}])
    mk("resolving-remote-blockwise",
       [{"at": 0, "do": "submit", "q": 1, "r": 1, "con": True, "code": 3, "payload_len": 3000, "blockwise": True, "f": 0.5,
         "resolve": 900},
        {"at": 100, "do": "submit", "q": 2, "r": 1, "con": True, "observe": 0, "f": 0.5, "resolve": 900}],
       autoreply=[{"match": {"b1more": 1}, "code": 95, "echo_b1": True, "delay": 300, "max": 2}])
    mk(
        "icmp-error-then-more",
        [
            {"at": 0, "do": "submit", "q": 1, "r": 1, "con": True, "f": 0.5},
            {"at": 100, "do": "err", "r": 1},
            {"at": 120, "do": "submit", "q": 2, "r": 1, "con": True, "f": 0.5},
        ],
    )
    return S


def shutdown_points(base, events, rng, limit):
    """Schedules derived from `base` with shutdown() called at every distinct instant."""
    times = sorted({e["t"] for e in events if e["t"] >= 0 and e["k"] != "end"})
    cand = set()
    for t in times:
        cand.update([t, t + 1])
    for a, b in zip(times, times[1:]):
        if b - a > 2:
            cand.add((a + b) // 2)
    cand.add(0)
    cand = sorted(c for c in cand if c <= (times[-1] if times else 0) + 2)
    if limit and len(cand) > limit:
        keep = set(rng.sample(cand, limit))
        cand = [c for c in cand if c in keep]
    out = []
    for ts in cand:
        s = copy.deepcopy(base)
        steps = [x for x in s["steps"] if x["at"] <= ts]
        late = [x for x in s["steps"] if x["at"] > ts and x["do"] == "submit" and x.get("ctx") != "other"]
        keep_other = [x for x in s["steps"] if x["at"] > ts and x.get("ctx") == "other"]
        steps.append({"at": ts, "do": "shutdown"})
        # a request submitted after shutdown (same instant or later)
        if late:
            l0 = dict(late[0])
            l0["at"] = ts + rng.choice([0, 1, 700])
            steps.append(l0)
        else:
            steps.append({"at": ts + rng.choice([0, 2, 4000]), "do": "submit", "q": 90, "r": 1, "con": rng.choice([True, False])})
        steps += keep_other
        steps.sort(key=lambda x: x["at"])
        s["steps"] = steps
        s["shutdown_at"] = ts
        out.append(s)
    return out


def sig_of(clause, s):
    return "%s|%s" % (clause, s.get("name", "model-behaviour"))


def work(rep, args):
    quick = args.tier == "quick"
    rng = random.Random(args.seed * 65537 + 18)
    nsim = 200 if quick else 2000
    with tlc.Workdir() as wd:
        wd.write("Endpoint_run.cfg", CFG % dict(maxenv=4 if quick else 5, extra="VIEW View\nINVARIANT NoBad"))
        mc = tlc.run(wd, "Endpoint.tla", "Endpoint_run.cfg", timeout=1200)
        tlc.need_ok_run(mc, "Endpoint model check")
        if mc.violated:
            raise MachineryError("Endpoint model (fixed design) violates %s" % mc.violated)
        wd.write("Endpoint_sim.cfg", CFG % dict(maxenv=6, extra=""))
        simdir = wd.file("sim")
        os.makedirs(simdir)
        sim = tlc.run(wd, "Endpoint.tla", "Endpoint_sim.cfg", workers=1, timeout=600,
                      simulate="file=%s/tr,num=%d" % (simdir, nsim), depth=16, seed=args.seed + 1)
        tlc.need_ok_run(sim, "Endpoint simulation")
        behaviours = tlc.read_sim_traces(os.path.join(simdir, "tr"))
        model = [behaviour_to_schedule(b) for b in behaviours]
        model = [(s, e) for s, e in model if s["steps"]]
        # crash-point enumeration
        bases = base_scenarios()
        base_res = run_all(bases)
        points = []
        for b, r in zip(bases, base_res):
            if "error" in r:
                raise MachineryError("driver failed on base scenario %s\n%s" % (b["name"], r["error"]))
            points += shutdown_points(b, r["events"], rng, 12 if quick else 0)
        scheds = [s for s, _ in model] + bases + points
        results = run_all(scheds)
        for s, res in zip(scheds, results):
            if "error" in res:
                raise MachineryError("driver failed on schedule %s\n%s" % (json.dumps(s)[:400], res["error"]))
        ndrift = 0
        for (s, exp), res in zip(model, results):
            d = compare(exp, res["events"])
            if d:
                ndrift += 1
                rep.add_drift("model behaviour not reproduced by implementation: " + d)
        traces = [r["events"] for r in results]
        verdicts, r = tracecheck.validate(wd, "ShutdownTrace", "ShutdownTrace.cfg.tmpl", {"ShutdownTimeout": 3 * 1024}, traces)
        per_scn = {}
        for i, v in enumerate(verdicts):
            name = scheds[i].get("name", "model-behaviour")
            per_scn[name] = per_scn.get(name, 0) + 1
            for clause in sorted(v["bad"]):
                rep.violation(
                    clause,
                    sig_of(clause, scheds[i]),
                    "clause %s false at event %d of a recorded execution (%d events), scenario %s, shutdown at %s; loop exceptions %s"
                    % (clause, v["at"][clause], len(traces[i]), name, scheds[i].get("shutdown_at"), results[i]["meta"]["loop_exceptions"][:1]),
                    {"schedule": scheds[i], "events": traces[i], "meta": results[i]["meta"]},
                )
        rep.coverage.update(
            {
                "states": mc.distinct,
                "transitions": mc.generated,
                "depth": mc.depth,
                "traces_validated_against_impl": len(traces),
                "schedules_from_model_behaviours": len(model),
                "model_behaviours_reproduced_exactly": len(model) - ndrift,
                "base_scenarios": [b["name"] for b in bases],
                "shutdown_points_enumerated": len(points),
                "runs_per_scenario": per_scn,
                "samples": [{"schedule": scheds[-1], "events": traces[-1][:16]}],
                "exhaustive": not quick,
                "checker_cmd": "tlc Endpoint.tla (exhaustive + -simulate); tlc ShutdownTrace.tla on recorded traces",
            }
        )
        rep.level = "model_checking"
        rep.assumptions += [
            "virtual-time event loop and fake UDP sockets stand in for the OS; datagrams are never delivered to a closed socket",
            "after shutdown the loop is run on for 600 s of virtual time (> 2 x EXCHANGE_LIFETIME) to let every leftover timer fire",
            "quick tier samples 12 shutdown instants per base scenario; thorough enumerates all distinct instants",
        ]


if __name__ == "__main__":
    sys.exit(runner.main("C18", work))
