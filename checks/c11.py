"""C11 -- OSCORE: round trip, inner data hidden, responses bound, tampering detected.

1. TLC checks spec/Oscore.tla exhaustively: a symbolic model of protect /
   unprotect (ideal AEAD: decryption succeeds iff key, nonce and AAD are
   reconstructed identically) with an attacker who delivers any protected
   message -- unchanged, with one field of the OSCORE option edited, with a
   corrupted, truncated or swapped ciphertext, against any outstanding
   request, or to a context with other keys.
2. spec -> code: TLC-simulated attacker behaviours are replayed on real
   security contexts with real bytes (the edits are applied to the real OSCORE
   option / ciphertext by an independent option codec in this file).
3. Systematic real mutations: for sample messages over all request/response
   codes, an option pool covering every inner/outer class, payload lengths
   0/1/64, sender/recipient ID lengths admissible for the algorithm, ID
   contexts, and sequence numbers 0, 255, 256, 2^32-1, 2^40-2: every single-bit
   flip of the OSCORE option value and of the payload, the field-level edits,
   foreign contexts, and responses paired with a foreign request.
4. code -> spec: all results are recorded as traces and judged by TLC
   (spec/OscoreTrace.tla): the clauses are evaluated on what the real code
   returned or raised; the symbolic Unprotect is compared with it (DRIFT).
   Python only drives and records."""

import copy
import json
import os
import random
import sys
from multiprocessing import Pool

from harness import tlc, MachineryError, runner, oscore_env

MC_CFG = """SPECIFICATION Spec
CONSTANTS
  IdCtxs = {"none", "g1"}
  KidOptional = %(ko)s
  MaxReq = %(nreq)d
  MaxResp = %(nresp)d
VIEW View
INVARIANT C11_RoundTrip
INVARIANT C11_OuterRevealsNothing
INVARIANT C11_ResponseBound
INVARIANT C11_TamperRejected
"""

SIM_CFG = """SPECIFICATION Spec
CONSTANTS
  IdCtxs = {"none", "g1"}
  KidOptional = FALSE
  MaxReq = 3
  MaxResp = 3
INVARIANT NoBad
"""

SESSION_MC_CFG = """SPECIFICATION Spec
CONSTANTS
  Ws = {2}
  StrikeResponses = %(strike)s
  MaxReq = %(nreq)d
  MaxResp = %(nresp)d
  MaxBurn = %(nburn)d
  MaxDeliver = %(ndel)d
VIEW View
INVARIANT C11_RoundTrip
INVARIANT C11_ResponseBound
INVARIANT C11_ErrorFamily
"""

SESSION_SIM_CFG = """SPECIFICATION Spec
CONSTANTS
  Ws = {2, 3}
  StrikeResponses = FALSE
  MaxReq = 3
  MaxResp = 5
  MaxBurn = 3
  MaxDeliver = 12
INVARIANT NoBad
"""

SESSION_TRACE_CFG = """SPECIFICATION TSpec
CONSTANTS
  Ws = {2}
  StrikeResponses = FALSE
  MaxReq = 1
  MaxResp = 1
  MaxBurn = 1
  MaxDeliver = 1
INVARIANT Report
CHECK_DEADLOCK FALSE
"""

TRACE_CFG = """SPECIFICATION TSpec
CONSTANTS
  IdCtxs = {"none"}
  KidOptional = FALSE
  MaxReq = 1
  MaxResp = 1
INVARIANT Report
CHECK_DEADLOCK FALSE
"""

SECRET = bytes.fromhex("0102030405060708090a0b0c0d0e0f10")
SALT = bytes.fromhex("9e7ca92223786340")
FOREIGN_SECRET = bytes.fromhex("ffeeddccbbaa99887766554433221100")
OTHER_IDCTX = b"other-id-context"
U_OPTIONS = (3, 7, 35, 39)  # Uri-Host, Uri-Port, Proxy-Uri, Proxy-Scheme: class U only
MAXSEQ = 2**40 - 1

_G = {}


def _env():
    if "oscore" not in _G:
        oscore = oscore_env.setup()
        import aiocoap

        _G["oscore"] = oscore
        _G["aiocoap"] = aiocoap
        _G["cls"] = oscore_env.make_context_class(oscore)
    return _G["oscore"], _G["aiocoap"]


# -- independent codec of the OSCORE option value (RFC 8613 section 6.1) ---------------------
def parse_option(b):
    """Fields of an OSCORE option value; malformed=True where RFC 8613 calls the
    message malformed (lengths announced but absent, bytes left over, n in 6..7
    is reported through len(piv) and judged by the model)."""
    f = {"n": 0, "k": False, "h": False, "group": False, "reserved": False, "piv": None, "kid": None, "kidctx": None, "malformed": False}
    if b == b"":
        return f
    first, tail = b[0], b[1:]
    f["n"], f["k"], f["h"] = first & 7, bool(first & 8), bool(first & 0x10)
    f["group"], f["reserved"] = bool(first & 0x20), bool(first & 0xC0)
    if first == 0:
        f["malformed"] = True  # all flag bits zero: the value must be empty
        return f
    if f["n"]:
        if len(tail) < f["n"]:
            f["malformed"] = True
            return f
        f["piv"], tail = tail[: f["n"]], tail[f["n"] :]
    if f["h"]:
        if not tail or len(tail) - 1 < tail[0]:
            f["malformed"] = True
            return f
        s = tail[0]
        f["kidctx"], tail = tail[1 : 1 + s], tail[1 + s :]
    if f["k"]:
        f["kid"] = tail
    elif tail:
        f["malformed"] = True  # bytes left over that belong to no field
    return f


def build_option(piv=None, kid=None, kidctx=None, group=False, reserved=0):
    first = (len(piv) if piv else 0) | (8 if kid is not None else 0) | (0x10 if kidctx is not None else 0) | (0x20 if group else 0) | reserved
    if first == 0:
        return b""
    out = bytes([first]) + (piv or b"")
    if kidctx is not None:
        out += bytes([len(kidctx)]) + kidctx
    if kid is not None:
        out += kid
    return out


# -- contexts ---------------------------------------------------------------------------------
def make_contexts(s):
    oscore, _ = _env()
    cls = _G["cls"]
    cid, sid = bytes.fromhex(s["cid"]), bytes.fromhex(s["sid"])
    idctx = None if s["idctx"] is None else bytes.fromhex(s["idctx"])
    alg = s.get("alg")

    def ctx(sender, recipient, secret=SECRET, idc=idctx):
        return oscore_env.new_context(oscore, sender, recipient, secret=secret, salt=SALT, id_context=idc, algorithm=alg, cls=cls)

    client, server = ctx(cid, sid), ctx(sid, cid)
    rc = {
        "req": {"peer": server, "foreign": ctx(sid, cid, secret=FOREIGN_SECRET), "otherctx": ctx(sid, cid, idc=OTHER_IDCTX)},
        "resp": {"peer": client, "foreign": ctx(cid, sid, secret=FOREIGN_SECRET), "otherctx": ctx(cid, sid, idc=OTHER_IDCTX)},
    }
    return client, server, rc


def fresh(ctx):
    """A recipient with an empty replay window (replay protection is C12's subject)."""
    oscore = _G["oscore"]
    c = copy.copy(ctx)
    c.recipient_replay_window = oscore.ReplayWindow(32, lambda: None)
    c.recipient_replay_window.initialize_empty()
    return c


def clone_rid(rid):
    oscore = _G["oscore"]
    if rid is None:
        return None
    r = oscore.RequestIdentifiers(rid.kid, rid.partial_iv, rid.can_reuse_nonce, rid.code_style.request)
    r.request_hash = rid.request_hash
    return r


# -- messages ---------------------------------------------------------------------------------
def secret_token(rng, n):
    return bytes(rng.randrange(0x61, 0x7B) for _ in range(n))


OPTION_POOL_REQ = ["uri_host", "uri_port", "proxy_scheme", "observe", "uri_path", "uri_query", "content_format", "accept", "etags", "if_match", "if_none_match", "size1", "block1", "no_response", "echo", "request_tag", "block2"]
OPTION_POOL_RESP = ["observe", "content_format", "etag", "location_path", "location_query", "max_age", "size1", "size2", "block2", "block1", "echo"]


def build_message(s, rng):
    """Plain message of a sample + the values that must not show in the outer bytes."""
    _, aiocoap = _env()
    from aiocoap.numbers.codes import Code

    m = aiocoap.Message(code=Code(s["code"]))
    secrets_ = []
    for name in s["opts"]:
        if name == "uri_host":
            m.opt.uri_host = "host-" + secret_token(rng, 4).decode()
        elif name == "uri_port":
            m.opt.uri_port = 5000 + rng.randrange(1000)
        elif name == "proxy_scheme":
            m.opt.proxy_scheme = "coap"
            if m.opt.uri_host is None:
                m.opt.uri_host = "proxied-" + secret_token(rng, 4).decode()
        elif name == "proxy_uri":
            # a forward-proxy request: only scheme and authority may show in the outer message
            path = [secret_token(rng, 9).decode() for _ in range(rng.randint(1, 2))]
            query = ["k=" + secret_token(rng, 9).decode()]
            m.opt.proxy_uri = "coap://origin-%s.example/%s?%s" % (secret_token(rng, 4).decode(), "/".join(path), "&".join(query))
            secrets_ += [v.encode() for v in path + query]
            m.proxy_split = (tuple(path), tuple(query))
        elif name == "observe":
            m.opt.observe = 0 if m.code.is_request() else rng.randrange(1, 1 << 20)
        elif name in ("uri_path", "location_path", "uri_query", "location_query"):
            vals = tuple(secret_token(rng, 9).decode() for _ in range(rng.randint(1, 3)))
            setattr(m.opt, name, vals)
            secrets_ += [v.encode() for v in vals]
        elif name in ("content_format", "accept"):
            setattr(m.opt, name, rng.choice([0, 40, 50, 60, 10000]))
        elif name in ("etag", "echo"):
            v = secret_token(rng, 8)
            setattr(m.opt, name, v)
            secrets_.append(v)
        elif name in ("etags", "if_match", "request_tag"):
            vals = [secret_token(rng, 8) for _ in range(rng.randint(1, 2))]
            setattr(m.opt, name, vals)
            secrets_ += vals
        elif name == "if_none_match":
            m.opt.if_none_match = True
        elif name in ("size1", "size2", "max_age"):
            setattr(m.opt, name, rng.randrange(1 << 24))
        elif name in ("block1", "block2"):
            setattr(m.opt, name, (rng.randrange(8), rng.random() < 0.5, rng.randrange(7)))
        elif name == "no_response":
            m.opt.no_response = rng.choice([2, 8, 16, 26])
    if s["paylen"]:
        m.payload = secret_token(rng, s["paylen"])
        if s["paylen"] >= 6:
            secrets_.append(m.payload)
    return m, secrets_


def inner_view(m):
    """What unprotect has to give back: code, end-to-end options, payload."""
    opts = [(int(o.number), o.encode()) for o in m.opt.option_list() if int(o.number) not in U_OPTIONS and int(o.number) != 9]
    split = getattr(m, "proxy_split", None)
    if split:  # path and query of a Proxy-Uri travel in the inner message (RFC 8613 section 4.1.3.3)
        opts += [(11, v.encode()) for v in split[0]] + [(15, v.encode()) for v in split[1]]
    opts = sorted(opts)
    return (int(m.code), opts, bytes(m.payload))


def on_wire(outer, mid=0x1234, token=b"\x70\x71"):
    _, aiocoap = _env()
    outer.mtype, outer.mid, outer.token = aiocoap.NON, mid, token
    return outer.encode()


def protect(ctx, msg, *a, **kw):
    try:
        return ctx.protect(msg, *a, **kw)
    except Exception as e:
        raise ProtectFailed("%r for %s" % (e, msg))


class Genuine:
    """One protected message as the peer produced it."""

    def __init__(self, role, plain, outer, secrets_, rid_for_unprotect, answers=None):
        self.role = role
        self.plain = plain
        self.view = inner_view(plain)
        self.outer = outer
        self.option = bytes(outer.opt.oscore)
        self.payload = bytes(outer.payload)
        self.fields = parse_option(self.option)
        self.secrets = secrets_
        self.rid = rid_for_unprotect  # what the genuine recipient passes to unprotect (None for requests)
        self.answers = answers
        self.wire = on_wire(outer)
        self.req_piv = None  # partial IV of the request a response answers
        self.obs = role == "req" and plain is not None and plain.opt.observe is not None
        self.reqfetch = False  # (responses) the outer code of the request it answers was FETCH


def deliver(g, rcpt_ctx, option, payload, rid):
    """One unprotect() on a fresh recipient; returns (res, equal, why)."""
    oscore, aiocoap = _env()
    m = aiocoap.Message(code=g.outer.code, payload=payload)
    for o in g.outer.opt.option_list():
        if int(o.number) != 9:
            m.opt.add_option(copy.copy(o))
    m.opt.oscore = option
    incoming = aiocoap.Message.decode(on_wire(m))
    try:
        plain, new_rid = fresh(rcpt_ctx).unprotect(incoming, clone_rid(rid))
    except oscore.ProtectionInvalid as e:
        return "reject", False, type(e).__name__, None
    except Exception as e:
        return "other", False, type(e).__name__, None
    try:
        equal = inner_view(plain) == g.view
    except Exception:
        equal = False
    return "msg", equal, "", new_rid


# -- symbolic form of a delivered message (for the model) and event records --------------------
def symbolic(g, rcpt_peer, option, payload, swapped, tag_len):
    f = parse_option(option)
    sym = {"pivtag": "abs", "pivv": "orig", "kid": "absent", "kidctx": "absent", "group": f["group"], "reserved": f["reserved"], "malformed": f["malformed"]}
    piv = f["piv"]
    if piv is not None:
        own = g.fields["piv"]
        if len(piv) > 5:
            sym["pivtag"] = "long"
        val = int.from_bytes(piv, "big")
        if own is not None and val == int.from_bytes(own, "big"):
            sym["pivv"] = "orig"
            if len(piv) <= 5:
                sym["pivtag"] = "val" if piv == own else "pad"
        elif g.req_piv is not None and val == int.from_bytes(g.req_piv, "big"):
            sym["pivv"] = "req"
            if len(piv) <= 5:
                sym["pivtag"] = "val" if piv == g.req_piv else "pad"
        else:
            sym["pivv"] = "other"
            if len(piv) <= 5:
                sym["pivtag"] = "val"
    if f["kid"] is not None:
        sym["kid"] = "right" if f["kid"] == rcpt_peer.recipient_id else "wrong"
    if f["kidctx"] is not None:
        sym["kidctx"] = "right" if rcpt_peer.id_context is not None and f["kidctx"] == rcpt_peer.id_context else "wrong"
    if payload == g.payload:
        sym["ct"] = "ok"
    elif len(payload) < tag_len + 1:
        sym["ct"] = "short"
    elif swapped:
        sym["ct"] = "swap"
    else:
        sym["ct"] = "corrupt"
    return sym


def effect_of(g, option, payload):
    """Which parts of the protected message differ from the genuine one, as the independent parse sees it."""
    f, f0 = parse_option(option), g.fields
    d = [k for k in ("piv", "kid", "kidctx", "group", "reserved") if f[k] != f0[k]]
    if f["piv"] is not None and len(f["piv"]) > 5:
        d.append("n>5")
    if f["malformed"]:
        d.append("malformed")
    if payload != g.payload:
        d.append("ct")
    return "+".join(d) or "nothing"


BLANK = {
    "k": "deliver", "role": "req", "e": "none", "rcpt": "peer", "own": True, "res": "msg", "equal": True,
    "pivtag": "abs", "pivv": "orig", "kid": "absent", "kidctx": "absent", "group": False, "reserved": False, "malformed": False, "ct": "ok",
    "idc": "none", "sendctx": True, "ownpiv": False, "oc": 0, "optnums": [], "leak": False, "why": "", "mut": "", "option": "", "effect": "", "obs": False, "reqfetch": False,
}


class Recorder:
    def __init__(self, s, rc):
        self.s = s
        self.rc = rc
        self.events = []
        self.unexpected = {}
        self.tag_len = rc["req"]["peer"].alg_aead.tag_bytes
        self.idc = "none" if s["idctx"] is None else "g1"

    def outer(self, g):
        wire = g.wire
        nums = [int(o.number) for o in g.outer.opt.option_list()]
        leak = [v.hex() for v in g.secrets if v and v in wire]
        e = dict(BLANK, k="outer", role=g.role, oc=int(g.outer.code), obs=bool(getattr(g, "obs", False)), reqfetch=bool(getattr(g, "reqfetch", False)), optnums=sorted(set(nums)), leak=bool(leak), idc=self.idc, mut="outer " + ",".join(map(str, nums)) + (" leak " + ",".join(leak) if leak else ""))
        self.events.append(e)

    def delivery(self, g, e_class, option, payload, rcpt="peer", rid=None, own=True, swapped=False, mut="", sendctx=True, ownpiv=False):
        ctx = self.rc[g.role][rcpt]
        res, equal, why, new_rid = deliver(g, ctx, option, payload, rid)
        sym = symbolic(g, self.rc[g.role]["peer"], option, payload, swapped, self.tag_len)
        ev = dict(BLANK, role=g.role, e=e_class, rcpt=rcpt, own=own, res=res, equal=equal, idc=self.idc, sendctx=sendctx, ownpiv=ownpiv, why=why, mut=mut or e_class, **sym)
        ev["option"] = option.hex()
        ev["effect"] = effect_of(g, option, payload)
        self.events.append(ev)
        if res == "other":
            key = (why, g.role, e_class)
            if key not in self.unexpected:
                self.unexpected[key] = {"exception": why, "role": g.role, "edit": e_class, "mut": mut, "option": option.hex(), "payload_len": len(payload), "sample": self.s}
        return res, new_rid


# -- field-level edits on real bytes (names as in Oscore.tla) --------------------------------
def flip(b, bit=0):
    if not b:
        return b"\x99"
    x = bytearray(b)
    x[-1 - (bit // 8) % len(x)] ^= 1 << (bit % 8)
    return bytes(x)


def field_edits(g, rcpt_peer, other):
    """[(class, option bytes, payload bytes, swapped, description)] applicable to g."""
    f = g.fields
    piv, kid, kidctx = f["piv"], f["kid"], f["kidctx"]
    out = []

    def opt(**kw):
        d = {"piv": piv, "kid": kid, "kidctx": kidctx}
        d.update(kw)
        return build_option(**d)

    if piv is not None:
        out.append(("piv_other", opt(piv=flip(piv)), g.payload, False, "partial IV changed"))
        if len(piv) > 1 or piv != b"\x00":
            out.append(("piv_other", opt(piv=(int.from_bytes(piv, "big") ^ 1).to_bytes(len(piv), "big")), g.payload, False, "partial IV +-1"))
        out.append(("piv_remove", opt(piv=None), g.payload, False, "partial IV removed"))
        if len(piv) < 5:
            out.append(("piv_pad", opt(piv=b"\x00" + piv), g.payload, False, "partial IV with a leading zero byte"))
        for n in (6, 7):
            out.append(("piv_long", opt(piv=b"\x00" * (n - len(piv)) + piv), g.payload, False, "partial IV padded to %d bytes" % n))
    else:
        if g.req_piv is not None:
            out.append(("piv_add", opt(piv=g.req_piv), g.payload, False, "request's partial IV added"))
        out.append(("piv_add", opt(piv=b"\x01"), g.payload, False, "partial IV 1 added"))
    if kid is not None:
        out.append(("kid_other", opt(kid=flip(kid)), g.payload, False, "kid changed"))
        out.append(("kid_other", opt(kid=kid + b"\x00"), g.payload, False, "kid extended"))
        if kid != b"":
            out.append(("kid_other", opt(kid=b""), g.payload, False, "kid emptied"))
        out.append(("kid_remove", opt(kid=None), g.payload, False, "kid removed"))
    else:
        out.append(("kid_add_right", opt(kid=rcpt_peer.recipient_id), g.payload, False, "correct kid added"))
        out.append(("kid_add_wrong", opt(kid=flip(rcpt_peer.recipient_id)), g.payload, False, "wrong kid added"))
    if kidctx is not None:
        out.append(("kidctx_other", opt(kidctx=flip(kidctx)), g.payload, False, "kid context changed"))
        if kidctx != b"":
            out.append(("kidctx_other", opt(kidctx=b""), g.payload, False, "kid context emptied"))
        out.append(("kidctx_remove", opt(kidctx=None), g.payload, False, "kid context removed"))
    else:
        if rcpt_peer.id_context is not None:
            out.append(("kidctx_add_right", opt(kidctx=rcpt_peer.id_context), g.payload, False, "correct kid context added"))
        out.append(("kidctx_add_wrong", opt(kidctx=b"\x55\xaa"), g.payload, False, "wrong kid context added"))
        if rcpt_peer.id_context != b"":
            out.append(("kidctx_add_wrong", opt(kidctx=b""), g.payload, False, "empty kid context added"))
    out.append(("flag_group", opt(group=True), g.payload, False, "group flag set"))
    out.append(("flag_reserved", opt(reserved=0x40), g.payload, False, "reserved flag 0x40 set"))
    out.append(("flag_reserved", opt(reserved=0x80), g.payload, False, "reserved flag 0x80 set"))
    out.append(("ct_corrupt", g.option, flip(g.payload), False, "last ciphertext bit flipped"))
    out.append(("ct_corrupt", g.option, g.payload + b"\x00", False, "ciphertext extended"))
    out.append(("ct_corrupt", g.option, g.payload[:-1], False, "ciphertext shortened by one byte"))
    tl = rcpt_peer.alg_aead.tag_bytes
    for n in sorted({0, 1, tl - 1, tl}):
        if n < len(g.payload):
            out.append(("ct_short", g.option, g.payload[:n], False, "ciphertext cut to %d bytes" % n))
    if other is not None and other.payload != g.payload:
        out.append(("ct_swap", g.option, other.payload, True, "ciphertext of another message"))
    return out


# -- systematic mutations of one sample ----------------------------------------------------------
def run_sample(s):
    oscore, aiocoap = _env()
    rng = random.Random(s["seed"])
    client, server, rc = make_contexts(s)
    rec = Recorder(s, rc)
    seq = s["seq"]
    seq2 = seq + 1 if seq + 1 < MAXSEQ - 1 else seq - 1
    kc = bool(s["sendctx"])
    if s["role"] == "req":
        plain, secrets_ = build_message(s, rng)
        client.sender_sequence_number = seq
        outer, _rid = protect(client, plain, kid_context=kc)
        g = Genuine("req", plain, outer, secrets_, None)
        client.sender_sequence_number = seq2
        outer2, _ = protect(client, aiocoap.Message(code=aiocoap.POST, uri_path=("sibling",), payload=b"other request"), kid_context=kc)
        other = Genuine("req", None if False else aiocoap.Message(code=aiocoap.POST), outer2, [], None)
        rid_own = rid_other = None
    else:
        # two requests, the server accepts both, and answers the first with the sample
        rids_c, rids_s, pivs = [], [], []
        for q in (seq, seq2):
            client.sender_sequence_number = q
            req = aiocoap.Message(code=aiocoap.GET, uri_path=("r",))
            if s.get("req_observe"):
                req.opt.observe = 0
            o, ridc = protect(client, req, kid_context=kc)
            _p, rids = fresh(server).unprotect(aiocoap.Message.decode(on_wire(o)))
            rids_c.append(ridc)
            rids_s.append(rids)
            pivs.append(parse_option(bytes(o.opt.oscore))["piv"])
        plain, secrets_ = build_message(s, rng)
        server.sender_sequence_number = s["srvseq"]
        if s["ownpiv"]:
            rids_s[0].get_reusable_kid_and_piv()
            rids_s[1].get_reusable_kid_and_piv()
        outer, _ = protect(server, plain, rids_s[0])
        g = Genuine("resp", plain, outer, secrets_, rids_c[0], answers=0)
        g.req_piv = pivs[0]
        g.reqfetch = bool(s.get("req_observe"))
        server.sender_sequence_number = s["srvseq"] + 1 if s["srvseq"] + 1 < MAXSEQ - 1 else s["srvseq"] - 1
        outer2, _ = protect(server, aiocoap.Message(code=aiocoap.CONTENT, payload=b"other response"), rids_s[1])
        other = Genuine("resp", aiocoap.Message(code=aiocoap.CONTENT), outer2, [], rids_c[1], answers=1)
        other.req_piv = pivs[1]
        rid_own, rid_other = rids_c[0], rids_c[1]
    common = {"sendctx": kc, "ownpiv": bool(s.get("ownpiv"))}
    peer = rc[g.role]["peer"]
    rec.outer(g)
    rec.delivery(g, "none", g.option, g.payload, rid=rid_own, mut="unmodified", **common)
    if g.role == "resp":
        rec.delivery(g, "none", g.option, g.payload, rid=rid_other, own=False, mut="response against another request", **common)
        # ... and with identifiers differing from the right ones in one component only
        alt_piv = oscore.RequestIdentifiers(rid_own.kid, flip(rid_own.partial_iv), None, rid_own.code_style.request)
        rec.delivery(g, "none", g.option, g.payload, rid=alt_piv, own=False, mut="request identifiers with another partial IV", **common)
        alt_kid = oscore.RequestIdentifiers(flip(rid_own.kid), rid_own.partial_iv, None, rid_own.code_style.request)
        rec.delivery(g, "none", g.option, g.payload, rid=alt_kid, own=False, mut="request identifiers with another kid", **common)
    for k in ("foreign", "otherctx"):
        rec.delivery(g, "none", g.option, g.payload, rcpt=k, rid=rid_own, mut="verified by " + k, **common)
    for i in range(len(g.option) * 8):
        b = bytearray(g.option)
        b[i // 8] ^= 0x80 >> (i % 8)
        rec.delivery(g, "bitflip", bytes(b), g.payload, rid=rid_own, mut="option bit %d" % i, **common)
    for i in range(len(g.payload) * 8):
        b = bytearray(g.payload)
        b[i // 8] ^= 0x80 >> (i % 8)
        rec.delivery(g, "bitflip", g.option, bytes(b), rid=rid_own, mut="payload bit %d" % i, **common)
    for cls_, o, p, sw, desc in field_edits(g, peer, other):
        rec.delivery(g, cls_, o, p, rid=rid_own, swapped=sw, mut=desc, **common)
    return {"trace": rec.events, "meta": {"unexpected": list(rec.unexpected.values()), "option": g.option.hex(), "outer_code": int(g.outer.code)}}


# -- spec -> code: TLC attacker behaviours on real contexts ----------------------------------------
def run_behaviour(b):
    oscore, aiocoap = _env()
    s = {"cid": "01", "sid": "", "idctx": None if b["idc"] == "none" else "37cbf3210017a2d3", "alg": None, "role": "beh", "seed": 0}
    client, server, rc = make_contexts(s)
    rec = Recorder(s, rc)
    net = []
    srv_rid = {}
    drift = []
    nreq = nresp = 0
    for a in b["steps"]:
        k = a["k"]
        if k == "request":
            m = aiocoap.Message(code=aiocoap.GET, uri_path=("req%d" % nreq,), payload=b"request-%d-payload" % nreq)
            if a["observe"]:
                m.opt.observe = 0
            client.sender_sequence_number = nreq + 1
            outer, ridc = protect(client, m, kid_context=bool(a["sendCtx"]))
            g = Genuine("req", m, outer, [b"req%d" % nreq], None)
            g.client_rid = ridc
            g.sendctx = bool(a["sendCtx"])
            net.append(g)
            rec.outer(g)
            nreq += 1
        elif k == "respond":
            rid = srv_rid.get(a["ri"])
            if rid is None:
                drift.append("model answers request %d which the implementation did not accept" % a["ri"])
                break
            rid = clone_rid(rid)
            if a["own"]:
                rid.get_reusable_kid_and_piv()
            else:
                srv_rid[a["ri"]].can_reuse_nonce = False  # consumed, as the model's `used`
            m = aiocoap.Message(code=aiocoap.CONTENT, payload=b"response-%d-payload" % nresp, max_age=nresp + 1)
            server.sender_sequence_number = 16 + nresp
            outer, _ = protect(server, m, rid)
            g = Genuine("resp", m, outer, [m.payload], net[a["ri"] - 1].client_rid, answers=a["ri"])
            g.req_piv = net[a["ri"] - 1].fields["piv"]
            g.reqfetch = net[a["ri"] - 1].obs
            g.sendctx = True
            g.ownpiv = bool(a["own"])
            net.append(g)
            rec.outer(g)
            nresp += 1
        elif k in ("srv_rx", "cli_rx"):
            p = net[a["i"] - 1]
            q = net[a["j"] - 1]
            peer = rc[p.role]["peer"]
            e = a["e"]
            option, payload, swapped = p.option, p.payload, False
            if e != "none":
                cands = [x for x in field_edits(p, peer, q if e == "ct_swap" else None) if x[0] == e]
                if e == "piv_add":  # the model adds the request's partial IV
                    cands = cands[:1]
                if not cands:
                    drift.append("edit %s not applicable to real message %d" % (e, a["i"]))
                    continue
                _c, option, payload, swapped, _d = cands[0]
            rid, own = None, True
            if k == "cli_rx":
                rid = net[a["ri"] - 1].client_rid
            # an edit may reproduce another genuine message exactly: then it is that message
            base, e_eff = p, e
            for x in net:
                if x.role == p.role and x.option == option and x.payload == payload:
                    base, e_eff = x, "none"
            if k == "cli_rx":
                own = base.answers == a["ri"]
            res, new_rid = rec.delivery(
                base, e_eff if a["rcpt"] == "peer" else "none", option, payload, rcpt=a["rcpt"], rid=rid, own=own, swapped=swapped,
                mut="%s %s of message %d" % (k, e, a["i"]), sendctx=getattr(base, "sendctx", True), ownpiv=getattr(base, "ownpiv", False),
            )
            if res != a["expect"]:
                drift.append("%s of message %d with edit %s by %s: model %s, implementation %s (%s)" % (k, a["i"], e, a["rcpt"], a["expect"], res, rec.events[-1]["why"]))
            if k == "srv_rx" and res == "msg" and a["rcpt"] == "peer" and new_rid is not None:
                srv_rid.setdefault(net.index(base) + 1, new_rid)
    return {"trace": rec.events, "meta": {"unexpected": list(rec.unexpected.values()), "drift": drift}}



# -- sessions: two contexts that KEEP their state (sequence numbers, replay windows) ------------------
SESSION_BLANK = {"k": "start", "x": "A", "id": 0, "rq": 0, "own": True, "n": -1, "res": "sent", "equal": True, "why": "", "kind": "", "situation": ""}


def window_view(ctx):
    """(initialised, index, seen) of a context's replay window, for statistics only."""
    w = ctx.recipient_replay_window
    try:
        if not w.is_initialized():
            return False, 0, set()
        idx, bits = w._index, w._bitfield
        return True, idx, {idx + i for i in range(bits.bit_length()) if bits >> i & 1}
    except Exception:
        return None, 0, set()


def run_session(s):
    """Genuine traffic between two contexts sharing keys: requests both ways,
    several responses per request (own partial IV = notifications), gaps in
    the sender's numbers, late / reordered / duplicated delivery."""
    oscore, aiocoap = _env()
    import shutil
    import tempfile

    cls = _G["cls"]
    ids = {"A": bytes.fromhex(s["cid"]), "B": bytes.fromhex(s["sid"])}
    idctx = None if s["idctx"] is None else bytes.fromhex(s["idctx"])
    W = s["W"]
    rng = random.Random(s.get("seed", 0))
    tmp = None
    ctx = {}
    try:
        if s.get("fs"):
            # the file-backed context: an uninitialised window is what an unclean restart leaves behind
            tmp = tempfile.mkdtemp(prefix="verif-c11-")
            for x in "AB":
                d = os.path.join(tmp, x)
                os.mkdir(d)
                settings = {"sender-id_hex": ids[x].hex(), "recipient-id_hex": ids[Other(x)].hex(), "secret_hex": SECRET.hex(), "salt_hex": SALT.hex(), "window": W}
                if idctx is not None:
                    settings["id-context_hex"] = idctx.hex()
                with open(os.path.join(d, "settings.json"), "w") as f:
                    json.dump(settings, f)
                if not s["init" + x]:
                    with open(os.path.join(d, "sequence.json"), "w") as f:
                        json.dump({"next-to-send": 0, "received": "unknown"}, f)
                ctx[x] = oscore.FilesystemSecurityContext(d)
        else:
            for x in "AB":
                echo = bytes(rng.randrange(256) for _ in range(8)) if s["echo" + x] else None
                ctx[x] = oscore_env.new_context(oscore, ids[x], ids[Other(x)], secret=SECRET, salt=SALT, id_context=idctx, window=W, initialized=bool(s["init" + x]), echo_recovery=echo, cls=cls)
        start = dict(SESSION_BLANK, W=W, initA=bool(s["initA"]), initB=bool(s["initB"]), echoA=bool(s["echoA"]), echoB=bool(s["echoB"]))
        events = [start]
        net = []
        srv_rid = {}
        delivered = {}
        notes = []

        def emit(**kw):
            events.append(dict(start, **kw))

        def unprotect(dst, wire, rid, view):
            try:
                plain, new_rid = ctx[dst].unprotect(aiocoap.Message.decode(wire), rid)
            except oscore.ProtectionInvalid as e:
                return "reject", False, type(e).__name__, None
            except Exception as e:
                return "other", False, type(e).__name__, None
            try:
                equal = inner_view(plain) == view
            except Exception:
                equal = False
            return "msg", equal, "", new_rid

        for st in s["steps"]:
            k = st["k"]
            if k == "req":
                x = st["x"]
                m = aiocoap.Message(code=aiocoap.GET, uri_path=("res", "n%d" % len(net)), observe=0)
                outer, rid = protect(ctx[x], m)
                n = int.from_bytes(parse_option(bytes(outer.opt.oscore))["piv"], "big")
                net.append({"kind": "req", "from": x, "n": n, "wire": on_wire(outer, mid=len(net) + 1), "view": inner_view(m), "rid": rid})
                emit(k="req", x=x, id=len(net), n=n, kind="req")
            elif k == "burn":
                for _ in range(st["n"]):
                    protect(ctx[st["x"]], aiocoap.Message(code=aiocoap.GET, uri_path=("elsewhere",)))
                emit(k="burn", x=st["x"], n=st["n"])
            elif k == "rx_req":
                if not 1 <= st["id"] <= len(net) or net[st["id"] - 1]["kind"] != "req":
                    continue
                m = net[st["id"] - 1]
                dst = Other(m["from"])
                res, equal, why, new_rid = unprotect(dst, m["wire"], None, m["view"])
                if res == "msg":
                    srv_rid.setdefault(st["id"], new_rid)
                emit(k="rx_req", x=dst, id=st["id"], n=m["n"], res=res, equal=equal, why=why, kind="req")
            elif k == "respond":
                rid = srv_rid.get(st["rq"])
                if rid is None:
                    notes.append("response to request %d skipped: its recipient did not accept it" % st["rq"])
                    continue
                x = Other(net[st["rq"] - 1]["from"])
                if st["own"]:
                    rid = clone_rid(rid)
                    rid.get_reusable_kid_and_piv()
                elif not rid.can_reuse_nonce:
                    notes.append("nonce of request %d already reused: response skipped" % st["rq"])
                    continue
                m = aiocoap.Message(code=aiocoap.CONTENT, payload=b"state %d of the resource" % len(net), observe=len(net) + 1, etag=b"e%07d" % len(net))
                outer, _ = protect(ctx[x], m, rid)
                piv = parse_option(bytes(outer.opt.oscore))["piv"]
                n = -1 if piv is None else int.from_bytes(piv, "big")
                net.append({"kind": "resp", "from": x, "n": n, "rq": st["rq"], "wire": on_wire(outer, mid=len(net) + 1), "view": inner_view(m)})
                emit(k="respond", x=x, id=len(net), rq=st["rq"], own=n >= 0, n=n, kind="resp")
            elif k == "rx_resp":
                if not (1 <= st["id"] <= len(net) and 1 <= st["rq"] <= len(net)):
                    continue
                m, q = net[st["id"] - 1], net[st["rq"] - 1]
                if m["kind"] != "resp" or q["kind"] != "req" or q["from"] != Other(m["from"]):
                    continue
                dst = q["from"]
                own = m["rq"] == st["rq"]
                init, idx, seen = window_view(ctx[dst])
                if m["n"] < 0:
                    situation = "nonce-reused"
                elif init is False:
                    situation = "uninitialised-window"
                elif init and m["n"] < idx:
                    situation = "below-window"
                elif init and m["n"] in seen:
                    situation = "number-seen-in-window"
                elif (st["id"], st["rq"]) in delivered:
                    situation = "duplicate"
                else:
                    situation = "fresh"
                if (st["id"], st["rq"]) in delivered:
                    situation += "+duplicate" if situation != "duplicate" else ""
                delivered[(st["id"], st["rq"])] = True
                # the requester keeps ONE RequestIdentifiers object per request (as transports/oscore.py does) and
                # passes it for every response to that request; only deliberately foreign pairings get a copy
                same_object = own
                if own:
                    q["uses"] = q.get("uses", 0) + 1
                res, equal, why, _ = unprotect(dst, m["wire"], q["rid"] if same_object else clone_rid(q["rid"]), m["view"])
                emit(k="rx_resp", x=dst, id=st["id"], rq=st["rq"], own=own, n=m["n"], res=res, equal=equal, why=why, kind="resp-ownpiv" if m["n"] >= 0 else "resp-reuse", situation=situation)
        reused_rid = sum(1 for q in net if q.get("uses", 0) >= 2)
        return {"trace": events, "meta": {"unexpected": [], "drift": notes, "session": True, "requests_whose_identifiers_served_several_responses": reused_rid}}
    finally:
        for c in ctx.values():
            lock = getattr(c, "lockfile", None)
            if lock is not None:
                c.lockfile = None
                try:
                    lock.release()
                except Exception:
                    pass
        if tmp:
            shutil.rmtree(tmp, ignore_errors=True)


def Other(x):
    return "B" if x == "A" else "A"


def sessions_from_sim(behs, rng):
    out = []
    for beh in behs:
        if len(beh) < 2:
            continue
        s0 = beh[0][1]
        steps = []
        for _l, st in beh[1:]:
            a = st["act"]
            if a["k"] == "req":
                steps.append({"k": "req", "x": a["x"]})
            elif a["k"] == "burn":
                steps.append({"k": "burn", "x": a["x"], "n": a["n"]})
            elif a["k"] == "rx_req":
                steps.append({"k": "rx_req", "id": a["id"]})
            elif a["k"] == "respond":
                steps.append({"k": "respond", "rq": a["rq"], "own": bool(a["own"])})
            elif a["k"] == "rx_resp":
                steps.append({"k": "rx_resp", "id": a["id"], "rq": a["rq"]})
        cid, sid = rng.choice(ID_PAIRS_13)
        out.append({
            "session": True, "origin": "sim", "W": s0["size"], "fs": False, "cid": cid, "sid": sid, "idctx": rng.choice(IDCTXS), "seed": rng.randrange(1 << 30),
            "initA": bool(s0["ep"]["A"]["win"]["init"]), "initB": bool(s0["ep"]["B"]["win"]["init"]),
            "echoA": bool(s0["ep"]["A"]["echo"]), "echoB": bool(s0["ep"]["B"]["echo"]), "steps": steps,
        })
    return out


def directed_sessions(rng, thorough):
    """Real-scale (default window 32 and others) sessions for the situations the
    statement's 'every message' has to survive."""
    out = []

    def base(W, fs=False, **kw):
        cid, sid = rng.choice(ID_PAIRS_13)
        d = {"session": True, "origin": "directed", "W": W, "fs": fs, "cid": cid, "sid": sid, "idctx": rng.choice(IDCTXS), "seed": rng.randrange(1 << 30), "initA": True, "initB": True, "echoA": fs, "echoB": fs}
        d.update(kw)
        if fs:
            d["echoA"] = d["echoB"] = True  # the file-backed context always has Echo recovery
        return d

    variants = [(32, False), (32, True), (4, False), (64, False)] + ([(1, False), (7, False), (33, True)] if thorough else [])
    for W, fs in variants:
        gap = W + 9
        # notifications more than a window apart, delivered late-before-early, each twice
        out.append(dict(base(W, fs), name="notifications-reordered-beyond-window", steps=[
            {"k": "req", "x": "A"}, {"k": "rx_req", "id": 1}, {"k": "respond", "rq": 1, "own": False}, {"k": "respond", "rq": 1, "own": True},
            {"k": "burn", "x": "B", "n": gap}, {"k": "respond", "rq": 1, "own": True}, {"k": "respond", "rq": 1, "own": True},
            {"k": "rx_resp", "id": 2, "rq": 1}, {"k": "rx_resp", "id": 4, "rq": 1}, {"k": "rx_resp", "id": 3, "rq": 1}, {"k": "rx_resp", "id": 5, "rq": 1},
            {"k": "rx_resp", "id": 3, "rq": 1}, {"k": "rx_resp", "id": 4, "rq": 1}, {"k": "rx_resp", "id": 2, "rq": 1}]))
        # the same response with its own partial IV, three times
        out.append(dict(base(W, fs), name="response-delivered-repeatedly", steps=[
            {"k": "req", "x": "B"}, {"k": "rx_req", "id": 1}, {"k": "respond", "rq": 1, "own": True},
            {"k": "rx_resp", "id": 2, "rq": 1}, {"k": "rx_resp", "id": 2, "rq": 1}, {"k": "rx_resp", "id": 2, "rq": 1}]))
        # role reversal: B's response is overtaken by more than a window of B's own requests
        steps = [{"k": "req", "x": "A"}, {"k": "rx_req", "id": 1}, {"k": "respond", "rq": 1, "own": True}]
        nreq = min(gap, 40) if W <= 32 else 6
        if nreq < gap:
            steps.append({"k": "burn", "x": "B", "n": gap - nreq})
        for i in range(nreq):
            steps += [{"k": "req", "x": "B"}, {"k": "rx_req", "id": 3 + i}]
        steps += [{"k": "rx_resp", "id": 2, "rq": 1}, {"k": "respond", "rq": 3 + nreq - 1, "own": True}, {"k": "respond", "rq": 3, "own": False},
                  {"k": "rx_resp", "id": 3 + nreq, "rq": 3 + nreq - 1}, {"k": "rx_resp", "id": 4 + nreq, "rq": 3}, {"k": "rx_resp", "id": 2, "rq": 1},
                  {"k": "respond", "rq": 1, "own": True}, {"k": "rx_resp", "id": 5 + nreq, "rq": 1}]
        out.append(dict(base(W, fs), name="role-reversal-window-moved-by-peer-requests", steps=steps))
        # a requester whose window is uninitialised (state lost), with and without Echo recovery
        for echo in ((True,) if fs else (False, True)):
            out.append(dict(base(W, fs, initA=False, echoA=echo), name="requester-with-uninitialised-window", steps=[
                {"k": "req", "x": "A"}, {"k": "req", "x": "A"}, {"k": "rx_req", "id": 1}, {"k": "rx_req", "id": 2},
                {"k": "respond", "rq": 1, "own": False}, {"k": "respond", "rq": 1, "own": True}, {"k": "respond", "rq": 2, "own": True}, {"k": "burn", "x": "B", "n": 3}, {"k": "respond", "rq": 1, "own": True},
                {"k": "rx_resp", "id": 6, "rq": 1}, {"k": "rx_resp", "id": 4, "rq": 1}, {"k": "rx_resp", "id": 3, "rq": 1}, {"k": "rx_resp", "id": 5, "rq": 2},
                {"k": "rx_resp", "id": 5, "rq": 1}, {"k": "rx_resp", "id": 4, "rq": 2}, {"k": "rx_resp", "id": 6, "rq": 1}, {"k": "rx_resp", "id": 4, "rq": 1}]))
    return out


def random_session(rng):
    W = rng.choice([32, 32, 4, 8, 1, 33])
    steps = []
    reqs, resps = [], []  # (id, from)
    nid = 0
    init = {"A": rng.random() < 0.75, "B": rng.random() < 0.75}
    for _ in range(rng.randint(12, 40)):
        r = rng.random()
        if r < 0.2 or not reqs:
            x = rng.choice("AB")
            nid += 1
            reqs.append((nid, x))
            steps += [{"k": "req", "x": x}]
            if rng.random() < 0.8:
                steps.append({"k": "rx_req", "id": nid})
        elif r < 0.3:
            steps.append({"k": "burn", "x": rng.choice("AB"), "n": rng.choice([1, 2, W, W + 1, W + 7])})
        elif r < 0.35:
            steps.append({"k": "rx_req", "id": rng.choice(reqs)[0]})
        elif r < 0.6:
            rq, frm = rng.choice(reqs)
            if not init[Other(frm)]:
                continue  # an uninitialised recipient accepts no request (C12): nothing to answer
            nid += 1
            resps.append((nid, rq))
            steps.append({"k": "respond", "rq": rq, "own": rng.random() < 0.8, "expect_id": nid})
        elif resps:
            rid_, rq = rng.choice(resps)
            if rng.random() < 0.15:
                others = [q for q, f in reqs if f == dict(reqs)[rq] and q != rq]
                if others:
                    rq = rng.choice(others)
            steps.append({"k": "rx_resp", "id": rid_, "rq": rq})
    cid, sid = rng.choice(ID_PAIRS_13)
    return {"session": True, "origin": "random", "name": "random", "W": W, "fs": False, "cid": cid, "sid": sid, "idctx": rng.choice(IDCTXS), "seed": rng.randrange(1 << 30),
            "initA": init["A"], "initB": init["B"], "echoA": rng.random() < 0.5, "echoB": rng.random() < 0.5, "steps": steps}


def session_sig(clause, ev):
    return "%s|session|%s|%s|res=%s%s" % (clause, ev["kind"], "own-request" if ev["own"] else "other-request", ev["res"], ":" + ev["why"] if ev["why"] else "")


def validate_sessions(rep, wd, items, results, timeout=900):
    traces = [r["trace"] for r in results]
    verdicts, _r = oscore_env.validate_traces(wd, "OscoreSessionTrace", SESSION_TRACE_CFG, traces, timeout=timeout)
    ndrift = 0
    for item, res, v in zip(items, results, verdicts):
        flagged = False
        for at, clause in v["all"]:
            if not clause.startswith("C11_"):
                continue
            flagged = True
            ev = res["trace"][at - 1]
            rep.violation(
                clause,
                session_sig(clause, ev),
                "clause %s false on a real result (event %d of a recorded session, %s, window %d, %s contexts): %s; receiver's window: %s\nsession %s"
                % (clause, at, item.get("name", item["origin"]), item["W"], "file-backed" if item.get("fs") else "in-memory",
                   json.dumps({k: ev[k] for k in ("k", "x", "id", "rq", "own", "n", "res", "equal", "why")}), ev["situation"], json.dumps(item)[:900]),
                {"item": item, "event": ev, "index": at - 1, "trace": res["trace"]},
            )
        if "DRIFT_model" in v["bad"] and not flagged:
            ndrift += 1
            if ndrift <= 3:
                at = v["at"]["DRIFT_model"]
                rep.add_drift("recorded session is not a behaviour of the OscoreSession model although no clause is false (%s, window %d) at event %d: %s" % (item.get("name", item["origin"]), item["W"], at, json.dumps(res["trace"][at - 1])))
    return len(traces), ndrift


class ProtectFailed(Exception):
    pass


def _run(x):
    try:
        if x.get("session"):
            return run_session(x)
        return run_behaviour(x) if "steps" in x else run_sample(x)
    except ProtectFailed as e:
        # no protected message exists: nothing for C11 to judge
        if "proxy_uri" in x.get("opts", ()):
            return {"trace": [], "meta": {"unexpected": [], "drift": [], "proxy_uri_refused": 1}}
        return {"trace": [], "meta": {"unexpected": [], "drift": ["protect() refused a message of the domain: %s" % e]}}
    except MachineryError as e:
        return {"error": "MachineryError: %s" % e}
    except Exception:
        import traceback

        return {"error": traceback.format_exc()}


def run_all(items, procs=8):
    if not items:
        return []
    _env()
    if len(items) < 8:
        return [_run(x) for x in items]
    with Pool(min(procs, os.cpu_count() or 4)) as p:
        return p.map(_run, items, chunksize=max(1, len(items) // (procs * 8)))


# -- samples -----------------------------------------------------------------------------------------
SEQS = [0, 255, 256, 2**32 - 1, 2**40 - 2]
IDCTXS = [None, "", "37cbf3210017a2d3", "aa" * 20]
ID_PAIRS_13 = [("", "01"), ("01", ""), ("01", "02"), ("0102", "030405"), ("00", "0000"), ("01020304050607", "a1a2a3a4a5a6a7"), ("", "ffffffffffffff"), ("c0ffee", "")]
ID_PAIRS_7 = [("", "01"), ("01", ""), ("01", "02")]
ALGS_QUICK = [None, None, None, "AES-CCM-16-128-128"]
ALGS_THOROUGH = [None, None, "AES-CCM-16-128-128", "AES-CCM-64-64-128", "AES-CCM-16-64-256", "AES-CCM-64-128-256"]


def samples(rng, count, thorough):
    from aiocoap.numbers.codes import Code

    reqs = [int(c) for c in Code if c.is_request()]
    resps = [int(c) for c in Code if c.is_response()]
    out = []
    for i in range(count):
        role = ("req", "resp", "resp")[i % 3]
        ownpiv = role == "resp" and (i // 3) % 2 == 1
        alg = (ALGS_THOROUGH if thorough else ALGS_QUICK)[(i // 5) % (len(ALGS_THOROUGH) if thorough else len(ALGS_QUICK))]
        pairs = ID_PAIRS_7 if alg and alg.startswith("AES-CCM-64") else ID_PAIRS_13
        cid, sid = pairs[(i // 3) % len(pairs)]
        pool = OPTION_POOL_REQ if role == "req" else OPTION_POOL_RESP
        nopt = [0, 1, 2, 3, 5, len(pool)][(i // 7) % 6]
        opts = rng.sample(pool, min(nopt, len(pool)))
        if "proxy_scheme" in opts and "uri_host" not in opts:
            opts.append("uri_host")
        if role == "req" and i % 33 == 9:
            opts = ["proxy_uri"] + [o for o in opts if o not in ("uri_host", "uri_port", "proxy_scheme", "uri_path", "uri_query")]
        out.append(
            {
                "role": role,
                "code": (reqs if role == "req" else resps)[(i // 3) % len(reqs if role == "req" else resps)],
                "opts": sorted(opts),
                "paylen": [0, 1, 64, 1, 0][i % 5] if not thorough else [0, 1, 64][i % 3],
                "cid": cid,
                "sid": sid,
                "idctx": IDCTXS[(i // 2) % len(IDCTXS)],
                "sendctx": (i // 4) % 3 != 2,
                "seq": SEQS[i % len(SEQS)],
                "srvseq": SEQS[(i // 5) % len(SEQS)] if ownpiv else 0,
                "ownpiv": ownpiv,
                "req_observe": (i // 6) % 2 == 1,
                "alg": alg,
                "seed": rng.randrange(1 << 30),
            }
        )
    return out


def behaviours_from_sim(behs):
    out = []
    for beh in behs:
        if len(beh) < 2:
            continue
        steps = [st["act"] for _l, st in beh[1:]]
        out.append({"idc": beh[0][1]["idc"], "steps": steps})
    return out


# -- verdicts ------------------------------------------------------------------------------------------
JUDGED = ("k", "role", "e", "rcpt", "own", "res", "equal", "pivtag", "pivv", "kid", "kidctx", "group", "reserved", "malformed", "ct", "idc", "sendctx", "ownpiv", "oc", "optnums", "leak", "obs", "reqfetch")


def expected_outer_code(ev):
    """(for signatures and messages only; the judgement is TLC's ExpectedOuterCode)"""
    if ev["role"] == "req":
        return 5 if ev["obs"] else 2
    return 69 if ev["reqfetch"] else 68


def sig_of(clause, ev, item):
    """clause + what was manipulated + what came out (stable across samples)."""
    if ev["k"] == "outer":
        extra = sorted(set(ev["optnums"]) - {3, 6, 7, 9, 35, 39})
        return "%s|%s|outer code=%d%s extra_options=%s leak=%s" % (clause, ev["role"], ev["oc"], "" if ev["oc"] == expected_outer_code(ev) else " (statement: %d)" % expected_outer_code(ev), extra, ev["leak"])
    what = ev["e"]
    if what == "bitflip":
        if ev["res"] == "other":
            what = "bitflip"  # the exception class names the cause
        else:
            what = "bitflip:" + ("+".join(x for x in ev["effect"].split("+") if x not in ("malformed", "n>5")) or "nothing")
    elif what == "none":
        what = "unmodified" if ev["own"] else "other-request"
    return "%s|%s|%s|rcpt=%s|res=%s%s" % (clause, ev["role"], what, ev["rcpt"], ev["res"], ":" + ev["why"] if ev["why"] else "")


def validate_and_report(rep, wd, items, results, timeout=1800):
    """The judgement of a result depends on the record alone (no history), so TLC
    judges every DISTINCT record once (batched into traces of 40); the verdict is
    mapped back to all real results with that record."""
    groups = {}
    for i, r in enumerate(results):
        for j, ev in enumerate(r["trace"]):
            key = tuple(tuple(ev[f]) if isinstance(ev[f], list) else ev[f] for f in JUDGED)
            groups.setdefault(key, []).append((i, j))
    keys = list(groups)
    reps = [results[groups[k][0][0]]["trace"][groups[k][0][1]] for k in keys]
    traces = [reps[x : x + 40] for x in range(0, len(reps), 40)]
    verdicts, _r = oscore_env.validate_traces(wd, "OscoreTrace", TRACE_CFG, traces, timeout=timeout)
    ndrift = 0
    nviol_events = 0
    for t, v in enumerate(verdicts):
        clauses_at = {}
        for at, clause in v["all"]:
            clauses_at.setdefault(at, []).append(clause)
        for at, cl in sorted(clauses_at.items()):
            key = keys[t * 40 + at - 1]
            members = groups[key]
            real = [c for c in cl if c.startswith("C11_")]
            if not real:
                ndrift += len(members)
                if len(rep.drift) < 6:
                    ev = reps[t * 40 + at - 1]
                    rep.add_drift("symbolic model and implementation disagree although no clause is false (%d results): %s" % (len(members), json.dumps({k: ev[k] for k in ("role", "e", "rcpt", "own", "res", "why", "mut", "pivtag", "kid", "kidctx", "ct")})))
                continue
            nviol_events += len(members)
            done = set()
            for i, j in members:
                item, ev = items[i], results[i]["trace"][j]
                for clause in real:
                    sg = sig_of(clause, ev, item)
                    if sg in done:
                        continue
                    done.add(sg)
                    rep.violation(
                        clause,
                        sg,
                        "clause %s false on a real result (%d results with this record): %s\n%s"
                        % (clause, len(members), json.dumps({k: ev[k] for k in ("k", "role", "e", "rcpt", "own", "res", "equal", "why", "mut", "option", "oc", "obs", "reqfetch", "optnums", "leak")}), describe(item, ev)),
                        {"item": item, "event": ev, "index": j},
                    )
    return sum(len(r["trace"]) for r in results), len(keys), ndrift, nviol_events


def describe(item, ev):
    if "steps" in item:
        return "attacker behaviour from the model: idc=%s steps=%s" % (item["idc"], json.dumps(item["steps"])[:600])
    return "sample %s" % json.dumps(item)


def replay(rep, args):
    data = json.load(open(args.replay))
    item = data["replay"]["item"]
    _env()
    res = _run(item)
    if "error" in res:
        raise MachineryError(res["error"])
    with tlc.Workdir() as wd:
        if item.get("session"):
            validate_sessions(rep, wd, [item], [res])
        else:
            validate_and_report(rep, wd, [item], [res])
    rep.coverage.update({"states": 0, "transitions": 0, "traces_validated_against_impl": 1, "samples": [res["trace"][:4]], "replayed": args.replay})
    rep.assumptions.append(oscore_env.ASSUMPTION)


def work(rep, args):
    if args.replay:
        return replay(rep, args)
    quick = args.tier == "quick"
    rng = random.Random(args.seed * 32452843 + 11)
    _env()
    for d in oscore_env.tree_deviations():
        rep.add_drift("tree under test deviates from the RFC 8613 Appendix C vectors: " + d)
    nsim = 100 if quick else 1500
    nsamples = 150 if quick else 3000
    nsess_sim = 150 if quick else 2500
    nsess_rand = 100 if quick else 3000
    sess_consts = dict(nreq=2, nresp=3, nburn=1, ndel=4) if quick else dict(nreq=2, nresp=3, nburn=2, ndel=5)
    with tlc.Workdir() as wd:
        import threading

        box = {}

        def run_mc():
            wd.write("OS_mc.cfg", MC_CFG % {"ko": "FALSE", "nreq": 2, "nresp": 2 if quick else 3})
            box["mc"] = tlc.run(wd, "Oscore.tla", "OS_mc.cfg", timeout=1800 if quick else 3400, workers=max(2, (os.cpu_count() or 4) - 4))
            wd.write("OS_mc2.cfg", MC_CFG % {"ko": "TRUE", "nreq": 1, "nresp": 1})
            box["mc2"] = tlc.run(wd, "Oscore.tla", "OS_mc2.cfg", timeout=900, workers=2)

        def run_smc():
            wd.write("OSS_mc.cfg", SESSION_MC_CFG % dict(sess_consts, strike="FALSE"))
            box["smc"] = tlc.run(wd, "OscoreSession.tla", "OSS_mc.cfg", timeout=1800 if quick else 3400, workers=max(2, (os.cpu_count() or 4) // 2))
            wd.write("OSS_mc2.cfg", SESSION_MC_CFG % dict(nreq=2, nresp=2, nburn=1, ndel=3, strike="TRUE"))
            box["smc2"] = tlc.run(wd, "OscoreSession.tla", "OSS_mc2.cfg", timeout=900, workers=2)

        th = threading.Thread(target=run_mc)
        th.start()
        th2 = threading.Thread(target=run_smc)
        th2.start()
        import time as _time

        phases = {}
        t0 = _time.time()

        def mark(name):
            nonlocal t0
            phases[name] = round(_time.time() - t0, 1)
            t0 = _time.time()

        wd.write("OS_sim.cfg", SIM_CFG)
        simdir = wd.file("sim")
        os.makedirs(simdir)
        sim = tlc.run(wd, "Oscore.tla", "OS_sim.cfg", workers=1, timeout=900, simulate="file=%s/tr,num=%d" % (simdir, nsim), depth=30 if quick else 40, seed=args.seed + 1)
        tlc.need_ok_run(sim, "Oscore simulation")
        behs = behaviours_from_sim(tlc.read_sim_traces(os.path.join(simdir, "tr")))
        mark("tlc_simulate_attacker")
        # sessions: stateful contexts, genuine traffic, hostile delivery order
        wd.write("OSS_sim.cfg", SESSION_SIM_CFG)
        ssimdir = wd.file("ssim")
        os.makedirs(ssimdir)
        ssim = tlc.run(wd, "OscoreSession.tla", "OSS_sim.cfg", workers=1, timeout=900, simulate="file=%s/tr,num=%d" % (ssimdir, nsess_sim), depth=30, seed=args.seed + 2)
        tlc.need_ok_run(ssim, "OscoreSession simulation")
        sessions = sessions_from_sim(tlc.read_sim_traces(os.path.join(ssimdir, "tr")), rng)
        mark("tlc_simulate_sessions")
        n_sess_sim = len(sessions)
        sessions += directed_sessions(rng, not quick)
        n_sess_directed = len(sessions) - n_sess_sim
        sessions += [random_session(rng) for _ in range(nsess_rand)]
        items = behs + samples(rng, nsamples, not quick)
        all_results = run_all(items + sessions)
        for it, res in zip(items + sessions, all_results):
            if "error" in res:
                raise MachineryError("driver failed on %s\n%s" % (json.dumps(it)[:500], res["error"]))
        results, sess_results = all_results[: len(items)], all_results[len(items) :]
        mark("drive_real_code")
        validated, distinct_records, ndrift, nviol_events = validate_and_report(rep, wd, items, results)
        mark("tlc_judge_results")
        sess_validated, sess_drift = validate_sessions(rep, wd, sessions, sess_results)
        mark("tlc_judge_sessions")
        th.join()
        th2.join()
        mark("wait_for_exhaustive_runs")
        phases["exhaustive_Oscore"] = round(box["mc"].wall + box["mc2"].wall, 1) if box.get("mc") and box.get("mc2") else None
        phases["exhaustive_OscoreSession"] = round(box["smc"].wall + box["smc2"].wall, 1) if box.get("smc") and box.get("smc2") else None
        mc, mc2, smc, smc2 = box.get("mc"), box.get("mc2"), box.get("smc"), box.get("smc2")
        if mc is None or mc2 is None or smc is None or smc2 is None:
            raise MachineryError("Oscore model check did not run")
        tlc.need_ok_run(mc, "Oscore model check")
        tlc.need_ok_run(mc2, "Oscore model check (kid optional)")
        tlc.need_ok_run(smc, "OscoreSession model check")
        tlc.need_ok_run(smc2, "OscoreSession model check (responses struck out)")
        if mc.violated:
            raise MachineryError("the RFC-shaped Oscore model violates %s: the specification is wrong" % mc.violated)
        if smc.violated:
            raise MachineryError("the RFC-shaped OscoreSession model violates %s: the specification is wrong" % smc.violated)
        if smc2.violated:
            rep.notes.append(
                "design-level counterexample (TLC): if responses with their own partial IV were struck out of the replay window the session model violates %s: %s"
                % (smc2.violated, json.dumps([st.get("act", {}).get("k") for _l, st in smc2.error_trace]))
            )
        else:
            raise MachineryError("OscoreSession with StrikeResponses = TRUE shows no counterexample: the session model does not see the window")
        if mc2.violated:
            rep.notes.append(
                "design-level counterexample (TLC): with a request's kid treated as optional (what the tree under test does) the model violates %s: %s"
                % (mc2.violated, json.dumps(mc2.error_trace[-1][1].get("act")) if mc2.error_trace else "")
            )
        beh_drift = 0
        for it, res in zip(items, results):
            for d in res["meta"].get("drift", ()):
                beh_drift += 1
                if beh_drift <= 4 and not rep.violations:
                    rep.add_drift("attacker behaviour: " + d)
        # coverage
        ev_all = [e for r in results for e in r["trace"]]
        deliveries = [e for e in ev_all if e["k"] == "deliver"]
        by_class = {}
        for e in deliveries:
            by_class[e["e"]] = by_class.get(e["e"], 0) + 1
        res_counts = {}
        for e in deliveries:
            key = e["res"] + (":" + e["why"] if e["why"] else "")
            res_counts[key] = res_counts.get(key, 0) + 1
        unexpected = {}
        for r in results:
            for u in r["meta"]["unexpected"]:
                unexpected.setdefault((u["exception"], u["role"], u["edit"]), u)
        smp = [x for x in items if "steps" not in x]
        # what the sessions exercised
        sit = {}
        sess_deliveries = 0
        for r in sess_results:
            for e in r["trace"]:
                if e["k"] in ("rx_req", "rx_resp"):
                    sess_deliveries += 1
                if e["k"] == "rx_resp" and e["own"]:
                    for part in e["situation"].split("+"):
                        key = "%s %s" % (e["kind"], part)
                        sit[key] = sit.get(key, 0) + 1
        need_sit = {"resp-ownpiv fresh", "resp-ownpiv duplicate", "resp-ownpiv below-window", "resp-ownpiv number-seen-in-window", "resp-ownpiv uninitialised-window", "resp-reuse nonce-reused"}
        rid_reuse = sum(r["meta"].get("requests_whose_identifiers_served_several_responses", 0) for r in sess_results)
        if rid_reuse:
            sit["same RequestIdentifiers object used for several responses"] = rid_reuse
        need_sit.add("same RequestIdentifiers object used for several responses")
        if need_sit - set(sit) and not rep.violations:
            raise MachineryError("session situations never exercised: %s" % sorted(need_sit - set(sit)))
        for it, res in zip(sessions, sess_results):
            if it["origin"] == "directed" and res["meta"]["drift"] and not rep.violations and len(rep.drift) < 6:
                rep.add_drift("directed session %s: %s" % (it.get("name"), res["meta"]["drift"][0]))
        need = {"none", "bitflip", "piv_other", "piv_remove", "piv_add", "piv_pad", "piv_long", "kid_other", "kid_remove", "kid_add_right", "kid_add_wrong", "kidctx_other", "kidctx_remove", "kidctx_add_right", "kidctx_add_wrong", "flag_group", "flag_reserved", "ct_corrupt", "ct_short", "ct_swap"}
        if need - set(by_class) and not rep.violations:
            raise MachineryError("manipulation classes never exercised: %s" % sorted(need - set(by_class)))
        rep.coverage.update(
            {
                "states": mc.distinct,
                "transitions": mc.generated,
                "depth": mc.depth,
                "mc_constants": {"IdCtxs": ["none", "g1"], "MaxReq": 2, "MaxResp": 2 if quick else 3, "KidOptional": False, "edits": 19, "recipients": ["peer", "foreign", "otherctx"]},
                "exhaustive": True,
                "phase_wall_s": phases,
                "design_counterexample_with_kid_optional": mc2.violated,
                "session_model": {
                    "states": smc.distinct, "transitions": smc.generated, "depth": smc.depth,
                    "constants": dict(sess_consts, Ws=[2], start=["window initialised/uninitialised x Echo recovery on/off, per endpoint"]),
                    "design_counterexample_if_responses_were_struck_out": smc2.violated,
                },
                "sessions_from_simulation": n_sess_sim,
                "sessions_directed": n_sess_directed,
                "sessions_random": nsess_rand,
                "sessions_validated_against_impl": sess_validated,
                "sessions_not_explained_by_model": sess_drift,
                "session_deliveries": sess_deliveries,
                "session_response_deliveries_by_receiver_state": dict(sorted(sit.items())),
                "session_window_sizes": sorted({x["W"] for x in sessions}),
                "sessions_on_file_backed_contexts": sum(1 for x in sessions if x.get("fs")),
                "attacker_behaviours_from_simulation": len(behs),
                "sample_messages": len(smp),
                "proxy_uri_requests": sum(1 for x in smp if "proxy_uri" in x["opts"]),
                "proxy_uri_requests_refused_by_protect": sum(r["meta"].get("proxy_uri_refused", 0) for r in results),
                "traces_validated_against_impl": validated,
                "distinct_result_records_judged_by_tlc": distinct_records,
                "results_violating_a_clause": nviol_events,
                "real_unprotect_calls": len(deliveries),
                "outer_messages_inspected": sum(1 for e in ev_all if e["k"] == "outer"),
                "deliveries_by_manipulation_class": dict(sorted(by_class.items())),
                "results": dict(sorted(res_counts.items())),
                "results_not_explained_by_model": ndrift,
                "behaviour_steps_differing_from_model": beh_drift,
                "codes_covered": sorted({x["code"] for x in smp}),
                "id_length_pairs": sorted({(len(x["cid"]) // 2, len(x["sid"]) // 2) for x in smp}),
                "id_contexts": sorted({"none" if x["idctx"] is None else "%d bytes" % (len(x["idctx"]) // 2) for x in smp}),
                "sequence_numbers": SEQS,
                "algorithms": sorted({x["alg"] or "AES-CCM-16-64-128" for x in smp}),
                "options_covered": sorted({o for x in smp for o in x["opts"]}),
                "exceptions_outside_the_protection_error_family": [
                    {k: u[k] for k in ("exception", "role", "edit", "mut", "option")} for u in unexpected.values()
                ],
                "distinct_nontrivial": len({(e["role"], e["e"], e["rcpt"], e["res"], e["why"], e["pivtag"], e["kid"], e["kidctx"], e["ct"]) for e in deliveries}),
                "samples": [
                    {"item": items[i] if "steps" not in items[i] else {"idc": items[i]["idc"], "steps": items[i]["steps"][:6]}, "events": [{k: e[k] for k in ("k", "role", "e", "rcpt", "own", "res", "why", "mut")} for e in results[i]["trace"][:6]]}
                    for i in (0, len(behs), len(items) - 1)
                ],
                "checker_cmd": "tlc Oscore.tla (Spec exhaustive, KidOptional FALSE and TRUE; -simulate) ; tlc OscoreTrace.tla on recorded results ; tlc OscoreSession.tla (exhaustive, StrikeResponses FALSE and TRUE; -simulate) ; tlc OscoreSessionTrace.tla on recorded sessions",
            }
        )
    rep.assumptions += [
        oscore_env.ASSUMPTION,
        "in-memory security contexts (real CanProtect/CanUnprotect/SecurityContextUtils code) as in tests/test_oscore.py; in the mutation part every delivery goes to a recipient with an empty replay window (replay protection of requests is C12's subject)",
        "sessions: two contexts (in-memory, or FilesystemSecurityContext on temporary directories) keep sender sequence numbers and replay windows while genuine requests/responses/notifications flow both ways and are delivered late, reordered, duplicated; only genuine unmodified messages are delivered there; whether a REQUEST is accepted is not judged there (C12), only that an accepted one equals the original and that nothing but ProtectionInvalid-family errors leaves unprotect",
        "the harness's own codec of the OSCORE option value (RFC 8613 section 6.1) classifies manipulated options for the model and applies field-level edits",
        "Group OSCORE, deterministic requests and Proxy-Uri requests (which protect() of the tree refuses) are not driven; outer code and outer options are not manipulated (the statement names ciphertext, partial IV, key ID, ID context)",
        "removing/adding a kid context or a response kid whose value the recipient takes from its own context anyway is not counted as a change of the ID context / key ID (RFC 8613 leaves these hints unauthenticated); either outcome is accepted for them",
    ]


if __name__ == "__main__":
    sys.exit(runner.main("C11", work))
