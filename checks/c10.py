import sys
from harness import runner
from checks import msgserver

def work(rep, args):
    msgserver.check(rep, args, "C10_", "c10")

if __name__ == "__main__":
    sys.exit(runner.main("C10", work))
