"""C13 -- OSCORE nonces are never reused across restarts, crashes and exhaustion.

1. TLC checks spec/SeqPersist.tla exhaustively (chunk start 1..2, limit 4,
   scaled MAX_SEQNO 5, <= 6 protects, unprotects, crashes between any two
   file-system effects of _store, clean shutdowns, reloads; a second run in
   which a fresh request may skip 2w-2, 2w-1 or 2w numbers, so that the
   replay window is shifted / left behind as a whole).
2. spec -> code: TLC-simulated behaviours of that model are executed step by
   step on the real FilesystemSecurityContext in a temporary directory; the
   crash points of the model are injected by wrapping the os / tempfile / io
   names as seen from aiocoap.oscore (the k-th file-system effect raises a
   Crash(BaseException); the crashed object is abandoned without _destroy and
   its lock dropped; a new context is loaded from the directory).
3. Systematic crash-point scenarios, scenarios whose first accepted request
   lies far beyond the persisted window (jump_schedules), long random
   histories with the default chunk sizes (10 .. 10000) and MAX_SEQNO
   boundary runs from a hand-written sequence.json are driven the same way.
   The context is driven in both directions: accepted requests are answered
   (protect(response, request_id)), Echo errors rendered (to_message()), the
   peer's responses to its own requests unprotected; the nonce of every
   encryption it performs is recorded as (generator id, partial IV).
4. code -> spec: every recorded history (nonces, issued partial IVs, accept/reject,
   crash/clean/load, projection of memory and directory) is validated by TLC
   against SeqPersistTrace.tla: the clauses are evaluated on the real history;
   outcome and projection are compared with the model (difference = DRIFT)."""

import io as _io
import json
import os as _os
import random
import shutil
import sys
import tempfile as _tempfile
from multiprocessing import Pool

from harness import tlc, MachineryError, runner, oscore_env, VERIF
import re

MC_CFG = """SPECIFICATION Spec
CONSTANTS
  ChunkStarts = %(cs)s
  ChunkLimit = 4
  MaxSeq = 5
  WSize = 2
  Jumps = %(jumps)s
  MaxJump = %(nj)d
  MaxProtect = %(np)d
  MaxUnprotect = %(nu)d
  MaxCrash = %(nc)d
  MaxClean = %(nk)d
  MaxRespond = %(nr)d
  MaxResponse = %(nq)d
VIEW View
INVARIANT NoBad
INVARIANT C13_NoReuse
INVARIANT C13_StrictlyIncreasing
INVARIANT C13_RefuseAtMax
INVARIANT C13_UncleanMeansUnknown
INVARIANT C13_CleanKeepsWindow
INVARIANT IssuedBelowDisk
INVARIANT MemoryBelowPersisted
INVARIANT KnownWindowIsAccurate
INVARIANT ReusableNonceIsUnused
"""

SIM_CFG = """SPECIFICATION Spec
CONSTANTS
  ChunkStarts = {1, 2, 3}
  ChunkLimit = 4
  MaxSeq = 9
  WSize = 2
  Jumps = {0, 2, 3, 4}
  MaxJump = 2
  MaxProtect = 12
  MaxUnprotect = 6
  MaxCrash = 4
  MaxClean = 3
  MaxRespond = 5
  MaxResponse = 2
INVARIANT NoBad
"""

TRACE_CFG = """SPECIFICATION TSpec
CONSTANTS
  ChunkStarts = {1}
  ChunkLimit = 4
  MaxSeq = 5
  WSize = 2
  Jumps = {0}
  MaxJump = 0
  MaxProtect = 1
  MaxUnprotect = 1
  MaxCrash = 1
  MaxClean = 1
  MaxRespond = 1
  MaxResponse = 1
INVARIANT Report
CHECK_DEADLOCK FALSE
"""

REAL_MAX = 2**40 - 1  # the number the statement says must be refused
FAR = 2**30  # "unreachable" bound for traces that stay far from exhaustion (TLC integers are 32 bit)
SECRET = "0102030405060708090a0b0c0d0e0f10"
SALT = "9e7ca92223786340"
STALE = b"\xa5" * 8
EFFECTS = ("mkstemp", "write", "fsync", "replace")

_G = {}


def _env():
    if "oscore" not in _G:
        oscore = oscore_env.setup()
        import aiocoap

        _G["oscore"] = oscore
        _G["aiocoap"] = aiocoap
        _G["cls"] = oscore_env.make_context_class(oscore)
    return _G["oscore"], _G["aiocoap"]


class Crash(BaseException):
    """The process dies here."""


class Injector:
    """Wraps the names os / tempfile / io as seen from aiocoap.oscore, counts
    the file-system effects of _store and raises Crash right after the c-th
    one (c = 0: right before the first)."""

    def __init__(self):
        self.armed = None
        self.done = 0
        self.log = []
        self.fds = set()
        inj = self

        class OsProxy:
            def __getattr__(self, name):
                return getattr(_os, name)

            def fsync(self, fd):
                return inj.effect("fsync", lambda: _os.fsync(fd))

            def replace(self, a, b, **kw):
                return inj.effect("replace", lambda: _os.replace(a, b, **kw))

            def rename(self, a, b, **kw):
                return inj.effect("replace", lambda: _os.rename(a, b, **kw))

        class TempfileProxy:
            def __getattr__(self, name):
                return getattr(_tempfile, name)

            def mkstemp(self, *a, **kw):
                def do():
                    fd, name = _tempfile.mkstemp(*a, **kw)
                    inj.fds.add(fd)
                    return fd, name

                return inj.effect("mkstemp", do)

        class FileProxy:
            def __init__(self, real, fd):
                self._real = real
                self._fd = fd

            def __getattr__(self, name):
                return getattr(self._real, name)

            def flush(self):
                return inj.effect("write", self._real.flush)

            def close(self):
                inj.fds.discard(self._fd)
                return self._real.close()

            def __enter__(self):
                return self

            def __exit__(self, *a):
                self.close()
                return False

        class IoProxy:
            def __getattr__(self, name):
                return getattr(_io, name)

            def open(self, file, *a, **kw):
                real = _io.open(file, *a, **kw)
                if isinstance(file, int):
                    return FileProxy(real, file)
                return real

        self.proxies = {"os": OsProxy(), "tempfile": TempfileProxy(), "io": IoProxy()}

    def effect(self, kind, fn):
        if self.armed == 0 and self.done == 0:
            raise Crash()
        r = fn()
        self.done += 1
        self.log.append(kind)
        if self.armed is not None and self.done == self.armed:
            raise Crash()
        return r

    def arm(self, c):
        self.armed = c
        self.done = 0

    def disarm(self):
        self.armed = None
        self.done = 0

    def reap(self):
        """What the operating system does for a dead process: close its descriptors."""
        for fd in list(self.fds):
            try:
                _os.close(fd)
            except OSError:
                pass
        self.fds.clear()

    def install(self, oscore):
        self.saved = {k: getattr(oscore, k) for k in self.proxies}
        for k, v in self.proxies.items():
            setattr(oscore, k, v)

    def uninstall(self, oscore):
        for k, v in self.saved.items():
            setattr(oscore, k, v)


def piv_of(outer):
    o = outer.opt.oscore
    n = o[0] & 7
    return int.from_bytes(o[1 : 1 + n], "big")


class Driver:
    """One directory, one peer, a sequence of lifetimes of the file-backed context."""

    def __init__(self, sch):
        self.oscore, self.aiocoap = _env()
        self.sch = sch
        self.base = sch.get("base", 0)
        self.dir = _tempfile.mkdtemp(prefix="verif-c13-")
        with open(_os.path.join(self.dir, "settings.json"), "w") as f:
            json.dump({"sender-id_hex": "01", "recipient-id_hex": "", "secret_hex": SECRET, "salt_hex": SALT, "window": sch["w"]}, f)
        if sch.get("seqfile") is not None:
            with open(_os.path.join(self.dir, "sequence.json"), "w") as f:
                json.dump(sch["seqfile"], f)
        self.peer = oscore_env.new_context(self.oscore, b"", b"\x01", window=sch["w"], cls=_G["cls"])
        self.inj = Injector()
        self.ctx = None
        self.sent = {}  # request number -> (wire bytes, lifetime, echo label) for unchanged replays
        self.life = 0
        self.learned_echo = None
        self.rids = {}  # request number -> request_id of its acceptance in this lifetime
        self.echo_err = None  # (request number, ReplayErrorWithEcho) waiting to be rendered
        self.last_req = None  # [outer, request_id, the peer's request_id] of the last request protected in this lifetime
        self.enc = []  # (generator, partial IV) of the nonce of every encryption done with the sender key
        self.nresp = 0
        self.trace = []
        self.notes = []
        self.stores = []

    # -- projection ------------------------------------------------------------
    def proj(self):
        p = {"ssn": -1, "winit": -1, "dex": 0, "dnext": 0, "dunk": 0, "tmp": 0}
        if self.ctx is not None:
            try:
                p["ssn"] = self.ctx.sender_sequence_number - self.base
            except AttributeError:
                p["ssn"] = -2
            try:
                p["winit"] = 1 if self.ctx.recipient_replay_window.is_initialized() else 0
            except AttributeError:
                p["winit"] = -1
        try:
            with open(_os.path.join(self.dir, "sequence.json")) as f:
                d = json.load(f)
            p["dex"] = 1
            p["dnext"] = int(d["next-to-send"]) - self.base
            p["dunk"] = 1 if d["received"] == "unknown" else 0
        except FileNotFoundError:
            pass
        except (ValueError, KeyError, TypeError) as e:
            p["dex"] = -1
            self.notes.append("sequence.json unreadable: %r" % (e,))
        p["tmp"] = sum(1 for f in _os.listdir(self.dir) if f.startswith(".sequence-"))
        for k in ("dnext", "ssn"):
            if not -FAR < p[k] < FAR:
                # far away from where this history takes place (TLC integers are 32 bit): clipped, noted
                self.notes.append("%s = %d (relative to %d) is outside the range of this history" % (k, p[k], self.base))
                p[k] = max(-FAR + 1, min(FAR - 1, p[k]))
        return p

    def emit(self, k, out, n=-1, echo="none", c=-1, reg="none", rn=-1):
        e = {"k": k, "out": out, "n": n, "rn": rn, "echo": echo, "c": c, "reg": reg, "cs": self.sch["cs"], "cl": self.sch["cl"], "mx": self.sch["mx"], "w": self.sch["w"]}
        e.update(self.proj())
        self.trace.append(e)

    # -- lifetime ----------------------------------------------------------------
    def abandon(self):
        """The process died: no destructor, no _destroy; the kernel drops lock and descriptors."""
        ctx, self.ctx = self.ctx, None
        lock = getattr(ctx, "lockfile", None)
        ctx.lockfile = None
        if lock is not None:
            lock.release()
        self.inj.reap()
        self.inj.disarm()
        self.forget()

    def forget(self):
        """What lived in the memory of the process that is gone."""
        self.learned_echo = None
        self.rids = {}
        self.echo_err = None
        self.last_req = None

    def watch_encryptions(self):
        """Every AEAD encryption of this context is recorded with the nonce it uses, taken apart into
        (who generated the partial IV, partial IV) as RFC 8613 5.2 composes it."""
        drv, ctx = self, self.ctx
        real = ctx.alg_aead

        def encrypt(cls, plaintext, aad, key, iv):
            drv.enc.append(drv.nonce_pair(ctx, key, iv))
            return real.encrypt(plaintext, aad, key, iv)

        ctx.alg_aead = type("Recording" + type(real).__name__, (type(real),), {"encrypt": classmethod(encrypt)})()

    @staticmethod
    def nonce_pair(ctx, key, nonce):
        try:
            if key != ctx.sender_key:
                return ("other-key", -1)
            comp = bytes(a ^ b for a, b in zip(nonce, ctx.common_iv))
            idlen = comp[0]
            gen = comp[len(comp) - 5 - idlen : len(comp) - 5]
            if any(comp[1 : len(comp) - 5 - idlen]):
                return ("malformed", -1)
            who = "own" if gen == ctx.sender_id else "peer" if gen == ctx.recipient_id else "other"
            return (who, int.from_bytes(comp[-5:], "big"))
        except Exception:
            return ("unreadable", -1)

    def guarded(self, c, fn):
        """Run fn with the crash point armed; returns ('ok', result) | ('crashed', effects done)."""
        n0 = len(self.inj.log)
        if c is not None:
            self.inj.arm(c)
        try:
            r = fn()
        except Crash:
            done = len(self.inj.log) - n0
            self.abandon()
            return "crashed", done
        finally:
            self.inj.disarm()
        eff = self.inj.log[n0:]
        if eff:
            self.stores.append(tuple(eff))
        return "ok", r

    def op_load(self, op):
        if self.ctx is not None:
            return
        try:
            self.ctx = self.oscore.FilesystemSecurityContext(self.dir, sequence_number_chunksize_start=self.sch["cs"], sequence_number_chunksize_limit=self.sch["cl"])
        except Exception as e:
            self.notes.append("loading the context failed: %r" % (e,))
            self.emit("load", "error")
            return
        self.life += 1
        self.forget()
        try:
            self.watch_encryptions()
        except Exception as e:
            self.notes.append("encryptions can not be watched: %r" % (e,))
        self.emit("load", "ok")

    def op_crash(self, op):
        if self.ctx is None:
            return
        self.abandon()
        self.emit("crash", "crashed", c=0)

    def op_protect(self, op):
        if self.ctx is None:
            return
        count = op.get("count", 1)
        crash = op.get("crash")
        for i in range(count):
            msg = self.aiocoap.Message(code=self.aiocoap.GET, uri_path=("x",))

            def do():
                return self.ctx.protect(msg)

            try:
                st, r = self.guarded(crash, do)
            except self.oscore.ContextUnavailable:
                self.emit("protect", "refused")
                continue
            except Exception as e:  # neither a number nor a refusal: recorded, judged by nobody
                self.notes.append("protect raised %r" % (e,))
                self.emit("protect", "error")
                continue
            if st == "crashed":
                self.emit("protect", "crashed", c=r)
                return
            outer, rid = r
            self.last_req = [outer, rid, None]
            if self.enc and self.enc[-1] != ("own", piv_of(outer)):
                self.notes.append("request with partial IV %d encrypted with the nonce of %r" % (piv_of(outer), self.enc[-1]))
            del self.enc[:-1]
            n = piv_of(outer) - self.base
            if not -FAR < n < FAR:
                self.notes.append("issued number %d (relative to %d) is outside the range of this history" % (n, self.base))
                n = max(-FAR + 1, min(FAR - 1, n))
            self.emit("protect", "issued", n=n)

    def request_wire(self, n, echo):
        """Returns (wire, effective Echo label).  A number sent before is replayed unchanged."""
        if n in self.sent:
            wire, life, label = self.sent[n]
            if label == "fresh" and life != self.life:
                label = "stale"  # carries the Echo value of a process that is gone
            return wire, label
        a = self.aiocoap
        msg = a.Message(code=a.POST, uri_path=("r",), payload=b"%d" % n)
        if echo == "fresh":
            msg.opt.echo = self.learned_echo or getattr(self.ctx, "echo_recovery", None) or STALE
        elif echo == "stale":
            msg.opt.echo = STALE
        self.peer.sender_sequence_number = n
        outer, _ = self.peer.protect(msg)
        outer.mtype, outer.mid, outer.token = a.NON, n & 0xFFFF, b""
        self.sent[n] = (outer.encode(), self.life, echo)
        return self.sent[n][0], echo

    def regime(self, n):
        """Coverage only (never judged): where the request number lies relative to the window the
        context holds right now -- inside / shift (overshoot < size: part of the window survives) /
        past (n >= index + 2*size - 1: the whole window is left behind) -- prefixed with 'known-'
        while sequence.json still vouches for a window (no file yet, or received != "unknown")."""
        try:
            w = self.ctx.recipient_replay_window
            if not w.is_initialized():
                return "uninit"
            index = int(w.persist()["index"])
        except Exception:
            return "none"
        size = self.sch["w"]
        over = n - (index + size - 1)
        r = "inside" if over <= 0 else "shift" if over < size else "past"
        last = self.trace[-1]
        return ("known-" if last["dex"] == 0 or (last["dex"] == 1 and last["dunk"] == 0) else "") + r

    def op_unprotect(self, op):
        if self.ctx is None:
            return
        n = op["n"]
        wire, echo = self.request_wire(n, op.get("echo", "none"))
        incoming = self.aiocoap.Message.decode(wire)
        reg = self.regime(n)

        def do():
            return self.ctx.unprotect(incoming)

        try:
            st, r = self.guarded(op.get("crash"), do)
        except self.oscore.ReplayErrorWithEcho as e:
            self.learned_echo = e.echo
            self.echo_err = (n, e)
            self.emit("unprotect", "reject", n=n, echo=echo, reg=reg)
            return
        except self.oscore.ProtectionInvalid:
            self.emit("unprotect", "reject", n=n, echo=echo, reg=reg)
            return
        except Exception as e:
            self.notes.append("unprotect raised %r" % (e,))
            self.emit("unprotect", "reject", n=n, echo=echo, reg=reg)
            return
        if st == "crashed":
            self.emit("unprotect", "crashed", n=n, echo=echo, c=r, reg=reg)
            return
        self.rids[n] = r[1]
        self.emit("unprotect", "accept", n=n, echo=echo, reg=reg)

    # -- the other direction: responses the context protects / unprotects -----------------------------
    def rel(self, n):
        n -= self.base
        if not -FAR < n < FAR:
            self.notes.append("issued number %d (relative to %d) is outside the range of this history" % (n, self.base))
            n = max(-FAR + 1, min(FAR - 1, n))
        return n

    def answer(self, k, rn, crash, do):
        """A message protected in answer to the request rn: which nonce was it encrypted with?"""
        n0 = len(self.enc)
        try:
            st, r = self.guarded(crash, do)
        except self.oscore.ContextUnavailable:
            self.emit(k, "refused", rn=rn)
            return
        except Exception as e:
            self.notes.append("%s raised %r" % (k, e))
            self.emit(k, "error", rn=rn)
            return
        if st == "crashed":
            self.emit(k, "crashed", c=r, rn=rn)
            return
        used = self.enc[n0:]
        if len(used) == 1 and used[0][0] == "own":
            self.emit(k, "issued", n=self.rel(used[0][1]), rn=rn)
        elif len(used) == 1 and used[0][0] == "peer":
            self.emit(k, "reused", n=used[0][1], rn=rn)
        else:
            self.notes.append("%s for request %d: encryptions %r" % (k, rn, used))
            self.emit(k, "error", rn=rn)

    def op_respond(self, op):
        """The application answers a request accepted in this lifetime (as oscore_sitewrapper does)."""
        if self.ctx is None or op["n"] not in self.rids:
            return
        rid = self.rids[op["n"]]
        self.nresp += 1
        msg = self.aiocoap.Message(code=self.aiocoap.CONTENT, payload=b"answer %d" % self.nresp)
        ctx = self.ctx
        self.answer("respond", op["n"], op.get("crash"), lambda: ctx.protect(msg, rid))

    def op_echoerr(self, op):
        """The 4.01 + Echo for the last request turned down for lack of a known window is rendered."""
        if self.ctx is None or self.echo_err is None:
            return
        (rn, err), self.echo_err = self.echo_err, None
        self.answer("echoerr", rn, op.get("crash"), err.to_message)

    def op_response(self, op):
        """The peer answers the last request this lifetime has sent, re-using the request's nonce
        (piv None) or with the number `piv` of its own; the context unprotects the response."""
        if self.ctx is None:
            return
        if self.last_req is None:
            self.op_protect({"op": "protect"})
            if self.ctx is None or self.last_req is None:
                return
        a = self.aiocoap
        outer, rid, peer_rid = self.last_req
        piv = op.get("piv")
        try:
            if peer_rid is None:
                outer.mtype, outer.mid, outer.token = a.NON, 1, b""
                _, peer_rid = self.peer.unprotect(a.Message.decode(outer.encode()))
                self.last_req[2] = peer_rid
            peer_rid.can_reuse_nonce = piv is None
            if piv is not None:
                self.peer.sender_sequence_number = piv
            self.nresp += 1
            router, _ = self.peer.protect(a.Message(code=a.CONTENT, payload=b"reply %d" % self.nresp), peer_rid)
            router.mtype, router.mid, router.token = a.NON, 2, b""
            incoming = a.Message.decode(router.encode())
        except Exception as e:
            self.notes.append("the peer could not answer the request: %r" % (e,))
            return
        try:
            self.ctx.unprotect(incoming, rid)
        except Exception as e:
            self.notes.append("unprotecting a response raised %r" % (e,))
            self.emit("response", "reject", n=-1 if piv is None else piv)
            return
        self.emit("response", "ok", n=-1 if piv is None else piv)

    def op_clean(self, op):
        if self.ctx is None:
            return
        ctx = self.ctx
        try:
            st, r = self.guarded(op.get("crash"), ctx._destroy)
        except Exception as e:
            self.notes.append("_destroy raised %r" % (e,))
            self.abandon()
            self.emit("clean", "crashed", c=0)
            return
        if st == "crashed":
            self.emit("clean", "crashed", c=r)
            return
        self.ctx = None
        self.inj.reap()
        self.forget()
        self.emit("clean", "done")

    def run(self):
        s = self.sch
        start = {"k": "start", "out": "start", "n": -1, "rn": -1, "echo": "none", "c": -1, "reg": "none", "cs": s["cs"], "cl": s["cl"], "mx": s["mx"], "w": s["w"]}
        self.inj.install(self.oscore)
        try:
            start.update(self.proj())
            self.trace.append(start)
            for op in s["ops"]:
                getattr(self, "op_" + op["op"])(op)
        finally:
            self.inj.uninstall(self.oscore)
            if self.ctx is not None:
                try:
                    self.abandon()
                except Exception:
                    pass
            shutil.rmtree(self.dir, ignore_errors=True)
        return {"trace": self.trace, "meta": {"notes": self.notes, "stores": sorted(set(self.stores))}}


def run_schedule(sch):
    return Driver(sch).run()


def _run(s):
    try:
        return run_schedule(s)
    except MachineryError as e:
        return {"error": "MachineryError: %s" % e}
    except Exception:
        import traceback

        return {"error": traceback.format_exc()}


def run_all(scheds):
    if not scheds:
        return []
    _env()
    if len(scheds) < 200:
        return [_run(s) for s in scheds]
    with Pool(min(8, _os.cpu_count() or 4)) as p:
        return p.map(_run, scheds, chunksize=max(1, len(scheds) // 64))


# -- spec -> code: model behaviours to API-level operations -----------------------------
def ops_from_steps(steps):
    """steps: the model's `act` values along a behaviour."""
    ops = []
    pending = None
    effects = 0
    for a in steps:
        k = a["k"]
        if k == "load":
            ops.append({"op": "load"})
        elif k == "refused":
            ops.append({"op": "protect"})
        elif k == "protect":
            pending, effects = {"op": "protect"}, 0
        elif k == "unprotect":
            pending, effects = {"op": "unprotect", "n": a["n"], "echo": a["echo"]}, 0
        elif k == "reject":
            ops.append({"op": "unprotect", "n": a["n"], "echo": a["echo"]})
        elif k == "cleanbegin":
            pending, effects = {"op": "clean"}, 0
        elif k in ("reused", "norespond"):
            ops.append({"op": "respond", "n": a["n"]})
        elif k == "respond":
            pending, effects = {"op": "respond", "n": a["n"]}, 0
        elif k == "echoerr":
            pending, effects = {"op": "echoerr"}, 0
        elif k == "noechoerr":
            ops.append({"op": "echoerr"})
        elif k == "response":
            ops.append({"op": "response", "piv": a["n"] if a["echo"] == "piv" else None})
        elif k == "effect":
            effects += 1
        elif k in ("issued", "accept", "clean"):
            if pending is not None:
                ops.append(pending)
            pending = None
        elif k == "crash":
            if pending is not None and (effects > 0 or a["n"] == 0):
                # an operation with a store in flight: a["n"] effects were done
                ops.append(dict(pending, crash=a["n"]))
            else:
                # between operations, or inside one that touches no file: only memory is lost
                ops.append({"op": "crash"})
            pending = None
    if pending is not None:
        # behaviour cut inside an operation: let the process die there
        ops.append(dict(pending, crash=effects) if effects > 0 else {"op": "crash"})
    return ops


def read_behaviours(prefix):
    """The files written by -simulate file=<prefix>, reduced to what the driver needs: the model's `act`
    of every state and `s` (the constants in force) of the first one.  (tlc.read_sim_traces parses every
    variable of every state, which costs more than generating and driving the behaviours together.)"""
    import glob

    from harness import tlaval

    out = []
    files = sorted(glob.glob(prefix + "_*"), key=lambda f: [int(x) for x in re.findall(r"\d+", _os.path.basename(f))])
    for f in files:
        text = open(f).read()
        parts = re.split(r"^STATE_(\d+) ==", text, flags=re.M)
        beh = []
        for k in range(1, len(parts), 2):
            body = parts[k + 1]
            st = {}
            for var in ("act", "s") if k == 1 else ("act",):
                m = re.search(r"^/\\ %s = " % var, body, flags=re.M)
                if m is None:
                    raise MachineryError("simulated behaviour %s: state %s without %s" % (f, parts[k], var))
                st[var], _ = tlaval.parse_prefix(body, m.end())
            beh.append(("?", st))
        out.append(beh)
    return out


def schedules_from_behaviours(behs):
    out = []
    for beh in behs:
        if len(beh) < 2:
            continue
        s0 = beh[0][1]["s"]
        steps = [st["act"] for _l, st in beh[1:]]
        ops = ops_from_steps(steps)
        if ops:
            out.append({"cs": s0["cs"], "cl": s0["cl"], "mx": FAR, "w": s0["w"], "ops": ops, "origin": "sim"})
    return out


def scaled_max_schedules(behs):
    """The same behaviours positioned so that the model's MaxSeq is the real MAX_SEQNO."""
    out = []
    for beh in behs:
        if len(beh) < 2:
            continue
        s0 = beh[0][1]["s"]
        steps = [st["act"] for _l, st in beh[1:]]
        if not any(a["k"] == "refused" for a in steps):
            continue
        ops = ops_from_steps(steps)
        mx = s0["mx"]
        base = REAL_MAX - mx
        # the directory starts with a hand-written sequence.json at the base (relative 0)
        out.append(
            {
                "cs": s0["cs"], "cl": s0["cl"], "mx": mx, "w": s0["w"], "base": base, "ops": ops, "origin": "sim-at-max",
                "seqfile": {"next-to-send": base, "received": {"index": 0, "bitfield": 0}},
            }
        )
    return out


# -- systematic crash-point scenarios ------------------------------------------------------
def systematic_schedules():
    out = []
    # (both directions: accepted requests are answered -- the first answer re-uses the request's nonce --, the
    # 4.01 + Echo for requests turned down by an unknown window is rendered, and after every reload the peer's
    # plain response to a request of the new lifetime is unprotected before earlier requests are replayed)
    tail = [
        {"op": "load"}, {"op": "protect", "count": 3}, {"op": "response"}, {"op": "unprotect", "n": 0}, {"op": "echoerr"}, {"op": "unprotect", "n": 1},
        {"op": "unprotect", "n": 7, "echo": "fresh"}, {"op": "respond", "n": 7}, {"op": "unprotect", "n": 0}, {"op": "unprotect", "n": 7, "echo": "fresh"},
        {"op": "protect", "count": 2}, {"op": "clean"}, {"op": "load"}, {"op": "unprotect", "n": 7, "echo": "fresh"},
        {"op": "unprotect", "n": 1}, {"op": "unprotect", "n": 8}, {"op": "respond", "n": 8}, {"op": "respond", "n": 8}, {"op": "protect", "count": 2}, {"op": "crash"},
        {"op": "load"}, {"op": "protect", "count": 1}, {"op": "response"}, {"op": "unprotect", "n": 8}, {"op": "echoerr"}, {"op": "protect", "count": 2},
    ]
    for cs, cl in ((1, 4), (2, 4), (10, 10000), (3, 3)):
        for pre in (0, 1, cs, cs + 1):
            for c in range(5):
                head = [{"op": "load"}, {"op": "unprotect", "n": 0}, {"op": "respond", "n": 0}, {"op": "protect", "count": pre}]
                out.append({"cs": cs, "cl": cl, "mx": FAR, "w": 32, "ops": head + [{"op": "protect", "count": cs + 1, "crash": c}] + tail, "origin": "systematic"})
                out.append({"cs": cs, "cl": cl, "mx": FAR, "w": 32, "ops": head + [{"op": "clean", "crash": c}] + tail, "origin": "systematic"})
                # first unprotect of a lifetime loaded from a clean stop stores "unknown"
                out.append({"cs": cs, "cl": cl, "mx": FAR, "w": 32, "ops": head + [{"op": "clean"}, {"op": "load"}, {"op": "unprotect", "n": 1, "crash": c}] + tail, "origin": "systematic"})
                # very first unprotect on a fresh directory
                out.append({"cs": cs, "cl": cl, "mx": FAR, "w": 32, "ops": [{"op": "load"}, {"op": "unprotect", "n": 0, "crash": c}] + tail, "origin": "systematic"})
    return out


def response_schedules():
    """The context in both roles around a stop: requests 0, 1, 2 are accepted and answered (the first answer
    to each re-uses the request's nonce, a second one takes a number of the context's own), the lifetime ends
    (crash / clean stop / crash inside the clean stop / crash inside an answer), the successor sends a request
    and unprotects the peer's response -- without a partial IV, or with the fresh peer number 20 -- before or
    after the earlier requests are replayed; every request turned down for lack of a known window gets its
    4.01 + Echo rendered."""
    out = []
    for w, (cs, cl) in ((32, (10, 10000)), (2, (1, 4))):
        for piv in (None, 20):
            for ending in ([{"op": "crash"}], [{"op": "clean"}], [{"op": "clean", "crash": 2}], [{"op": "respond", "n": 2, "crash": 1}, {"op": "crash"}]):
                for early in (True, False):
                    ops = [{"op": "load"}]
                    for n in (0, 1, 2):
                        ops += [{"op": "unprotect", "n": n}, {"op": "respond", "n": n}]
                    ops += [{"op": "respond", "n": 1}] + ending + [{"op": "load"}, {"op": "protect", "count": 1}]
                    replays = []
                    for n in (1, 2, 0, 1):
                        replays += [{"op": "unprotect", "n": n}, {"op": "echoerr"}, {"op": "respond", "n": n}]
                    resp = [{"op": "response", "piv": piv}]
                    ops += (resp + replays) if early else (replays[:6] + resp + replays[6:])
                    ops += [
                        {"op": "unprotect", "n": 21, "echo": "fresh"}, {"op": "respond", "n": 21}, {"op": "respond", "n": 21}, {"op": "unprotect", "n": 22},
                        {"op": "respond", "n": 22}, {"op": "response", "piv": 23}, {"op": "crash"}, {"op": "load"}, {"op": "unprotect", "n": 22}, {"op": "echoerr"},
                        {"op": "unprotect", "n": 22}, {"op": "echoerr"}, {"op": "response"}, {"op": "unprotect", "n": 21}, {"op": "echoerr"},
                    ]
                    out.append({"cs": cs, "cl": cl, "mx": FAR, "w": w, "ops": ops, "origin": "response"})
    return out


def jump_schedules():
    """Request numbers far beyond the window.  The FIRST request a lifetime accepts while sequence.json
    still vouches for its window (fresh directory; loaded after a clean stop, window at 0 or moved)
    lies at index + j with j = 2w-2 (the window still shifts), 2w-1 (the first number that leaves the
    whole window behind), 2w and far more (lost messages; a peer that restarted and skipped its own
    chunk).  The process dies at every crash point of the store this change of the window causes,
    right after the request, or after further protects that store nothing; the very request is
    replayed to the reloaded context, followed by Echo recovery, a clean stop and another crash."""
    out = []
    for w, (cs, cl) in ((32, (10, 10000)), (2, (3, 8))):
        # (window 2 as in the model, whose simulated behaviours skip 2, 3, 4 numbers as well)
        jumps = [2 * w - 2, 2 * w - 1, 2 * w] + ([3 * w + 7, 5000, 2**20 + 3] if w == 32 else [])
        heads = [
            ([{"op": "load"}], 0),
            ([{"op": "load"}, {"op": "unprotect", "n": 0}, {"op": "unprotect", "n": 1}, {"op": "protect", "count": 2}, {"op": "clean"}, {"op": "load"}], 0),
            ([{"op": "load"}, {"op": "unprotect", "n": 0}, {"op": "unprotect", "n": w + 8}, {"op": "protect", "count": 1}, {"op": "clean"}, {"op": "load"}], 9),
        ]
        for head, index in heads:
            for j in jumps:
                n = index + j
                middles = [[{"op": "unprotect", "n": n, "crash": c}, {"op": "crash"}] for c in range(5)]
                middles.append([{"op": "unprotect", "n": n}, {"op": "crash"}])
                # the chunk store of this lifetime happens before the request, none after it
                middles.append([{"op": "protect", "count": 1}, {"op": "unprotect", "n": n}, {"op": "protect", "count": cs - 1}, {"op": "crash"}])
                tail = [
                    {"op": "load"}, {"op": "unprotect", "n": n}, {"op": "unprotect", "n": n + 1}, {"op": "unprotect", "n": n + 2, "echo": "fresh"},
                    {"op": "unprotect", "n": n}, {"op": "protect", "count": 2}, {"op": "clean"}, {"op": "load"}, {"op": "unprotect", "n": n},
                    {"op": "unprotect", "n": n + 2}, {"op": "unprotect", "n": n + 3}, {"op": "crash"}, {"op": "load"}, {"op": "unprotect", "n": n + 3}, {"op": "unprotect", "n": n},
                ]
                for mid in middles:
                    out.append({"cs": cs, "cl": cl, "mx": FAR, "w": w, "ops": head + mid + tail, "origin": "jump"})
    return out


def boundary_schedules(rng, count):
    """MAX_SEQNO boundary: hand-written sequence.json close to 2^40-1."""
    out = []
    for i in range(count):
        k = [0, 1, 2, 3, 5, 15, 30][i % 7]
        span = 60
        base = REAL_MAX - span
        cs, cl = rng.choice([(10, 10000), (1, 4), (2, 4), (7, 20)])
        received = rng.choice(["unknown", {"index": 0, "bitfield": 0}])
        ops = [{"op": "load"}]
        peer_next = 0
        for _ in range(rng.randint(2, 5)):
            if rng.random() < 0.6:
                # the receiving side next to the sender's exhaustion: the first request of the lifetime,
                # consecutive or around / far beyond 2*window-1 ahead of the window in the hand-written file
                n = peer_next + rng.choice([0, 1, 62, 63, 64, 2**20])
                peer_next = n + 1
                ops.append({"op": "unprotect", "n": n, "echo": rng.choice(["none", "fresh"]), "crash": rng.choice([None, None, 0, 1, 2, 3, 4])})
                if rng.random() < 0.5:
                    ops += [{"op": "crash"}, {"op": "load"}, {"op": "unprotect", "n": n}]
                # answers next to exhaustion: the re-used nonce costs no number, the second answer and the 4.01 do
                ops += [{"op": "echoerr"}, {"op": "respond", "n": n}, {"op": "respond", "n": n, "crash": rng.choice([None, None, 1, 3])}]
            ops.append({"op": "protect", "count": rng.randint(1, k + 4), "crash": rng.choice([None, None, 0, 1, 2, 3, 4])})
            ops.append(rng.choice([{"op": "crash"}, {"op": "clean"}, {"op": "clean", "crash": rng.randint(0, 4)}, {"op": "protect", "count": 2}]))
            ops.append({"op": "load"})
        ops.append({"op": "protect", "count": k + 3})
        ops += [{"op": "unprotect", "n": peer_next}, {"op": "echoerr"}, {"op": "respond", "n": peer_next}, {"op": "respond", "n": peer_next}]
        ops += [{"op": "clean"}, {"op": "load"}, {"op": "protect", "count": 2}]
        out.append({"cs": cs, "cl": cl, "mx": span, "w": 32, "base": base, "ops": ops, "origin": "boundary", "seqfile": {"next-to-send": REAL_MAX - k, "received": received}})
    return out


def random_schedule(rng, long_run=False):
    """Default chunk sizes, default window; several lifetimes."""
    cs, cl = (10, 10000) if long_run or rng.random() < 0.7 else rng.choice([(1, 4), (2, 4), (5, 40), (10, 80)])
    w = rng.choice([32, 32, 32, 2, 5])
    ops = []
    peer_next = 0
    accepted_any = []
    lifetimes = rng.randint(3, 8)
    for life in range(lifetimes):
        ops.append({"op": "load"})
        if rng.random() < 0.3:
            # the first request of the lifetime lies beyond the window (boundary 2*window-1 ahead of the
            # index = highest + window, when the highest number sent was accepted); often the process
            # dies right away and the request is replayed to its successor
            n = peer_next + rng.choice([w - 2, w - 1, w, w + 1, 2 * w - 2, 2 * w - 1, 2 * w, 5000])
            peer_next = n + 1
            accepted_any.append(n)
            ops.append({"op": "unprotect", "n": n, "echo": rng.choice(["none", "none", "fresh"]), "crash": rng.choice([None, None, 0, 1, 2, 3, 4])})
            if rng.random() < 0.5:
                ops += [{"op": "crash"}, {"op": "load"}, {"op": "unprotect", "n": n}]
        if life > 0 and rng.random() < 0.5:
            # the new lifetime in the client role: a request of its own and the peer's response to it, without
            # a partial IV or with a fresh number of the peer
            piv = None
            if rng.random() < 0.3:
                piv, peer_next = peer_next, peer_next + 1
            ops += [{"op": "protect", "count": 1}, {"op": "response", "piv": piv}]
            if accepted_any:
                ops.append({"op": "unprotect", "n": rng.choice(accepted_any)})
        if long_run and life == 1:
            # one lifetime long enough to grow the chunk to the limit (10+20+..+5120 = 10230 < count)
            ops.append({"op": "protect", "count": 10300 + rng.randint(0, 300)})
            ops.append({"op": "protect", "count": 3, "crash": rng.choice([None, 0, 2, 4])})
        for _ in range(rng.randint(1, 6)):
            r = rng.random()
            if r < 0.45:
                if False:
                    pass
                else:
                    n = rng.choice([1, 2, 3, 9, 10, 11, 19, 21, 35, 70, 150, 320])
                ops.append({"op": "protect", "count": n, "crash": rng.choice([None, None, None, 0, 1, 2, 3, 4])})
            elif r < 0.8:
                kind = rng.random()
                if kind < 0.5 or not accepted_any:
                    # fresh numbers increase: consecutive, a few lost, or a gap around / far beyond the point
                    # (highest + window) from which the whole window is left behind
                    n = peer_next + rng.choice([0, 0, 0, 0, 1, 39, w - 2, w - 1, w, 2 * w - 2, 2 * w - 1, 2 * w, 100, 5000])
                    peer_next = n + 1
                    echo = rng.choice(["none", "none", "fresh", "fresh", "stale"])
                    accepted_any.append(n)
                else:
                    n = rng.choice(accepted_any)
                    echo = "none"
                ops.append({"op": "unprotect", "n": n, "echo": echo, "crash": rng.choice([None, None, None, 0, 1, 2, 3, 4])})
                # the server role goes on: the 4.01 + Echo of a request turned down, answers to an accepted one
                if rng.random() < 0.6:
                    ops.append({"op": "echoerr", "crash": rng.choice([None, None, None, 0, 2, 4])})
                for _i in range(rng.choice([0, 1, 1, 2, 3])):
                    ops.append({"op": "respond", "n": n, "crash": rng.choice([None, None, None, None, 1, 3])})
            else:
                ops.append({"op": "protect", "count": 1})
        ops.append(rng.choice([{"op": "crash"}, {"op": "crash"}, {"op": "clean"}, {"op": "clean"}, {"op": "clean", "crash": rng.randint(0, 4)}]))
    return {"cs": cs, "cl": cl, "mx": FAR, "w": w, "ops": ops, "origin": "random"}


def sig_of(clause, trace, at):
    shape = []
    for e in trace[1 : at + 1]:
        t = {"load": "L", "protect": "P", "unprotect": "U", "clean": "K", "crash": "X", "respond": "R", "echoerr": "E", "response": "A"}[e["k"]]
        if e["out"] == "crashed" and e["k"] != "crash":
            t += "x%d" % e["c"]
        elif e["out"] in ("refused", "reject"):
            t += "-"
        elif e["out"] == "reused":
            t += "="
        if e["k"] in ("respond", "echoerr"):
            t += "%d" % e["rn"]
        if e["k"] == "response" and e["n"] >= 0:
            t += "%d" % e["n"]
        if e["k"] == "unprotect":
            t += "%d%s" % (e["n"], {"none": "", "stale": "s", "fresh": "e"}[e["echo"]])
        shape.append(t)
    # run-length compress
    out = []
    for t in shape:
        if out and out[-1][0] == t:
            out[-1][1] += 1
        else:
            out.append([t, 1])
    body = ",".join(t if n == 1 else "%s*%d" % (t, n) for t, n in out[-14:])
    h = trace[0]
    return "%s|cs=%d,cl=%d|%s" % (clause, h["cs"], h["cl"], body)


def validate_and_report(rep, wd, scheds, results, timeout=1500):
    traces = [r["trace"] for r in results]
    verdicts, _r = oscore_env.validate_traces(wd, "SeqPersistTrace", TRACE_CFG, traces, timeout=timeout)
    ndrift = 0
    for s, res, v in zip(scheds, results, verdicts):
        bad = sorted(c for c in v["bad"] if c.startswith("C13_"))
        for clause in bad:
            at = v["at"][clause]
            tr = res["trace"]
            rep.violation(
                clause,
                sig_of(clause, tr, at),
                "clause %s false at event %d of a recorded history (%s schedule, chunk %d..%d): ... %s"
                % (clause, at, s["origin"], s["cs"], s["cl"], json.dumps([{k: e[k] for k in ("k", "out", "n", "rn", "echo", "c", "ssn", "dnext", "dunk")} for e in tr[max(1, at - 4) : at + 1]])),
                {"schedule": s, "trace": tr if len(tr) < 400 else tr[: at + 1][-400:], "firstBad": at},
            )
        if "DRIFT_model" in v["bad"] and not bad:
            ndrift += 1
            if ndrift <= 4:
                at = v["at"]["DRIFT_model"]
                rep.add_drift(
                    "recorded history is not a behaviour of the SeqPersist model although no clause is false (%s schedule, chunk %d..%d) at event %d: %s"
                    % (s["origin"], s["cs"], s["cl"], at, json.dumps(res["trace"][at]))
                )
    return len(traces), ndrift


def replay(rep, args):
    data = json.load(open(args.replay))
    s = data["replay"]["schedule"]
    _env()
    res = _run(s)
    if "error" in res:
        raise MachineryError(res["error"])
    with tlc.Workdir() as wd:
        validate_and_report(rep, wd, [s], [res])
    rep.coverage.update({"states": 0, "transitions": 0, "traces_validated_against_impl": 1, "samples": [res["trace"][:10]], "replayed": args.replay})
    rep.assumptions.append(oscore_env.ASSUMPTION)


def apalache_phase(rep):
    """Unbounded complement of the bounded exhaustive run: the inductive invariant of SeqPersistInd.tla
    (persist-ahead scheme over unbounded integers, a crash between any two steps) discharged with
    Apalache; a mutated copy whose Store leaves the disk untouched must be refuted.  Never gates the
    verdict: the module talks about the model, the histories above talk about the code."""
    import shutil, subprocess, tempfile

    exe = shutil.which("apalache-mc")
    out = {"ran": False}
    rep.coverage["apalache_inductive_invariant"] = out
    if exe is None:
        out["skipped"] = "apalache-mc not on PATH"
        return
    src = open(_os.path.join(VERIF, "spec", "SeqPersistInd.tla")).read()
    d = tempfile.mkdtemp(prefix="c13apa")
    try:
        def run(name, text, init, length):
            with open(_os.path.join(d, name + ".tla"), "w") as f:
                f.write(text.replace("MODULE SeqPersistInd", "MODULE " + name))
            try:
                r = subprocess.run(
                    [exe, "check", "--init=" + init, "--inv=IndInv", "--length=%d" % length, "--out-dir=" + _os.path.join(d, "out"), name + ".tla"],
                    cwd=d, capture_output=True, text=True, timeout=600,
                )
            except subprocess.TimeoutExpired:
                return "timeout"
            m = re.search(r"EXITCODE: (\w+)", r.stdout)
            return m.group(1) if m else "unknown(%d)" % r.returncode

        out["ran"] = True
        out["Init_implies_IndInv"] = run("SeqPersistInd", src, "Init", 0)
        out["IndInv_and_Next_implies_IndInv_primed"] = run("SeqPersistInd", src, "IndInit", 1)
        mutated = src.replace('pc = "mem" /\\ disk\' = persisted', 'pc = "mem" /\\ disk\' = disk')
        if mutated == src:
            raise MachineryError("SeqPersistInd.tla: Store action not found for the negative control")
        out["control_store_skips_disk_refuted"] = run("SeqPersistIndBad", mutated, "IndInit", 1)
        out["inductive"] = out["Init_implies_IndInv"] == "OK" and out["IndInv_and_Next_implies_IndInv_primed"] == "OK"
        if not out["inductive"] or out["control_store_skips_disk_refuted"] != "ERROR":
            rep.add_drift("Apalache on SeqPersistInd: %s" % {k: v for k, v in out.items() if k != "ran"})
    finally:
        shutil.rmtree(d, ignore_errors=True)


def work(rep, args):
    if args.replay:
        return replay(rep, args)
    quick = args.tier == "quick"
    rng = random.Random(args.seed * 15485863 + 13)
    _env()
    for d in oscore_env.tree_deviations():
        rep.add_drift("tree under test deviates from the RFC 8613 Appendix C vectors: " + d)
    # two exhaustive runs: the long-standing one (consecutive request numbers, up to MAX_SEQNO on the sender
    # side) and one in which a fresh request may skip 2w-2 = 2, 2w-1 = 3 or 2w = 4 numbers (window 2: shift /
    # past the whole window) with fewer protects
    mc_runs = (
        [
            dict(cs="{1, 2}", jumps="{0}", nj=0, np=6, nu=2, nc=2, nk=1, nr=0, nq=0),
            dict(cs="{1}", jumps="{0, 2, 3, 4}", nj=1, np=1, nu=3, nc=1, nk=1, nr=0, nq=0),
            # both directions: accepted requests are answered (re-using the request's nonce once, then with own
            # numbers), Echo errors rendered, responses of the peer (without / with partial IV) unprotected
            dict(cs="{1}", jumps="{0}", nj=0, np=2, nu=2, nc=1, nk=1, nr=2, nq=1),
        ]
        if quick
        else [
            dict(cs="{1, 2}", jumps="{0}", nj=0, np=6, nu=3, nc=2, nk=2, nr=0, nq=0),
            dict(cs="{1, 2}", jumps="{0, 2, 3, 4}", nj=1, np=2, nu=3, nc=2, nk=1, nr=0, nq=0),
            dict(cs="{1}", jumps="{0}", nj=0, np=2, nu=3, nc=2, nk=1, nr=3, nq=1),
        ]
    )
    nsim = 500 if quick else 6000
    nrand = 40 if quick else 1500
    nbound = 28 if quick else 280
    with tlc.Workdir() as wd:
        # the exhaustive runs proceed in the background while behaviours are generated and driven
        import threading
        import time as _time

        box = {}
        t_start = _time.time()
        phases = {}

        nworkers = max(2, (_os.cpu_count() or 4) - 4)
        small = max(1, nworkers // 6)
        share = [nworkers - 2 * small, small, small]  # the first run is the big one

        def run_mc(i):
            wd.write("SP_mc%d.cfg" % i, MC_CFG % mc_runs[i])
            box["mc"][i] = tlc.run(wd, "SeqPersist.tla", "SP_mc%d.cfg" % i, timeout=1800 if quick else 3400, workers=share[i])
            phases["model_check_%d_done_at" % i] = round(_time.time() - t_start, 1)

        box["mc"] = [None] * len(mc_runs)
        ths = [threading.Thread(target=run_mc, args=(i,)) for i in range(len(mc_runs))]
        for th in ths:
            th.start()
        wd.write("SP_sim.cfg", SIM_CFG)
        simdir = wd.file("sim")
        _os.makedirs(simdir)

        def run_sim():
            box["sim"] = tlc.run(wd, "SeqPersist.tla", "SP_sim.cfg", workers=1, timeout=900, simulate="file=%s/tr,num=%d" % (simdir, nsim), depth=70, seed=args.seed + 1)

        ths_sim = threading.Thread(target=run_sim)
        ths_sim.start()
        # while TLC generates behaviours, the schedules that do not depend on them are driven
        syst = systematic_schedules()
        jumps = jump_schedules()
        resp = response_schedules()
        static = syst + jumps + resp + boundary_schedules(rng, nbound)
        for i in range(nrand):
            static.append(random_schedule(rng, long_run=(i < (1 if quick else 6))))
        t0 = _time.time()
        static_results = run_all(static)
        phases["driving_the_implementation"] = round(_time.time() - t0, 1)
        phases["static_schedules_driven_at"] = round(_time.time() - t_start, 1)
        ths_sim.join()
        sim = box.get("sim")
        if sim is None:
            raise MachineryError("SeqPersist simulation did not run")
        tlc.need_ok_run(sim, "SeqPersist simulation")
        behaviours = read_behaviours(_os.path.join(simdir, "tr"))
        phases["simulation"] = round(sim.wall, 1)
        scheds = schedules_from_behaviours(behaviours)
        n_sim = len(scheds)
        atmax = scaled_max_schedules(behaviours)
        scheds += atmax
        t0 = _time.time()
        results = run_all(scheds)
        phases["driving_the_implementation"] = round(phases["driving_the_implementation"] + _time.time() - t0, 1)
        scheds += static
        results += static_results
        phases["all_schedules_driven_at"] = round(_time.time() - t_start, 1)
        for s, res in zip(scheds, results):
            if "error" in res:
                raise MachineryError("driver failed on schedule %s\n%s" % (json.dumps(s)[:600], res["error"]))
        t0 = _time.time()
        validated, ndrift = validate_and_report(rep, wd, scheds, results)
        phases["trace_validation"] = round(_time.time() - t0, 1)
        phases["traces_validated_at"] = round(_time.time() - t_start, 1)
        for th in ths:
            th.join()
        mcs = box["mc"]
        if None in mcs:
            raise MachineryError("SeqPersist model check did not run")
        for i, mc in enumerate(mcs):
            tlc.need_ok_run(mc, "SeqPersist model check %d" % i)
            if mc.error_trace:
                # the model itself admits a bad state: only a reproduced real history counts
                cex = schedules_from_behaviours([mc.error_trace])
                cres = run_all(cex)
                for s_, r_ in zip(cex, cres):
                    if "error" in r_:
                        raise MachineryError("driver failed on counterexample\n%s" % r_["error"])
                validate_and_report(rep, wd, cex, cres)
            if mc.violated:
                rep.notes.append("model check %d reported %s; counterexample replayed on the implementation" % (i, mc.violated))
                if not rep.violations:
                    raise MachineryError("SeqPersist model violates %s but the counterexample does not reproduce on the implementation" % mc.violated)
        # what the real histories exercised
        crashes = {}
        counters = {"issued": 0, "refused": 0, "accept": 0, "reject": 0, "load": 0, "clean_done": 0, "idle_crash": 0, "accept_by_echo_after_unclean_stop": 0, "load_unknown_window": 0, "load_known_window": 0}
        max_chunk_seen = 0
        highest = -1
        store_shapes = set()
        regimes = {}
        beyond = {}
        # (situations put to the implementation, whatever it made of them)
        answers = {
            "first response to an accepted request protected": 0, "further response to an accepted request protected": 0, "response demanded at exhaustion": 0,
            "echo error rendered": 0, "echo error rendered for a request that an earlier lifetime answered": 0,
            "peer's response without partial IV unprotected while the window is unknown": 0, "peer's response with partial IV unprotected while the window is unknown": 0,
            "peer's response unprotected while the window is known": 0,
            "request accepted by an earlier lifetime replayed after a response without partial IV met an unknown window": 0,
        }
        for s, res in zip(scheds, results):
            store_shapes.update(res["meta"]["stores"])
            for n in res["meta"]["notes"][:2]:
                if len(rep.drift) < 12:
                    rep.add_drift("%s schedule: %s" % (s["origin"], n))
            prev_next = None
            tr = res["trace"]
            for i, e in enumerate(tr):
                # a request beyond the window, accepted (or in the middle of being accepted) while sequence.json
                # vouched for the window: how did the lifetime end, and was the request replayed to the next one?
                if e["k"] == "unprotect" and e["out"] in ("accept", "crashed"):
                    regimes[e["reg"]] = regimes.get(e["reg"], 0) + 1
                    if e["reg"] in ("known-shift", "known-past"):
                        how = "crash after %d effects" % e["c"] if e["out"] == "crashed" else None
                        j = i + 1
                        if how is None:
                            while j < len(tr) and tr[j]["k"] == "protect" and tr[j]["out"] == "issued" and tr[j]["dnext"] == e["dnext"]:
                                j += 1  # protects that store nothing
                            if j < len(tr) and tr[j]["k"] == "crash":
                                how = "crash right after" if j == i + 1 else "crash after protects that store nothing"
                        else:
                            j = i
                        if how is not None and any(x["k"] == "unprotect" and x["n"] == e["n"] for x in tr[j + 1 : j + 4]):
                            key = "%s, %s" % (e["reg"][6:], how)
                            beyond[key] = beyond.get(key, 0) + 1
            acc_old, acc_now, ans_old, ans_now, plain_response_on_unknown = set(), set(), set(), set(), False
            for i, e in enumerate(tr):
                if e["k"] == "load":
                    acc_old |= acc_now
                    ans_old |= ans_now
                    acc_now, ans_now, plain_response_on_unknown = set(), set(), False
                elif e["out"] == "accept":
                    acc_now.add(e["n"])
                if e["k"] == "respond" and e["out"] in ("reused", "issued", "refused"):
                    answers["response demanded at exhaustion" if e["out"] == "refused" else "further response to an accepted request protected" if e["rn"] in ans_now else "first response to an accepted request protected"] += 1
                    if e["out"] != "refused":
                        ans_now.add(e["rn"])
                elif e["k"] == "echoerr" and e["out"] in ("reused", "issued"):
                    answers["echo error rendered"] += 1
                    if e["rn"] in ans_old:
                        answers["echo error rendered for a request that an earlier lifetime answered"] += 1
                elif e["k"] == "response":
                    if tr[i - 1]["winit"] == 1:
                        answers["peer's response unprotected while the window is known"] += 1
                    elif e["n"] < 0:
                        answers["peer's response without partial IV unprotected while the window is unknown"] += 1
                        plain_response_on_unknown = True
                    else:
                        answers["peer's response with partial IV unprotected while the window is unknown"] += 1
                elif e["k"] == "unprotect" and plain_response_on_unknown and e["n"] in acc_old and e["echo"] != "fresh":
                    answers["request accepted by an earlier lifetime replayed after a response without partial IV met an unknown window"] += 1
            for e in tr[1:]:
                if e["out"] == "crashed" and e["k"] != "crash":
                    crashes[(e["k"], e["c"])] = crashes.get((e["k"], e["c"]), 0) + 1
                elif e["k"] == "crash":
                    counters["idle_crash"] += 1
                elif e["k"] == "load":
                    counters["load"] += 1
                    counters["load_known_window" if e["winit"] == 1 else "load_unknown_window"] += 1
                elif e["k"] == "clean":
                    counters["clean_done"] += 1
                elif e["out"] in counters:
                    counters[e["out"]] += 1
                    if e["out"] == "accept" and e["echo"] == "fresh":
                        counters["accept_by_echo_after_unclean_stop"] += 1
                if e["out"] == "issued" and s.get("base"):
                    highest = max(highest, e["n"] + s["base"])
                if e["dex"] == 1 and e["k"] == "protect" and e["out"] == "issued":
                    if prev_next is not None and e["dnext"] > prev_next:
                        max_chunk_seen = max(max_chunk_seen, e["dnext"] - prev_next)
                    prev_next = e["dnext"]
                else:
                    prev_next = e["dnext"] if e["dex"] == 1 and e["k"] == "protect" else None
        want = [(k, c) for k in ("protect", "unprotect", "clean") for c in range(5)]
        missing = [x for x in want if x not in crashes]
        want_beyond = ["%s, %s" % (r, h) for r in ("shift", "past") for h in ["crash after %d effects" % c for c in range(5)] + ["crash right after", "crash after protects that store nothing"]]
        missing += [k for k, v in answers.items() if v == 0]
        if any(r != "none" for r in regimes):
            missing += [x for x in want_beyond if x not in beyond]
        else:
            rep.add_drift("the position of request numbers relative to the replay window could not be measured (ReplayWindow.persist() has no integer 'index'): coverage of requests beyond the window not established")
        if (missing or min(counters.values()) == 0) and not rep.violations:
            # (with a violation at hand the verdict stands; a broken tree may well never reach a situation)
            raise MachineryError("situations never exercised: crash points %s, counters %s" % (missing, counters))
        if store_shapes != {EFFECTS}:
            rep.add_drift("_store performs the file-system effects %s, the model assumes %s" % (sorted(store_shapes), EFFECTS))
        rep.coverage.update(
            {
                "states": sum(m.distinct for m in mcs),
                "transitions": sum(m.generated for m in mcs),
                "depth": max(m.depth for m in mcs),
                "mc_constants": [dict(c, ChunkLimit=4, MaxSeq=5, WSize=2) for c in mc_runs],
                "mc_runs": [
                    {"constants": dict(c, ChunkLimit=4, MaxSeq=5, WSize=2), "states": m.distinct, "transitions": m.generated, "depth": m.depth, "wall_s": round(m.wall, 1)}
                    for c, m in zip(mc_runs, mcs)
                ],
                "exhaustive": True,
                "phase_seconds": phases,
                "jump_schedules": len(jumps),
                "response_schedules": len(resp),
                "other_direction_exercised": answers,
                "accepted_requests_by_position_relative_to_window": regimes,
                "first_change_of_a_vouched_window_beyond_it_then_crash_then_replay": beyond,
                "schedules_from_simulation": n_sim,
                "schedules_from_simulation_at_real_MAX_SEQNO": len(atmax),
                "systematic_crash_point_schedules": len(syst),
                "boundary_schedules": nbound,
                "random_schedules": nrand,
                "traces_validated_against_impl": validated,
                "events_total": sum(len(r["trace"]) - 1 for r in results),
                "traces_not_explained_by_model": ndrift,
                "crash_points_exercised": {"%s after %d effects" % k: v for k, v in sorted(crashes.items())},
                "situations_exercised": counters,
                "largest_persist_chunk_observed": max_chunk_seen,
                "highest_number_issued_in_boundary_runs": highest,
                "highest_number_issued_is_2^40-2": highest == REAL_MAX - 1,
                "effects_of_store_observed": sorted(store_shapes),
                "distinct_nontrivial": len({tuple((e["k"], e["out"], e["c"]) for e in r["trace"][1:40]) for r in results}),
                "samples": [
                    {"schedule": scheds[i], "trace": [{k: e[k] for k in ("k", "out", "n", "rn", "echo", "c", "ssn", "dex", "dnext", "dunk", "tmp")} for e in results[i]["trace"][:12]]}
                    for i in (0, n_sim + len(atmax), n_sim + len(atmax) + len(syst) + 8, n_sim + len(atmax) + len(syst) + len(jumps) + 1, len(scheds) - nrand - 1)
                ],
                "checker_cmd": "tlc SeqPersist.tla (Spec exhaustive; -simulate) ; tlc SeqPersistTrace.tla on recorded histories",
            }
        )
    if not quick:
        apalache_phase(rep)
    rep.assumptions += [
        oscore_env.ASSUMPTION,
        "a crash is process death between two file-system calls of _store (mkstemp, write+flush, fsync, replace): memory lost, directory as left behind, lock and descriptors dropped; no reordering of completed disk writes (as the statement says)",
        "crashes are injected by wrapping the names os/tempfile/io as seen from aiocoap.oscore; the crashed object is abandoned without __del__/_destroy",
        "nonces are observed by giving each loaded context a recording subclass instance of its AEAD algorithm object (alg_aead) and taking the nonce apart as RFC 8613 5.2 composes it (common IV xor [id length | id | partial IV]); responses are protected / unprotected through the same calls as oscore_sitewrapper and transports/oscore make",
        "requests come from a genuine peer (fresh numbers increase, consecutively or with gaps up to far beyond the window; replays are unchanged earlier requests); forgeries are C12's subject",
        "exhaustive for the small constants recorded in mc_constants (one entry per run, details in mc_runs); default chunk sizes (10..10000) and the real 2^40-1 boundary are driven by systematic, random and boundary schedules and judged by TLC on the recorded histories",
    ]


if __name__ == "__main__":
    sys.exit(runner.main("C13", work))
