"""C12 -- OSCORE replay protection: a protected request is accepted at most once.

1. TLC checks spec/ReplayWindow.tla exhaustively (window sizes 1..4, sequence
   numbers 0..7, up to 6 arrivals, authentic/forged, Echo none/stale/fresh,
   initialised and uninitialised start): the clauses over the accepted set and
   the agreement of the index/bitfield design with them.
2. spec -> code: every edge of the implementation-shaped state graph (TLC
   prints each with a shortest path from an initial state) and simulated
   behaviours with larger constants are replayed (i) on
   aiocoap.oscore.ReplayWindow directly and (ii) through the full unprotect()
   of real protected requests between two in-memory security contexts (forgery
   = valid partial IV + corrupted ciphertext; Echo obtained through the real
   4.01 exchange); outcome and _index/_bitfield are compared with the model's
   prediction (difference = DRIFT).
3. code -> spec: all recorded traces, plus random real-scale runs (default
   window 32 and others), are validated by TLC against ReplayWindowTrace.tla,
   which evaluates the clauses on the recorded accept/reject history.  Only a
   clause found false by TLC on a real trace is a VIOLATION."""

import copy
import json
import os
import random
import sys
from multiprocessing import Pool

from harness import tlc, MachineryError, runner, oscore_env

MC_CFG = """SPECIFICATION Spec
CONSTANTS
  Ws = {1, 2, 3, 4}
  MaxN = 7
  MaxLen = %(maxlen)d
VIEW View
INVARIANT NoBad
INVARIANT Agreement
INVARIANT C12_AcceptAtMostOnce
INVARIANT C12_BelowWindowRejected
INVARIANT C12_AboveAllAccepted
INVARIANT C12_InWindowUnseenAccepted
INVARIANT C12_ForgeryNoEffect
INVARIANT C12_UninitialisedNeedsEcho
INVARIANT C12_ResponseNoEffect
"""

EDGE_CFG = """SPECIFICATION EdgeSpec
CONSTANTS
  Ws = {1, 2, 3, 4}
  MaxN = 7
  MaxLen = 6
VIEW EdgeView
"""

SIM_CFG = """SPECIFICATION Spec
CONSTANTS
  Ws = {1, 2, 3, 4, 5, 8}
  MaxN = 20
  MaxLen = 16
INVARIANT NoBad
"""

TRACE_CFG = """SPECIFICATION TSpec
CONSTANTS
  Ws = {1}
  MaxN = 7
  MaxLen = 6
INVARIANT Report
CHECK_DEADLOCK FALSE
"""

CLAUSES = [
    "C12_AcceptAtMostOnce",
    "C12_BelowWindowRejected",
    "C12_AboveAllAccepted",
    "C12_InWindowUnseenAccepted",
    "C12_ForgeryNoEffect",
    "C12_UninitialisedNeedsEcho",
    "C12_ResponseNoEffect",
]

STALE_ECHO = b"\x5a" * 8

_G = {}


def _env():
    if "oscore" not in _G:
        oscore = oscore_env.setup()
        import aiocoap

        _G["oscore"] = oscore
        _G["aiocoap"] = aiocoap
        _G["cls"] = oscore_env.make_context_class(oscore)
    return _G["oscore"], _G["aiocoap"]


def projection(w):
    """(idx, seen) of a ReplayWindow; idx -1 when the attributes the property
    anchors name are not there (degrade to black-box), -2 when uninitialised."""
    try:
        idx = w._index
        bits = w._bitfield
    except AttributeError:
        return -1, []
    if idx is None:
        return -2, []
    if not isinstance(idx, int) or not isinstance(bits, int) or bits < 0:
        return -1, []
    seen = []
    i = 0
    while bits:
        if bits & 1:
            seen.append(idx + i)
        bits >>= 1
        i += 1
    return idx, seen


def start_record(s):
    return {"k": "start", "W": s["W"], "init": bool(s["init"]), "hasEcho": bool(s.get("hasEcho", True)), "n": -1, "auth": False, "echo": "none", "res": "start", "idx": -1, "seen": [], "why": ""}


def run_direct(s):
    """aiocoap.oscore.ReplayWindow on its own: is_valid / strike_out on an
    INITIALISED window (request events only).  What happens around it -- the
    uninitialised state, Echo recovery, responses, the order of checks in
    unprotect() -- is deliberately not re-implemented here: those behaviours
    are only ever driven through the real unprotect()."""
    oscore, _ = _env()
    calls = [0]

    def cb():
        calls[0] += 1

    assert s["init"], "direct binding is for initialised windows only"
    w = oscore.ReplayWindow(s["W"], cb)
    w.initialize_empty()
    trace = [start_record(s)]
    for ev in s["events"]:
        n, auth, echo = ev["n"], ev["auth"], ev["echo"]
        if ev.get("k", "req") != "req":
            continue
        why = ""
        try:
            ok = w.is_valid(n)  # a forged message gets no further than this query
            if ok and auth:
                w.strike_out(n)
                res = "acc"
            else:
                res = "rej"
        except Exception as e:  # e.g. strike_out refusing: counts as not accepted
            res = "rej"
            why = type(e).__name__
        idx, seen = projection(w)
        trace.append(dict(start_record(s), k="req", n=n, auth=bool(auth), echo=echo, res=res, idx=idx, seen=seen, why=why))
    return {"trace": trace, "meta": {"callbacks": calls[0], "unexpected": []}}


def run_unprotect(s):
    """Real protected requests from a client context, unprotected by a server
    context sharing the keys."""
    oscore, aiocoap = _env()
    from aiocoap.message import Direction

    cls = _G["cls"]
    rng = random.Random(s.get("seed", 0))
    echo_value = bytes(rng.getrandbits(8) for _ in range(8)) if s.get("hasEcho", True) else None
    client = oscore_env.new_context(oscore, b"\x01", b"", window=s["W"], cls=cls)
    server = oscore_env.new_context(oscore, b"", b"\x01", window=s["W"], initialized=bool(s["init"]), echo_recovery=echo_value, cls=cls)
    trace = [start_record(s)]
    unexpected = []
    learned_echo = None
    echo_exchanges = 0
    for i, ev in enumerate(s["events"]):
        n, auth, echo = ev["n"], ev["auth"], ev["echo"]
        if ev.get("k", "req") == "resp":
            # role reversal: the judged context sent a request; the peer answers with a response
            # that carries its own Partial IV n (a notification, or the nonce could not be reused)
            why = ""
            try:
                q, rid_s = server.protect(aiocoap.Message(code=aiocoap.GET, uri_path=("obs", str(i)), observe=0))
                q.mtype, q.mid, q.token = aiocoap.NON, 0x4000 + i, b""
                fresh_client = copy.copy(client)
                fresh_client.recipient_replay_window = oscore.ReplayWindow(s["W"], lambda: None)
                fresh_client.recipient_replay_window.initialize_empty()
                _p, rid_c = fresh_client.unprotect(aiocoap.Message.decode(q.encode()))
                rid_c.get_reusable_kid_and_piv()  # not the first response: own Partial IV
                client.sender_sequence_number = n
                note = aiocoap.Message(code=aiocoap.CONTENT, payload=b"n%d" % n, observe=i + 1)
                ro, _ = client.protect(note, rid_c)
                ro.mtype, ro.mid, ro.token = aiocoap.NON, 0x5000 + i, b""
            except Exception as e:
                raise MachineryError("could not produce a response with its own Partial IV: %r" % (e,))
            try:
                plain, _rid = server.unprotect(aiocoap.Message.decode(ro.encode()), rid_s)
                res = "acc"
                if plain.payload != note.payload:
                    unexpected.append("event %d: response unprotected to a different payload" % i)
            except oscore.ProtectionInvalid as e:
                res, why = "rej", type(e).__name__
            except Exception as e:
                res, why = "rej", type(e).__name__
                unexpected.append("event %d (response, n=%d): unprotect raised %r" % (i, n, e))
            idx, seen = projection(server.recipient_replay_window)
            trace.append(dict(start_record(s), k="resp", n=n, auth=True, echo="none", res=res, idx=idx, seen=seen, why=why))
            continue
        msg = aiocoap.Message(code=aiocoap.POST, uri_path=("r", str(i)), payload=b"p%d" % n)
        if echo == "stale":
            msg.opt.echo = STALE_ECHO
        elif echo == "fresh":
            msg.opt.echo = learned_echo if learned_echo is not None else (server.echo_recovery or STALE_ECHO)
        client.sender_sequence_number = n
        outer, req_id = client.protect(msg)
        outer.mtype, outer.mid, outer.token = aiocoap.NON, (i + 1) & 0xFFFF, b""
        wire = bytearray(outer.encode())
        if not auth:
            # valid-looking partial IV, ciphertext (or tag) corrupted
            npay = len(outer.payload)
            pos = len(wire) - 1 - (ev.get("flip", 0) % npay)
            wire[pos] ^= 1 << (ev.get("flip", 0) % 8)
        incoming = aiocoap.Message.decode(bytes(wire))
        why = ""
        try:
            plain, _rid = server.unprotect(incoming)
            res = "acc"
            if plain.payload != msg.payload:
                unexpected.append("event %d: accepted with different payload" % i)
        except oscore.ReplayErrorWithEcho as e:
            res, why = "rej", "ReplayErrorWithEcho"
            # the real 4.01 exchange: the client learns the Echo value from the protected response
            try:
                resp = e.to_message()
                resp.mtype, resp.mid, resp.token = aiocoap.NON, 0x7000 + i, b""
                rin = aiocoap.Message.decode(resp.encode())
                rplain, _ = client.unprotect(rin, req_id)
                learned_echo = rplain.opt.echo
                echo_exchanges += 1
                if rplain.code != aiocoap.UNAUTHORIZED or learned_echo != server.echo_recovery:
                    unexpected.append("event %d: 4.01 Echo exchange yielded %r %r" % (i, rplain.code, learned_echo))
            except Exception as e2:
                unexpected.append("event %d: Echo response not usable: %r" % (i, e2))
        except oscore.ProtectionInvalid as e:
            res, why = "rej", type(e).__name__
        except Exception as e:
            res, why = "rej", type(e).__name__
            unexpected.append("event %d (n=%d auth=%s): unprotect raised %r" % (i, n, auth, e))
        idx, seen = projection(server.recipient_replay_window)
        trace.append(dict(start_record(s), k="req", n=n, auth=bool(auth), echo=echo, res=res, idx=idx, seen=seen, why=why))
    return {"trace": trace, "meta": {"unexpected": unexpected, "echo_exchanges": echo_exchanges}}


def run_schedule(s):
    return run_direct(s) if s["binding"] == "direct" else run_unprotect(s)


def _run(s):
    try:
        return run_schedule(s)
    except Exception:
        import traceback

        return {"error": traceback.format_exc()}


def run_all(scheds):
    if not scheds:
        return []
    _env()  # import + validate once, before forking
    if sum(len(s["events"]) for s in scheds) < 40000:
        return [_run(s) for s in scheds]  # ~0.3 ms per event: cheaper than starting a pool
    with Pool(min(8, os.cpu_count() or 4)) as p:
        return p.map(_run, scheds, chunksize=max(1, len(scheds) // 64))


# -- spec -> code ---------------------------------------------------------------
def ev_of(e):
    return {"k": e["k"], "n": e["n"], "auth": bool(e["auth"]), "echo": e["echo"]}


def exp_of(e):
    return {"res": e["res"], "idx": e["idx"], "seen": sorted(e["seen"])}


def schedules_from_edges(vals):
    out = []
    for v in vals:
        _, w, init, has_echo, hist, e = v
        evs = [ev_of(x) for x in hist] + [ev_of(e)]
        exp = [exp_of(x) for x in hist] + [exp_of(e)]
        out.append(({"W": w, "init": bool(init), "hasEcho": bool(has_echo), "events": evs, "origin": "edge"}, exp))
    return out


def schedules_from_behaviours(behs):
    out = []
    for beh in behs:
        if not beh:
            continue
        o = beh[0][1]["obs"]
        evs, exp = [], []
        for _label, st in beh[1:]:
            a = st["act"]
            evs.append(ev_of(a))
            exp.append(exp_of(a))
        if evs:
            out.append(({"W": o["W"], "init": bool(o["init"]), "hasEcho": bool(o["hasEcho"]), "events": evs, "origin": "sim"}, exp))
    return out


def compare(exp, trace):
    """First difference between the model's prediction and the recorded trace."""
    if len(exp) != len(trace) - 1:
        return None  # (direct binding: request events only; compared by TLC on the recorded trace)
    for i, (x, t) in enumerate(zip(exp, trace[1:])):
        if x["res"] != t["res"]:
            return "event %d (n=%d auth=%s echo=%s): model %s, implementation %s (%s)" % (i, t["n"], t["auth"], t["echo"], x["res"], t["res"], t["why"])
        if t["idx"] != -1 and (x["idx"] != t["idx"] or x["seen"] != sorted(t["seen"])):
            return "event %d (n=%d): model window index=%s seen=%s, implementation index=%s seen=%s" % (i, t["n"], x["idx"], x["seen"], t["idx"], sorted(t["seen"]))
    return None


# -- random real-scale schedules ---------------------------------------------------
def random_schedule(rng, binding):
    W = rng.choice([32, 32, 32, 32, 64, 7, 1, 2, 100, 33])
    init = rng.random() < 0.7 if binding == "unprotect" else True
    has_echo = rng.random() < 0.75  # independent of the start state
    length = rng.randint(20, 70)
    front = rng.choice([0, 0, 1, rng.randint(0, 60)])
    sent = []
    evs = []
    pending_genuine = []
    used_by_resp = set()
    have_init = init
    for _ in range(length):
        if not have_init and rng.random() < 0.6:
            echo = rng.choice(["none", "stale", "none", "fresh"])
        elif not have_init:
            echo = "fresh"
        else:
            echo = rng.choice(["none"] * 8 + ["stale", "fresh"])
        kind = rng.choice(["new", "new", "new", "skip", "jump", "replay", "old", "below", "edge", "genuine", "resp"])
        if kind == "resp" and binding == "unprotect":
            # a (late) response of the peer with its own Partial IV: below, inside or above the window.
            # The peer numbers requests and responses from one counter: never a number a request uses.
            m = max(0, front + rng.choice([-W - 3, -W, -W // 2 - 1, -2, -1, 1, 2, W + 5]))
            if m not in sent and m not in pending_genuine and all(x["n"] != m for x in evs):
                evs.append({"k": "resp", "n": m, "auth": True, "echo": "none"})
                used_by_resp.add(m)
                if not have_init and has_echo:
                    have_init = True
                    front = max(front, m)
            continue
        if kind == "genuine" and pending_genuine:
            n = pending_genuine.pop(rng.randrange(len(pending_genuine)))
        elif kind in ("new", "genuine"):
            front += 1
            n = front
        elif kind == "skip":
            front += rng.randint(2, max(2, W // 2 + 1))
            n = front
        elif kind == "jump":
            front += W + rng.randint(0, 40)
            n = front
        elif kind == "replay" and sent:
            n = rng.choice(sent)
        elif kind == "old":
            n = max(0, front - rng.randint(1, max(1, W - 1)))
        elif kind == "below":
            n = max(0, front - W - rng.randint(0, 5))
        else:  # exactly at the window edges
            n = max(0, front - W + rng.choice([-1, 0, 1]))
        if n in used_by_resp:
            continue
        auth = rng.random() >= 0.25
        e = {"k": "req", "n": n, "auth": auth, "echo": echo}
        if not auth:
            e["flip"] = rng.randint(0, 200)
            pending_genuine.append(n)
        else:
            sent.append(n)
            if echo == "fresh" and has_echo:
                have_init = True
        evs.append(e)
    return {
        "W": W,
        "init": init,
        "binding": binding,
        "events": evs,
        "origin": "random",
        "seed": rng.randint(0, 2**31),
        "hasEcho": has_echo,
    }


def sig_of(clause, s, upto, trace=None):
    """clause + configuration + the kind of event at which the clause is false
    (the history that leads there is in the replay file)."""
    start = ("init" if s["init"] else "uninit") + ("" if s.get("hasEcho", True) else "-noecho")
    if trace is not None and 0 < upto < len(trace):
        e = trace[upto]
        what = "%s%s%s->%s" % ("response" if e["k"] == "resp" else "request", "" if e["auth"] else "-forged", {"none": "", "stale": "-staleecho", "fresh": "-freshecho"}[e["echo"]], e["res"])
    else:
        what = "?"
    return "%s|%s|%s|%s" % (clause, s["binding"], start, what)


def stats_of(trace, counters):
    """Which situations of the statement the recorded traces exercised (statistics only)."""
    W = trace[0]["W"]
    init = trace[0]["init"]
    has_echo = trace[0]["hasEcho"]
    acc, forged = set(), set()
    floor = 0
    for e in trace[1:]:
        n = e["n"]
        if e["k"] == "resp":
            if init:
                counters["response_on_initialised_window"] += 1
                if acc and n < max(acc):
                    counters["late_response_below_accepted_requests"] += 1
            elif has_echo:
                counters["response_initialises_window"] += 1
                init, floor = True, n
            else:
                counters["uninit_without_echo_recovery"] += 1
            continue
        if not e["auth"]:
            counters["forgery"] += 1
            forged.add(n)
            continue
        if not init:
            counters["uninit_" + e["echo"]] += 1
            if not has_echo:
                counters["uninit_without_echo_recovery"] += 1
        elif n in acc:
            counters["replay_of_accepted"] += 1
        elif n < floor:
            counters["below_window"] += 1
        elif not acc or n > max(acc):
            counters["above_all"] += 1
            if acc and n - max(acc) > W:
                counters["jump_beyond_window"] += 1
        else:
            counters["in_window_unseen"] += 1
        if n in forged and init:
            counters["genuine_after_forgery"] += 1
        if e["res"] == "acc":
            floor = n if not init else max(floor, n - W + 1)
            init = True
            acc.add(n)
            forged.discard(n)


def validate_and_report(rep, wd, scheds, results, label):
    traces = [r["trace"] for r in results]
    verdicts, _r = oscore_env.validate_traces(wd, "ReplayWindowTrace", TRACE_CFG, traces, timeout=900)
    ndrift = 0
    for s, res, v in zip(scheds, results, verdicts):
        bad = sorted(c for c in v["bad"] if c.startswith("C12_"))
        for clause in bad:
            at = v["at"][clause]
            rep.violation(
                clause,
                sig_of(clause, s, at, res["trace"]),
                "clause %s false at event %d of a recorded %s execution (W=%d, %s start): %s"
                % (clause, at, s["binding"], s["W"], "initialised" if s["init"] else "uninitialised", json.dumps(res["trace"][max(1, at - 3) : at + 1])),
                {"schedule": s, "trace": res["trace"], "firstBad": at},
            )
        if "DRIFT_model" in v["bad"] and not bad:
            ndrift += 1
            if ndrift <= 3:
                rep.add_drift("%s: recorded %s trace is not a behaviour of the ReplayWindow model although no clause is false (W=%d)" % (label, s["binding"], s["W"]))
    return len(traces), ndrift


def replay(rep, args):
    data = json.load(open(args.replay))
    s = data["replay"]["schedule"]
    _env()
    res = run_schedule(s)
    with tlc.Workdir() as wd:
        validate_and_report(rep, wd, [s], [res], "replay")
    rep.coverage.update({"states": 0, "transitions": 0, "traces_validated_against_impl": 1, "samples": [res["trace"][:8]], "replayed": args.replay})
    rep.assumptions.append(oscore_env.ASSUMPTION)


def work(rep, args):
    if args.replay:
        return replay(rep, args)
    quick = args.tier == "quick"
    rng = random.Random(args.seed * 104729 + 12)
    oscore, _ = _env()
    for d in oscore_env.tree_deviations():
        rep.add_drift("tree under test deviates from the RFC 8613 Appendix C vectors: " + d)
    nsim = 400 if quick else 4000
    nrand = 300 if quick else 6000
    with tlc.Workdir() as wd:
        wd.write("RW_mc.cfg", MC_CFG % {"maxlen": 5 if quick else 6})
        import threading

        box = {}

        def run_mc():  # the exhaustive run proceeds while edges and behaviours are generated and driven
            box["mc"] = tlc.run(wd, "ReplayWindow.tla", "RW_mc.cfg", timeout=1800 if quick else 3400, workers=max(2, (os.cpu_count() or 4) - 4))

        th = threading.Thread(target=run_mc)
        th.start()
        wd.write("RW_edge.cfg", EDGE_CFG)
        edges = tlc.run(wd, "ReplayWindow.tla", "RW_edge.cfg", workers=1, timeout=1200)
        tlc.need_ok_run(edges, "ReplayWindow edge enumeration")
        edge_vals = tlc.printed_values(edges, "EDGE")
        if len(edge_vals) < 1000:
            raise MachineryError("edge enumeration produced only %d edges" % len(edge_vals))
        wd.write("RW_sim.cfg", SIM_CFG)
        simdir = wd.file("sim")
        os.makedirs(simdir)
        sim = tlc.run(wd, "ReplayWindow.tla", "RW_sim.cfg", workers=1, timeout=600, simulate="file=%s/tr,num=%d" % (simdir, nsim), depth=18, seed=args.seed + 1)
        tlc.need_ok_run(sim, "ReplayWindow simulation")
        behaviours = tlc.read_sim_traces(os.path.join(simdir, "tr"))

        model = schedules_from_edges(edge_vals)
        if quick:
            # initialised starts: all edges through ReplayWindow directly and a seeded half through the (slower)
            # full unprotect; uninitialised starts, responses: always through unprotect (nothing re-implemented)
            sample = set(rng.sample(range(len(model)), len(model) // 2))
        else:
            sample = set(range(len(model)))
        model += schedules_from_behaviours(behaviours)
        scheds, expected = [], []
        for i, (s, exp) in enumerate(model):
            only_requests = all(e["k"] == "req" for e in s["events"])
            if s["init"] and only_requests:
                scheds.append(dict(s, binding="direct"))
                expected.append(exp)
            if s["origin"] != "edge" or i in sample or not s["init"] or not only_requests:
                scheds.append(dict(s, binding="unprotect", seed=i))
                expected.append(exp)
        n_model = len(scheds)
        for i in range(nrand):
            scheds.append(random_schedule(rng, "unprotect" if i % 4 else "direct"))
        scheds = [x for x in scheds if x["binding"] == "unprotect" or x["events"]]
        results = run_all(scheds)
        for s, res in zip(scheds, results):
            if "error" in res:
                raise MachineryError("driver failed on schedule %s\n%s" % (json.dumps(s)[:400], res["error"]))
        # spec -> code comparison (DRIFT only; verdicts come from TLC below)
        ndrift_cmp = 0
        for s, exp, res in zip(scheds[:n_model], expected, results[:n_model]):
            d = compare(exp, res["trace"])
            if d:
                ndrift_cmp += 1
                if ndrift_cmp <= 5:
                    rep.add_drift("model behaviour not reproduced by implementation (%s, W=%d, %s): %s" % (s["binding"], s["W"], "init" if s["init"] else "uninit", d))
        unexpected = 0
        for s, res in zip(scheds, results):
            for u in res["meta"].get("unexpected", ()):
                unexpected += 1
                if unexpected <= 5:
                    rep.add_drift("%s binding, W=%d: %s" % (s["binding"], s["W"], u))
        # code -> spec
        validated, ndrift_tr = validate_and_report(rep, wd, scheds, results, "trace validation")
        th.join()
        mc = box.get("mc")
        if mc is None:
            raise MachineryError("ReplayWindow model check did not run")
        tlc.need_ok_run(mc, "ReplayWindow model check")
        if mc.error_trace:
            cex = [dict(x, binding="unprotect", seed=1) for x, _e in schedules_from_behaviours([mc.error_trace])]
            cres = run_all(cex)
            for s_, r_ in zip(cex, cres):
                if "error" in r_:
                    raise MachineryError("driver failed on counterexample\n%s" % r_["error"])
            validate_and_report(rep, wd, cex, cres, "counterexample")
        if mc.violated:
            rep.notes.append("model check reported %s; counterexample replayed on the implementation" % mc.violated)
            if not rep.violations:
                raise MachineryError("ReplayWindow model violates %s but the counterexample does not reproduce on the implementation" % mc.violated)
        counters = {k: 0 for k in ("forgery", "genuine_after_forgery", "replay_of_accepted", "below_window", "above_all", "jump_beyond_window", "in_window_unseen", "uninit_none", "uninit_stale", "uninit_fresh", "uninit_without_echo_recovery", "response_on_initialised_window", "late_response_below_accepted_requests", "response_initialises_window")}
        noproj = 0
        shapes = set()
        for res in results:
            stats_of(res["trace"], counters)
            if any(e["idx"] == -1 for e in res["trace"][1:]):
                noproj += 1
            shapes.add(tuple((e["res"], e["auth"]) for e in res["trace"][1:]))
        if min(counters.values()) == 0 and not rep.violations:
            raise MachineryError("a situation of the statement was never exercised: %s" % counters)
        if noproj:
            rep.notes.append("window projection (_index/_bitfield) unavailable in %d traces: black-box validation only" % noproj)
        echo_x = sum(r["meta"].get("echo_exchanges", 0) for r in results)
        pick = [0, n_model - 1, n_model, len(scheds) - 1]
        rep.coverage.update(
            {
                "states": mc.distinct,
                "transitions": mc.generated,
                "depth": mc.depth,
                "mc_constants": {"Ws": [1, 2, 3, 4], "MaxN": 7, "MaxLen": 5 if quick else 6, "start": ["initialised", "uninitialised"], "echo_recovery": ["configured", "None"], "events": ["request (authentic/forged, Echo none/stale/fresh)", "response with own Partial IV"]},
                "exhaustive": True,
                "graph_edges": len(edge_vals),
                "graph_states": edges.distinct,
                "schedules_from_graph_edges": sum(1 for s in scheds[:n_model] if s["origin"] == "edge"),
                "schedules_from_simulation": sum(1 for s in scheds[:n_model] if s["origin"] == "sim"),
                "random_schedules": len(scheds) - n_model,
                "traces_validated_against_impl": validated,
                "traces_direct_ReplayWindow": sum(1 for s in scheds if s["binding"] == "direct"),
                "traces_full_unprotect": sum(1 for s in scheds if s["binding"] == "unprotect"),
                "events_total": sum(len(r["trace"]) - 1 for r in results),
                "echo_exchanges_real_4_01": echo_x,
                "model_behaviours_reproduced_exactly": n_model - ndrift_cmp,
                "traces_not_explained_by_model": ndrift_tr,
                "traces_without_state_projection": noproj,
                "situations_exercised": counters,
                "distinct_nontrivial": len(shapes),
                "window_sizes_real_runs": sorted({s["W"] for s in scheds}),
                "samples": [{"schedule": scheds[i], "trace": results[i]["trace"][:8]} for i in pick],
                "checker_cmd": "tlc ReplayWindow.tla (Spec exhaustive; EdgeSpec edge enumeration; -simulate) ; tlc ReplayWindowTrace.tla on recorded traces",
            }
        )
    rep.assumptions += [
        oscore_env.ASSUMPTION,
        "in-memory security contexts (real CanProtect/CanUnprotect/SecurityContextUtils code, nothing persisted) as in tests/test_oscore.py",
        "forgery = genuine request with one corrupted ciphertext/tag bit (valid-looking partial IV); AEAD assumed to reject it",
        "exhaustive for W in 1..4, numbers 0..7, <= 6 arrivals; larger windows (default 32) by random runs validated by TLC",
        "the ReplayWindow-direct binding only queries is_valid and calls strike_out for authentic valid numbers on an initialised window; the uninitialised state, Echo recovery, responses and the order of checks are driven through the real unprotect() only",
        "when Echo recovery is configured an uninitialised window may be initialised from a response to a request this process sent (unprotect's try_initialize): the monitor follows the code there and treats it like an Echo round trip",
    ]


if __name__ == "__main__":
    sys.exit(runner.main("C12", work))
